// Package vsync stands in for "sync" in conn.go and server.go when the
// verification harness builds go-smtp with -overlay (the import line of those
// two files is rewritten; /repo itself is not touched). Mutex is built on a
// channel so that waiting for it is "durably blocking" for testing/synctest
// (the schedule explorer needs an exact "every goroutine is blocked" signal,
// which sync.Mutex does not give), and Lock calls an optional hook that the
// lock-level tier turns into a scheduling point. Everything else is the real
// sync package.
package vsync

import (
	"runtime"
	"strings"
	"sync"
)

type (
	WaitGroup = sync.WaitGroup
	Once      = sync.Once
	Cond      = sync.Cond
	Map       = sync.Map
	Pool      = sync.Pool
	Locker    = sync.Locker
)

func NewCond(l Locker) *Cond { return sync.NewCond(l) }

// LockHook, if set, is called at the beginning of every Mutex.Lock with the
// name of the innermost go-smtp function on the stack.
var LockHook func(site string)

type Mutex struct {
	init sync.Mutex
	ch   chan struct{}
}

func (m *Mutex) c() chan struct{} {
	m.init.Lock()
	if m.ch == nil {
		m.ch = make(chan struct{}, 1)
	}
	ch := m.ch
	m.init.Unlock()
	return ch
}

func (m *Mutex) Lock() {
	if h := LockHook; h != nil {
		h(site())
	}
	m.c() <- struct{}{}
}

func (m *Mutex) TryLock() bool {
	select {
	case m.c() <- struct{}{}:
		return true
	default:
		return false
	}
}

func (m *Mutex) Unlock() {
	select {
	case <-m.c():
	default:
		panic("vsync: unlock of unlocked mutex")
	}
}

// RWMutex: readers are treated as writers (conservative, and enough for a package that uses none today).
type RWMutex struct{ Mutex }

func (m *RWMutex) RLock()   { m.Lock() }
func (m *RWMutex) RUnlock() { m.Unlock() }

// site returns the chain of go-smtp functions on the stack, outermost first
// ("Server.Close>Conn.Close"), so that the same lock reached on different
// paths gets different names.
func site() string {
	pcs := make([]uintptr, 16)
	n := runtime.Callers(3, pcs)
	frames := runtime.CallersFrames(pcs[:n])
	var chain []string
	for {
		f, more := frames.Next()
		if strings.Contains(f.Function, "go-smtp.") && !strings.Contains(f.Function, "/vsync.") {
			name := f.Function[strings.LastIndex(f.Function, "go-smtp.")+len("go-smtp."):]
			name = strings.NewReplacer("(*", "", ")", "").Replace(name)
			chain = append([]string{name}, chain...)
		}
		if !more {
			break
		}
	}
	if len(chain) == 0 {
		return "?"
	}
	if len(chain) > 3 {
		chain = chain[len(chain)-3:]
	}
	return strings.Join(chain, ">")
}
