// Package run is the entry point of the verification binary. It is a test
// binary because testing/synctest bubbles need a *testing.T; it is built with
// go1.26.8 (`go test -c -tags verif`) and driven through environment
// variables by /verif/check.
package run

import (
	"fmt"
	"os"
	"runtime/debug"
	"strings"
	"testing"

	"verif/checks"
	"verif/h"
)

var exitCode = 2

func TestMain(m *testing.M) {
	if os.Getenv("GOGC") == "" {
		debug.SetGCPercent(800) // short-lived garbage dominates
	}
	rc := m.Run()
	if rc != 0 {
		os.Exit(2)
	}
	os.Exit(exitCode)
}

func TestCheck(t *testing.T) {
	h.T = t
	prop, tier := os.Getenv("VERIF_PROP"), os.Getenv("VERIF_TIER_RUN")
	if rp := os.Getenv("VERIF_REPLAY"); rp != "" {
		exitCode = h.ReplayFile(rp)
		return
	}
	if mp := os.Getenv("VERIF_MERGE"); mp != "" {
		if err := h.MergeParts(prop, strings.Split(mp, ",")); err != nil {
			fmt.Fprintln(os.Stderr, "merge:", err)
			exitCode = 2
			return
		}
		exitCode = 0
		return
	}
	f := checks.All[prop]
	if f == nil {
		fmt.Fprintf(os.Stderr, "no check for %q\n", prop)
		return
	}
	exitCode = f(tier)
}
