package ref

import (
	"fmt"
	"strconv"
	"strings"
	"time"
	"unicode/utf8"
)

// Independent classification of the text that follows "MAIL FROM:" or
// "RCPT TO:" (RFC 5321 section 4.1.2, RFC 1870, 6152, 6531, 8689, 3030, 3461,
// 6533, 4954, 7293). Three classes:
//   Valid       - well-formed; the expected mailbox and option values are given
//   Invalid     - definitely malformed / unknown or disabled parameter: must be refused, backend not called
//   Unspecified - the RFCs are ambiguous or the implementation is knowingly lenient; not judged

type Class int

const (
	Unspecified Class = iota
	Valid
	Invalid
)

func (c Class) String() string { return [...]string{"unspecified", "valid", "invalid"}[c] }

// Ext says which extensions the server has enabled.
type Ext struct {
	UTF8, RequireTLS, BinaryMIME, DSN, RRVS bool
}

// MailExp is what the backend must receive for a valid MAIL line.
type MailExp struct {
	Mailbox    []string // acceptable spellings (a quoted local part may arrive quoted or de-quoted)
	Body       string
	Size       int64
	RequireTLS bool
	UTF8       bool
	Return     string
	EnvelopeID string
	Auth       *string
	Why        string
}

func (m MailExp) Opts() string {
	auth := "nil"
	if m.Auth != nil {
		auth = fmt.Sprintf("%q", *m.Auth)
	}
	return fmt.Sprintf("Body=%q Size=%d RequireTLS=%t UTF8=%t Return=%q EnvelopeID=%q Auth=%s",
		m.Body, m.Size, m.RequireTLS, m.UTF8, m.Return, m.EnvelopeID, auth)
}

// RcptExp is what the backend must receive for a valid RCPT line.
type RcptExp struct {
	Mailbox   []string
	Notify    []string
	ORcptType string
	ORcpt     string
	RRVS      time.Time
	Why       string
}

func (r RcptExp) Opts() string {
	n := "nil"
	if r.Notify != nil {
		n = fmt.Sprintf("%q", r.Notify)
	}
	t := "zero"
	if !r.RRVS.IsZero() {
		t = r.RRVS.UTC().Format("2006-01-02T15:04:05.999999999Z")
	}
	return fmt.Sprintf("Notify=%s ORcptType=%q ORcpt=%q RRVS=%s", n, r.ORcptType, r.ORcpt, t)
}

func isAtext(c byte) bool {
	switch {
	case c >= 'a' && c <= 'z', c >= 'A' && c <= 'Z', c >= '0' && c <= '9':
		return true
	}
	return strings.IndexByte("!#$%&'*+-/=?^_`{|}~", c) >= 0
}

func isSpecial(c byte) bool { return strings.IndexByte("()<>[]:;@\\,\" \t", c) >= 0 }

type pathResult struct {
	class    Class
	mailbox  []string
	rest     string // what follows the path
	why      string
	null     bool
	nonASCII bool
}

// parsePathText parses "<[@a,@b:]local@domain>" leniently enough to say
// which class the path falls in. s has been trimmed of surrounding spaces.
func parsePathText(s string, reverse bool) pathResult {
	if reverse && strings.HasPrefix(s, "<>") {
		return pathResult{class: Valid, mailbox: []string{""}, rest: s[2:], null: true}
	}
	class := Valid
	why := ""
	weaken := func(w string) {
		if class == Valid {
			class = Unspecified
			why = w
		}
	}
	i := 0
	bracket := false
	if strings.HasPrefix(s, "<") {
		bracket = true
		i = 1
	} else {
		weaken("no angle brackets")
	}
	// source route
	if i < len(s) && s[i] == '@' {
		j := strings.IndexByte(s[i:], ':')
		if j < 0 {
			return pathResult{class: Invalid, why: "source route without ':'"}
		}
		route := s[i : i+j]
		for _, ad := range strings.Split(route, ",") {
			if len(ad) < 2 || ad[0] != '@' || strings.ContainsAny(ad[1:], "@<> \t\"\\") {
				weaken("odd source route")
			}
		}
		i += j + 1
	}
	// local part
	var local, localRaw string
	if i < len(s) && s[i] == '"' {
		j := i + 1
		var sb strings.Builder
		closed := false
		for j < len(s) {
			c := s[j]
			if c == '\\' {
				if j+1 >= len(s) {
					break
				}
				sb.WriteByte(s[j+1])
				j += 2
				continue
			}
			if c == '"' {
				closed = true
				j++
				break
			}
			if c < 32 || c == 127 {
				weaken("control character in quoted string")
			}
			sb.WriteByte(c)
			j++
		}
		if !closed {
			return pathResult{class: Invalid, why: "unterminated quoted string"}
		}
		local = sb.String()
		localRaw = s[i:j]
		i = j
		if local == "" {
			// RFC 5321 allows "" syntactically (Quoted-string = DQUOTE *QcontentSMTP DQUOTE); mailbox with empty local part
			return pathResult{class: Invalid, why: "empty local part"}
		}
	} else {
		j := i
		for j < len(s) && s[j] != '@' {
			c := s[j]
			if isSpecial(c) {
				return pathResult{class: Invalid, why: fmt.Sprintf("unquoted %q in the local part", c)}
			}
			if c < 32 || c == 127 {
				weaken("control character in local part")
			}
			j++
		}
		local = s[i:j]
		localRaw = local
		i = j
		if local == "" {
			return pathResult{class: Invalid, why: "empty local part"}
		}
		if strings.HasPrefix(local, ".") || strings.HasSuffix(local, ".") || strings.Contains(local, "..") {
			weaken("dot-string with empty atom")
		}
	}
	if i >= len(s) || s[i] != '@' {
		return pathResult{class: Invalid, why: "no '@' after the local part"}
	}
	i++
	// domain: up to '>' (bracketed) or space
	j := i
	for j < len(s) && s[j] != '>' && s[j] != ' ' && s[j] != '\t' {
		j++
	}
	domain := s[i:j]
	if domain == "" {
		return pathResult{class: Invalid, why: "empty domain"}
	}
	if !strictDomain(domain) {
		weaken("domain is not a strict RFC 5321 domain or address literal")
	}
	i = j
	if bracket {
		if i >= len(s) || s[i] != '>' {
			return pathResult{class: Invalid, why: "'<' without matching '>'"}
		}
		i++
	} else if i < len(s) && s[i] == '>' {
		return pathResult{class: Invalid, why: "'>' without '<'"}
	}
	res := pathResult{class: class, why: why, rest: s[i:]}
	res.mailbox = []string{local + "@" + domain}
	if localRaw != local {
		res.mailbox = append(res.mailbox, localRaw+"@"+domain)
	}
	for k := 0; k < len(s[:i]); k++ {
		if s[k] >= 0x80 {
			res.nonASCII = true
		}
	}
	if res.nonASCII && !utf8.ValidString(s[:i]) {
		res.class, res.why = Unspecified, "invalid UTF-8"
	}
	return res
}

func strictDomain(d string) bool {
	if strings.HasPrefix(d, "[") {
		return strings.HasSuffix(d, "]") && len(d) > 2 && !strings.ContainsAny(d[1:len(d)-1], "[]\\ \t")
	}
	for _, lab := range strings.Split(d, ".") {
		if lab == "" || lab[0] == '-' || lab[len(lab)-1] == '-' {
			return false
		}
		for i := 0; i < len(lab); i++ {
			c := lab[i]
			if !(c >= 'a' && c <= 'z' || c >= 'A' && c <= 'Z' || c >= '0' && c <= '9' || c == '-' || c >= 0x80) {
				return false
			}
		}
	}
	return true
}

type param struct {
	key, val string
	hasVal   bool
}

// splitParams splits " K=V K2" strictly; class is weakened for sloppy spacing.
func splitParams(rest string) (ps []param, class Class, why string) {
	class = Valid
	if rest == "" {
		return nil, Valid, ""
	}
	if rest[0] != ' ' {
		// "<a@b>X": no space between path and parameters
		class, why = Unspecified, "no space between path and parameters"
	}
	fields := strings.Fields(rest)
	if strings.Join(fields, " ") != strings.TrimPrefix(rest, " ") && class == Valid {
		class, why = Unspecified, "irregular spacing between parameters"
	}
	if strings.ContainsAny(rest, "\t") && class == Valid {
		class, why = Unspecified, "tab"
	}
	seen := map[string]bool{}
	for _, f := range fields {
		parts := strings.Split(f, "=")
		if len(parts) > 2 {
			return nil, Invalid, "'=' inside an esmtp-value"
		}
		p := param{key: strings.ToUpper(parts[0])}
		if len(parts) == 2 {
			p.val, p.hasVal = parts[1], true
		}
		if p.key == "" {
			return nil, Invalid, "empty esmtp-keyword"
		}
		for i := 0; i < len(p.key); i++ {
			c := p.key[i]
			if !(c >= 'A' && c <= 'Z' || c >= '0' && c <= '9' || (c == '-' && i > 0)) {
				return nil, Invalid, "bad character in esmtp-keyword"
			}
		}
		if seen[p.key] && class == Valid {
			class, why = Unspecified, "duplicate keyword"
		}
		seen[p.key] = true
		ps = append(ps, p)
	}
	return ps, class, why
}

// decodeXtextRef: RFC 3461 section 4. ok=false: malformed; strict=false:
// decodable only with leniency (lower-case hex).
func decodeXtextRef(v string) (out string, ok, strict bool) {
	strict = true
	var sb strings.Builder
	for i := 0; i < len(v); i++ {
		c := v[i]
		switch {
		case c == '+':
			if i+2 >= len(v) {
				return "", false, false
			}
			h := v[i+1 : i+3]
			n, err := strconv.ParseUint(h, 16, 8)
			if err != nil || strings.ContainsAny(h, "+-") {
				return "", false, false
			}
			if strings.ToUpper(h) != h {
				strict = false
			}
			sb.WriteByte(byte(n))
			i += 2
		case c == '=' || c < 33 || c > 126:
			return "", false, false
		default:
			sb.WriteByte(c)
		}
	}
	return sb.String(), true, strict
}

func printableASCII(s string) bool {
	for i := 0; i < len(s); i++ {
		if s[i] < 32 || s[i] > 126 {
			return false
		}
	}
	return true
}

// ClassifyMail classifies the text after "MAIL FROM:".
func ClassifyMail(arg string, ext Ext) (Class, MailExp) {
	s := strings.TrimSpace(arg)
	if strings.HasPrefix(arg, " ") || strings.HasPrefix(arg, "\t") {
		// "FROM: <a@b>": the implementation is lenient about the space
		pr := parsePathText(s, true)
		if pr.class == Invalid {
			return Invalid, MailExp{Why: pr.why}
		}
		return Unspecified, MailExp{Why: "space after the colon"}
	}
	pr := parsePathText(s, true)
	if pr.class == Invalid {
		return Invalid, MailExp{Why: pr.why}
	}
	ps, pclass, pwhy := splitParams(pr.rest)
	if pclass == Invalid {
		return Invalid, MailExp{Why: pwhy}
	}
	class, why := pr.class, pr.why
	if class == Valid && pclass != Valid {
		class, why = pclass, pwhy
	}
	exp := MailExp{Mailbox: pr.mailbox}
	weaken := func(w string) {
		if class == Valid {
			class, why = Unspecified, w
		}
	}
	sawUTF8 := false
	for _, p := range ps {
		switch p.key {
		case "SIZE":
			if !p.hasVal || p.val == "" {
				return Invalid, MailExp{Why: "SIZE without value"}
			}
			for i := 0; i < len(p.val); i++ {
				if p.val[i] < '0' || p.val[i] > '9' {
					return Invalid, MailExp{Why: "SIZE is not a number"}
				}
			}
			n, err := strconv.ParseUint(p.val, 10, 64)
			if err != nil || n >= 1<<32 || len(p.val) > 20 {
				weaken("SIZE >= 2^32")
			}
			exp.Size = int64(n)
		case "BODY":
			switch strings.ToUpper(p.val) {
			case "7BIT", "8BITMIME":
			case "BINARYMIME":
				if !ext.BinaryMIME {
					return Invalid, MailExp{Why: "BINARYMIME is disabled"}
				}
			default:
				return Invalid, MailExp{Why: "unknown BODY value"}
			}
			exp.Body = strings.ToUpper(p.val)
		case "SMTPUTF8":
			if !ext.UTF8 {
				return Invalid, MailExp{Why: "SMTPUTF8 is disabled"}
			}
			if p.hasVal {
				weaken("value on SMTPUTF8")
			}
			exp.UTF8 = true
			sawUTF8 = true
		case "REQUIRETLS":
			if !ext.RequireTLS {
				return Invalid, MailExp{Why: "REQUIRETLS is disabled"}
			}
			if p.hasVal {
				weaken("value on REQUIRETLS")
			}
			exp.RequireTLS = true
		case "RET":
			if !ext.DSN {
				return Invalid, MailExp{Why: "DSN is disabled"}
			}
			switch strings.ToUpper(p.val) {
			case "FULL", "HDRS":
			default:
				return Invalid, MailExp{Why: "unknown RET value"}
			}
			exp.Return = strings.ToUpper(p.val)
		case "ENVID":
			if !ext.DSN {
				return Invalid, MailExp{Why: "DSN is disabled"}
			}
			v, ok, strict := decodeXtextRef(p.val)
			if !ok || v == "" || !printableASCII(v) {
				return Invalid, MailExp{Why: "malformed ENVID"}
			}
			if !strict {
				// RFC 3461 section 4: hexchar = "+" followed by two UPPER CASE hexadecimal digits
				return Invalid, MailExp{Why: "lower-case hexchar in ENVID"}
			}
			if len(p.val) > 100 {
				weaken("ENVID longer than 100")
			}
			exp.EnvelopeID = v
		case "AUTH":
			if !p.hasVal || p.val == "" {
				return Invalid, MailExp{Why: "AUTH without value"}
			}
			v, ok, strict := decodeXtextRef(p.val)
			if !ok {
				return Invalid, MailExp{Why: "malformed AUTH xtext"}
			}
			if !strict {
				return Invalid, MailExp{Why: "lower-case hexchar in AUTH"}
			}
			if v == "<>" {
				e := ""
				exp.Auth = &e
				break
			}
			mb := parsePathText(v, false)
			if !strings.Contains(v, "@") {
				return Invalid, MailExp{Why: "AUTH value is not a mailbox"}
			}
			if !strings.HasPrefix(v, "<") && mb.class == Valid && mb.rest != "" && strings.ContainsRune(">,;<()\\\" ", rune(mb.rest[0])) {
				// a complete mailbox followed by a character that no mailbox can continue with
				return Invalid, MailExp{Why: "AUTH value is a mailbox followed by something else"}
			}
			if !strings.HasPrefix(v, "<") && !strings.Contains(v, "\"") && strings.HasSuffix(v, ">") {
				// a closing angle bracket that nothing opened: no domain and no address literal ends in '>'. (Other
				// odd characters in the domain are left unjudged, as they are for the path itself.)
				return Invalid, MailExp{Why: "AUTH value ends in an unmatched '>'"}
			}
			if strings.HasPrefix(v, "<") || mb.class != Valid || mb.rest != "" {
				weaken("AUTH mailbox in unusual form")
			}
			vv := v
			if mb.class == Valid && len(mb.mailbox) > 0 {
				vv = mb.mailbox[0]
			}
			exp.Auth = &vv
		default:
			return Invalid, MailExp{Why: "unknown MAIL parameter " + p.key}
		}
	}
	if pr.nonASCII && !sawUTF8 {
		weaken("non-ASCII address without SMTPUTF8")
	}
	exp.Why = why
	return class, exp
}

func hasLowerHex(v string) bool {
	for i := 0; i+2 < len(v); i++ {
		if v[i] == '+' {
			h := v[i+1 : i+3]
			if _, err := strconv.ParseUint(h, 16, 8); err == nil && strings.ToUpper(h) != h {
				return true
			}
		}
	}
	return false
}

// ClassifyRcpt classifies the text after "RCPT TO:".
func ClassifyRcpt(arg string, ext Ext) (Class, RcptExp) {
	s := strings.TrimSpace(arg)
	if strings.HasPrefix(arg, " ") || strings.HasPrefix(arg, "\t") {
		pr := parsePathText(s, false)
		if pr.class == Invalid {
			return Invalid, RcptExp{Why: pr.why}
		}
		return Unspecified, RcptExp{Why: "space after the colon"}
	}
	pr := parsePathText(s, false)
	if pr.class == Invalid {
		return Invalid, RcptExp{Why: pr.why}
	}
	ps, pclass, pwhy := splitParams(pr.rest)
	if pclass == Invalid {
		return Invalid, RcptExp{Why: pwhy}
	}
	class, why := pr.class, pr.why
	if class == Valid && pclass != Valid {
		class, why = pclass, pwhy
	}
	weaken := func(w string) {
		if class == Valid {
			class, why = Unspecified, w
		}
	}
	exp := RcptExp{Mailbox: pr.mailbox}
	for _, p := range ps {
		switch p.key {
		case "NOTIFY":
			if !ext.DSN {
				return Invalid, RcptExp{Why: "DSN is disabled"}
			}
			seen := map[string]bool{}
			var list []string
			for _, v := range strings.Split(p.val, ",") {
				u := strings.ToUpper(v)
				switch u {
				case "NEVER", "SUCCESS", "FAILURE", "DELAY":
				default:
					return Invalid, RcptExp{Why: "unknown NOTIFY value"}
				}
				if seen[u] {
					return Invalid, RcptExp{Why: "duplicate NOTIFY value"}
				}
				seen[u] = true
				list = append(list, u)
			}
			if seen["NEVER"] && len(list) > 1 {
				return Invalid, RcptExp{Why: "NEVER combined with other NOTIFY values"}
			}
			exp.Notify = list
		case "ORCPT":
			if !ext.DSN {
				return Invalid, RcptExp{Why: "DSN is disabled"}
			}
			tv := strings.SplitN(p.val, ";", 2)
			if len(tv) != 2 || tv[0] == "" || tv[1] == "" {
				return Invalid, RcptExp{Why: "ORCPT without type;address"}
			}
			switch strings.ToUpper(tv[0]) {
			case "RFC822":
				v, ok, strict := decodeXtextRef(tv[1])
				if !ok || !printableASCII(v) || v == "" {
					return Invalid, RcptExp{Why: "malformed ORCPT xtext"}
				}
				if !strict {
					return Invalid, RcptExp{Why: "lower-case hexchar in ORCPT"}
				}
				exp.ORcptType, exp.ORcpt = "RFC822", v
			case "UTF-8":
				v, ok := DecodeUTF8AddrRef(tv[1])
				if !ok || v == "" {
					if utf8AddrClearlyInvalid(tv[1]) {
						return Invalid, RcptExp{Why: "utf-8 address that RFC 6533 section 3 excludes: a bare '+', '=' or backslash, or an embedded code point that is no minimal HEXPOINT of a Unicode scalar value"}
					}
					weaken("utf-8 address form not decodable by the reference")
					break
				}
				exp.ORcptType, exp.ORcpt = "UTF-8", v
			default:
				weaken("unknown ORCPT address type")
			}
		case "RRVS":
			if !ext.RRVS {
				return Invalid, RcptExp{Why: "RRVS is disabled"}
			}
			v := p.val
			if i := strings.IndexByte(v, ';'); i >= 0 {
				act := v[i+1:]
				if act != "C" && act != "R" {
					weaken("unusual RRVS action")
				}
				v = v[:i]
			}
			t, err := time.Parse(time.RFC3339, v)
			if err != nil {
				if len(v) >= 20 && (v[10] == 't' || v[10] == ' ') {
					weaken("odd date-time separators")
					break
				}
				return Invalid, RcptExp{Why: "malformed RRVS date-time"}
			}
			exp.RRVS = t
		default:
			return Invalid, RcptExp{Why: "unknown RCPT parameter " + p.key}
		}
	}
	if pr.nonASCII {
		weaken("non-ASCII address (SMTPUTF8 is a MAIL parameter)")
	}
	exp.Why = why
	return class, exp
}

// utf8AddrClearlyInvalid: v contains an embedded "\x{HEX}" (upper-case hex digits) whose value no HEXPOINT form of
// RFC 6533 section 3 can denote: zero, a surrogate, beyond U+10FFFF, a single digit, leading zeros in front of more
// than two digits (the 3..6-digit forms begin with a non-zero digit), or a two-digit form of a printable character
// that stands for itself. (Lower-case hex digits are judged elsewhere; 0A-0F and 1A-1F are left unjudged.)
func utf8AddrClearlyInvalid(v string) bool {
	// '+' and '=' never stand for themselves (QCHAR excludes them), a backslash only begins "\x{"
	for i := 0; i < len(v); i++ {
		if v[i] == '+' || v[i] == '=' || (v[i] == '\\' && !strings.HasPrefix(v[i:], `\x{`)) {
			return true
		}
	}
	for i := 0; i+3 < len(v); i++ {
		if !strings.HasPrefix(v[i:], `\x{`) {
			continue
		}
		j := strings.IndexByte(v[i:], '}')
		if j < 4 {
			continue
		}
		hex := v[i+3 : i+j]
		if strings.Trim(hex, "0123456789ABCDEF") != "" {
			continue
		}
		sig := strings.TrimLeft(hex, "0")
		if sig == "" {
			return true // zero
		}
		if len(hex) == 1 || (len(hex) > 2 && hex[0] == '0') {
			return true // HEXPOINT forms are minimal: at least two digits, no leading zero beyond that (NZHEXDIG)
		}
		if len(hex) == 2 {
			if n, _ := strconv.ParseUint(hex, 16, 32); n >= 0x21 && n <= 0x7e && n != 0x5c && n != 0x2b && n != 0x3d {
				return true // a printable character that stands for itself has no HEXPOINT form
			}
		}
		if len(sig) > 6 {
			return true
		}
		n, _ := strconv.ParseUint(sig, 16, 32)
		if n > 0x10FFFF || (n >= 0xD800 && n <= 0xDFFF) {
			return true
		}
	}
	return false
}

// DecodeUTF8AddrRef decodes utf-8-addr-xtext / utf-8-addr-unitext (RFC 6533
// section 3): printable ASCII except '\\', '+', '=' stands for itself,
// "\x{HEX}" is an embedded code point, non-ASCII UTF-8 stands for itself
// (unitext). ok=false if anything else occurs.
func DecodeUTF8AddrRef(v string) (string, bool) {
	var sb strings.Builder
	for i := 0; i < len(v); {
		c := v[i]
		switch {
		case c == '\\':
			if !strings.HasPrefix(v[i:], `\x{`) {
				return "", false
			}
			j := strings.IndexByte(v[i:], '}')
			if j < 0 {
				return "", false
			}
			hex := v[i+3 : i+j]
			if len(hex) < 2 || len(hex) > 6 || strings.ToUpper(hex) != hex {
				return "", false
			}
			n, err := strconv.ParseUint(hex, 16, 32)
			if err != nil || n > 0x10FFFF || (n >= 0xD800 && n <= 0xDFFF) || n == 0 {
				return "", false
			}
			if hex[0] == '0' && len(hex) > 2 {
				return "", false // leading zeros: HEXPOINT forms are minimal
			}
			if len(hex) == 2 {
				// only characters that cannot stand for themselves
				printable := n >= 0x21 && n <= 0x7e && n != '\\' && n != '+' && n != '='
				if printable {
					return "", false
				}
			}
			sb.WriteRune(rune(n))
			i += j + 1
		case c >= 0x80:
			r, sz := utf8.DecodeRuneInString(v[i:])
			if r == utf8.RuneError && sz <= 1 {
				return "", false
			}
			sb.WriteRune(r)
			i += sz
		case c <= 32 || c == 127 || c == '+' || c == '=':
			return "", false
		default:
			sb.WriteByte(c)
			i++
		}
	}
	return sb.String(), true
}
