package ref

import "bytes"

// Unstuff is RFC 5321 section 4.5.2 on CRLF-delimited lines: stream is what
// the client sends after the 354 reply. The message ends at the first line
// consisting of a single '.', i.e. at the first <CRLF>.<CRLF> or at a
// leading .<CRLF>. body is the message as the backend must see it (one
// leading '.' removed from every line that has one; the CRLF in front of the
// end marker belongs to the message); rest is what follows the end marker.
// complete is false if the stream contains no end marker; body then holds
// what can be said so far (a trailing partial marker is withheld).
func Unstuff(stream []byte) (body, rest []byte, complete bool) {
	i := 0
	for i < len(stream) {
		// i is at the start of a line
		if bytes.HasPrefix(stream[i:], []byte(".\r\n")) {
			return body, stream[i+3:], true
		}
		if stream[i] == '.' {
			// possibly a partial end marker at the very end of the stream
			if len(stream)-i <= 2 && bytes.HasPrefix([]byte(".\r\n"), stream[i:]) {
				return body, nil, false
			}
			i++ // dot-stuffing: drop one leading dot
		}
		j := bytes.Index(stream[i:], []byte("\r\n"))
		if j < 0 {
			body = append(body, stream[i:]...)
			return body, nil, false
		}
		body = append(body, stream[i:i+j+2]...)
		i += j + 2
	}
	return body, nil, false
}

// DotStuffNormalize is what a client-side dot writer is documented to do to
// a message before it is sent: bare LF becomes CRLF, a final CRLF is ensured
// (so an empty message becomes a single CRLF). The result is what a faithful server hands
// to its backend (dot-stuffing is undone on the way). CR is assumed to occur
// only as part of CRLF.
func DotStuffNormalize(msg []byte) []byte {
	var out []byte
	for i := 0; i < len(msg); i++ {
		c := msg[i]
		if c == '\n' && (i == 0 || msg[i-1] != '\r') {
			out = append(out, '\r', '\n')
			continue
		}
		out = append(out, c)
	}
	if !bytes.HasSuffix(out, []byte("\r\n")) {
		out = append(out, '\r', '\n')
	}
	return out
}
