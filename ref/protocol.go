package ref

import (
	"fmt"
	"strings"
)

// PConfig is the part of the server configuration the protocol model knows.
type PConfig struct {
	LMTP              bool  `json:"lmtp,omitempty"`
	MaxRcpt           int   `json:"max_rcpt,omitempty"`
	MaxBytes          int64 `json:"max_bytes,omitempty"`
	TLSAvail          bool  `json:"tls_avail,omitempty"`
	ImplicitTLS       bool  `json:"implicit_tls,omitempty"`
	AllowInsecureAuth bool  `json:"insecure_auth,omitempty"`
	AuthBackend       bool  `json:"auth_backend,omitempty"`
	LMTPBackend       bool  `json:"lmtp_backend,omitempty"` // sessions implement LMTPSession
	// LineMax: the server's MaxLineLength (0: default). The model does not look at it: every line of the alphabets is
	// shorter, so a small value only makes the real server's line accounting part of what is explored.
	LineMax int `json:"line_max,omitempty"`
}

// PState is the reference protocol state (Appendix A of DESIGN.md).
type PState struct {
	TLS        bool
	Sess       bool   // a backend session exists
	Helo       string // greeting name of the session
	Authed     bool
	Mail       bool
	From       string
	Rcpts      []string
	Chunking   bool
	ChunkBytes int64
	MsgSoFar   []byte // octets of the chunked message so far
	Failed     bool   // the chunked delivery has already failed on the backend side (early)
	Bin        string // "no" | "yes" | "any": BODY=BINARYMIME declared by the MAIL of this transaction
	Errs       int
	Closed     bool
}

func (s PState) Key() string {
	return fmt.Sprintf("tls=%t sess=%t authed=%t mail=%t from=%s rcpts=%v chunk=%t/%d/%q failed=%t bin=%s errs=%d closed=%t",
		s.TLS, s.Sess, s.Authed, s.Mail, s.From, s.Rcpts, s.Chunking, s.ChunkBytes, firstLine(s.MsgSoFar), s.Failed, s.Bin, s.Errs, s.Closed)
}

func firstLine(b []byte) string {
	if i := strings.IndexByte(string(b), '\n'); i >= 0 {
		return string(b[:i+1])
	}
	return string(b)
}

// Cmd is an abstract command: what the model needs to know plus the wire form.
type Cmd struct {
	Name    string      `json:"name"`
	Op      string      `json:"op"`             // HELLO MAIL RCPT DATA BDAT RSET NOOP VRFY HELP BAD AUTH STARTTLS QUIT
	Verb    string      `json:"verb,omitempty"` // HELLO: EHLO|HELO|LHLO
	Arg     string      `json:"arg,omitempty"`  // hello name, address, SASL mechanism
	Bad     string      `json:"bad,omitempty"`  // syntax | sizeover | unknownparam | noarg | arg | badsize | badlast | toomany | overlimit
	Binmime bool        `json:"binmime,omitempty"`
	Body    []byte      `json:"body,omitempty"` // DATA: message as the backend must see it
	Size    int         `json:"size,omitempty"`
	Last    bool        `json:"last,omitempty"`
	Payload []byte      `json:"payload,omitempty"`
	AuthS   *AuthScript `json:"auth_script,omitempty"` // AUTH: the exchange (nil: AUTH without argument)
	// Steps is the wire form. Step k>0 is sent only if the last reply to
	// step k-1 was 3xx (DATA's message after 354, AUTH responses after 334).
	Steps [][]byte `json:"steps"`
}

// RExp is one expected reply: any of Codes, or any code of Class.
type RExp struct {
	Codes []int
	Class []int
}

func (r RExp) Match(code int) bool {
	for _, c := range r.Codes {
		if c == code {
			return true
		}
	}
	for _, c := range r.Class {
		if code/100 == c {
			return true
		}
	}
	return false
}
func (r RExp) String() string {
	var p []string
	for _, c := range r.Codes {
		p = append(p, fmt.Sprint(c))
	}
	for _, c := range r.Class {
		p = append(p, fmt.Sprintf("%dxx", c))
	}
	return strings.Join(p, "/")
}

func code(c ...int) RExp  { return RExp{Codes: c} }
func class(c ...int) RExp { return RExp{Class: c} }

// Call is an expected backend callback.
type Call struct {
	Kind     string
	Arg      string // address / mechanism / Next argument; "" = not compared
	Optional bool
	// for Data/LMTPData
	Body     []byte
	From     string
	Rcpts    []string
	CheckMsg bool
	// for NewSession
	Helo string
	TLS  bool
}

func (c Call) String() string {
	s := c.Kind
	if c.Arg != "" {
		s += "(" + c.Arg + ")"
	}
	if c.Optional {
		s += "?"
	}
	return s
}

// Alt is one acceptable behaviour for a step.
type Alt struct {
	Replies []RExp
	Calls   []Call
	Next    PState
	// Positive/negative final reply of a message transfer, for C04
	// ("positive exactly when the backend accepted that very message").
	MsgVerdict string // "" | accept | reject
	MsgText    string // text the negative reply must carry
	// for a 334 reply: the challenge octets it must carry
	Challenge    []byte
	HasChallenge bool
}

// StepExp lists the acceptable behaviours of one wire step.
type StepExp struct {
	Alts []Alt
}

// Addresses and messages carry the backend's decision in their spelling (the
// recording backend decides the same way).
func addrVerdict(a string) string {
	local := a
	if i := strings.LastIndexByte(a, '@'); i >= 0 {
		local = a[:i]
	}
	switch {
	case strings.HasPrefix(local, "rej"):
		return "rej"
	case strings.HasPrefix(local, "tmp"):
		return "tmp"
	case strings.HasPrefix(local, "panic"):
		return "panic"
	}
	return "ok"
}

// MsgVerdict reads the directive in the first line of a message.
func MsgVerdict(msg []byte) string {
	l := firstLine(msg)
	switch {
	case strings.HasPrefix(l, "reject"):
		return "reject"
	case strings.HasPrefix(l, "earlypanic"):
		return "earlypanic"
	case strings.HasPrefix(l, "early"):
		return "early"
	case strings.HasPrefix(l, "panic"):
		return "panic"
	}
	return "accept"
}

func (s PState) clone() PState {
	s.Rcpts = append([]string(nil), s.Rcpts...)
	s.MsgSoFar = append([]byte(nil), s.MsgSoFar...)
	return s
}

// endTx clears the envelope (transaction end).
func (s PState) endTx() PState {
	n := s.clone()
	n.Mail, n.From, n.Rcpts = false, "", nil
	n.Chunking, n.ChunkBytes, n.MsgSoFar, n.Failed = false, 0, nil, false
	n.Bin = "no"
	return n
}

func resetCall(s PState) []Call {
	if !s.Sess {
		return nil
	}
	return []Call{{Kind: "Reset", Optional: !s.Mail && !s.Chunking}}
}

func closeCalls(s PState) []Call {
	if !s.Sess {
		return nil
	}
	return []Call{{Kind: "Reset", Optional: true}, {Kind: "Logout"}}
}

func closed(s PState) PState {
	n := s.endTx()
	n.Sess, n.Helo, n.Authed, n.Closed = false, "", false, true
	return n
}

func refuse(s PState, r ...RExp) StepExp {
	if len(r) == 0 {
		r = []RExp{class(5)}
	}
	return StepExp{Alts: []Alt{{Replies: r, Next: s}}}
}

// finalReplies: the final replies of a message transfer.
func finalReplies(cfg PConfig, s PState, e RExp) []RExp {
	if !cfg.LMTP {
		return []RExp{e}
	}
	var out []RExp
	for range s.Rcpts {
		out = append(out, e)
	}
	return out
}

const (
	RejMsgCode   = 554
	RejAddrCode  = 550
	TmpAddrCode  = 451
	EarlyMsgCode = 554
)

// deliver: expectations for the end of a message transfer (DATA step 2, or
// the LAST chunk) of message msg.
func deliver(cfg PConfig, s PState, msg []byte, viaBdat bool) StepExp {
	kind := "Data"
	if cfg.LMTP && cfg.LMTPBackend {
		kind = "LMTPData"
	}
	// The Data call of a DATA command begins when the 354 is sent (step 0),
	// that of a chunked transfer with its first chunk.
	var calls []Call
	if viaBdat && !s.Chunking {
		calls = append(calls, Call{Kind: kind, From: s.From, Rcpts: s.Rcpts})
	}
	switch MsgVerdict(msg) {
	case "accept":
		calls = append(calls, Call{Kind: "Reset"})
		return StepExp{Alts: []Alt{{Replies: finalReplies(cfg, s, code(250)), Calls: calls, Next: s.endTx(), MsgVerdict: "accept"}}}
	case "reject", "early":
		calls = append(calls, Call{Kind: "Reset"})
		return StepExp{Alts: []Alt{{Replies: finalReplies(cfg, s, code(RejMsgCode)), Calls: calls, Next: s.endTx(), MsgVerdict: "reject", MsgText: strings.TrimRight(firstLine(msg), "\r\n")}}}
	case "panic", "earlypanic":
		calls = append(calls, Call{Kind: "Reset", Optional: true}, Call{Kind: "Logout"})
		alts := []Alt{{Replies: finalReplies(cfg, s, code(421)), Calls: calls, Next: closed(s)}}
		if cfg.LMTP && len(s.Rcpts) > 1 {
			// a single 421 followed by closing also means "nothing delivered"
			alts = append(alts, Alt{Replies: []RExp{code(421)}, Calls: calls, Next: closed(s)})
		}
		return StepExp{Alts: alts}
	}
	panic("deliver: unknown verdict")
}

// Step returns, for command c in state s, what is acceptable for each wire
// step. The caller picks the alternative that matches and continues from its
// Next state. Step k+1 of a command is only evaluated if step k was answered
// 3xx; exps[k] is computed from the state chosen after step k-1, so the
// function is called per step: Step(cfg, s, c, k).
func Step(cfg PConfig, s PState, c Cmd, k int) StepExp {
	if s.Closed {
		return StepExp{Alts: []Alt{{Next: s}}}
	}
	switch c.Op {
	case "HELLO":
		lmtp := c.Verb == "LHLO"
		if lmtp != cfg.LMTP {
			return refuse(s)
		}
		if c.Bad == "noarg" {
			return refuse(s)
		}
		if s.Sess {
			n := s.endTx()
			n.Helo = c.Arg
			return StepExp{Alts: []Alt{{Replies: []RExp{code(250)}, Calls: []Call{{Kind: "Reset"}}, Next: n}}}
		}
		ns := Call{Kind: "NewSession", Helo: c.Arg, TLS: s.TLS}
		if strings.HasPrefix(c.Arg, "fail") {
			return StepExp{Alts: []Alt{{Replies: []RExp{code(554)}, Calls: []Call{ns}, Next: s}}}
		}
		n := s.clone()
		n.Sess, n.Helo = true, c.Arg
		return StepExp{Alts: []Alt{{Replies: []RExp{code(250)}, Calls: []Call{ns}, Next: n}}}
	case "MAIL":
		if !s.Sess || s.Chunking {
			return refuse(s)
		}
		if c.Bad == "syntax" || c.Bad == "unknownparam" {
			return refuse(s)
		}
		if c.Bad == "sizeover" {
			if cfg.MaxBytes > 0 {
				return refuse(s, code(552))
			}
		}
		call := Call{Kind: "Mail", Arg: c.Arg}
		var alt Alt
		switch addrVerdict(c.Arg) {
		case "ok":
			n := s.clone()
			if !s.Mail {
				n.Mail, n.From = true, c.Arg
				n.Bin = map[bool]string{true: "yes", false: "no"}[c.Binmime]
			} else {
				n.From = c.Arg
				n.Bin = "any"
			}
			alt = Alt{Replies: []RExp{code(250)}, Calls: []Call{call}, Next: n}
		case "rej":
			alt = Alt{Replies: []RExp{code(RejAddrCode)}, Calls: []Call{call}, Next: s}
		case "tmp":
			alt = Alt{Replies: []RExp{code(TmpAddrCode)}, Calls: []Call{call}, Next: s}
		case "panic":
			alt = Alt{Replies: []RExp{code(421)}, Calls: append([]Call{call}, closeCalls(s)...), Next: closed(s)}
		}
		if s.Mail {
			// nested MAIL: refusing it is (more than) fine, processing it is tolerated
			if alt.Next.Mail {
				alt.Next.Bin = "any"
			}
			keep := s.clone()
			keep.Bin = "any"
			return StepExp{Alts: []Alt{alt, {Replies: []RExp{class(5)}, Next: keep}}}
		}
		return StepExp{Alts: []Alt{alt}}
	case "RCPT":
		if !s.Mail || s.Chunking {
			return refuse(s)
		}
		if c.Bad == "syntax" {
			return refuse(s)
		}
		if cfg.MaxRcpt > 0 && len(s.Rcpts) >= cfg.MaxRcpt {
			return refuse(s, class(4, 5))
		}
		call := Call{Kind: "Rcpt", Arg: c.Arg}
		switch addrVerdict(c.Arg) {
		case "ok":
			n := s.clone()
			n.Rcpts = append(n.Rcpts, c.Arg)
			return StepExp{Alts: []Alt{{Replies: []RExp{code(250)}, Calls: []Call{call}, Next: n}}}
		case "rej":
			return StepExp{Alts: []Alt{{Replies: []RExp{code(RejAddrCode)}, Calls: []Call{call}, Next: s}}}
		case "tmp":
			return StepExp{Alts: []Alt{{Replies: []RExp{code(TmpAddrCode)}, Calls: []Call{call}, Next: s}}}
		}
		return StepExp{Alts: []Alt{{Replies: []RExp{code(421)}, Calls: append([]Call{call}, closeCalls(s)...), Next: closed(s)}}}
	case "DATA":
		if k == 1 {
			return deliver(cfg, s, c.Body, false)
		}
		if c.Bad == "arg" || s.Chunking || !s.Mail || len(s.Rcpts) == 0 {
			return refuse(s)
		}
		kind := "Data"
		if cfg.LMTP && cfg.LMTPBackend {
			kind = "LMTPData"
		}
		ok := Alt{Replies: []RExp{code(354)}, Calls: []Call{{Kind: kind, From: s.From, Rcpts: s.Rcpts}}, Next: s}
		if s.Bin == "yes" {
			return StepExp{Alts: []Alt{{Replies: []RExp{class(5)}, Next: s}, ok}}
		}
		if s.Bin == "any" {
			return StepExp{Alts: []Alt{ok, {Replies: []RExp{class(5)}, Next: s}}}
		}
		return StepExp{Alts: []Alt{ok}}
	case "BDAT":
		if c.Bad == "badsize" || c.Bad == "toomany" || c.Bad == "noarg" {
			return refuse(s)
		}
		if !s.Mail || len(s.Rcpts) == 0 {
			return refuse(s)
		}
		if c.Bad == "badlast" {
			return refuse(s)
		}
		if cfg.MaxBytes > 0 && s.ChunkBytes+int64(c.Size) > cfg.MaxBytes {
			return StepExp{Alts: []Alt{{Replies: []RExp{code(552)}, Calls: resetCall(s), Next: s.endTx()}}}
		}
		kind := "Data"
		if cfg.LMTP && cfg.LMTPBackend {
			kind = "LMTPData"
		}
		var calls []Call
		if !s.Chunking {
			calls = append(calls, Call{Kind: kind, From: s.From, Rcpts: s.Rcpts})
		}
		msg := append(append([]byte(nil), s.MsgSoFar...), c.Payload...)
		if s.Failed {
			// the backend has already given up on this message: the chunk fails
			calls = append(calls, Call{Kind: "Reset"})
			replies := []RExp{code(EarlyMsgCode)}
			if c.Last {
				replies = finalReplies(cfg, s, code(EarlyMsgCode)) // LMTP: the LAST chunk is answered once per recipient
			}
			return StepExp{Alts: []Alt{{Replies: replies, Calls: calls, Next: s.endTx()}}}
		}
		if MsgVerdict(msg) == "earlypanic" && strings.Contains(string(msg), "\n") && len(msg) > len(firstLine(msg)) {
			// the backend panics while this chunk is being copied: the server gives up on the connection
			calls = append(calls, Call{Kind: "Reset", Optional: true}, Call{Kind: "Logout"})
			alts := []Alt{{Replies: []RExp{code(421)}, Calls: calls, Next: closed(s)}}
			if c.Last && cfg.LMTP {
				alts = append(alts, Alt{Replies: finalReplies(cfg, s, code(421)), Calls: calls, Next: closed(s)})
			}
			return StepExp{Alts: alts}
		}
		if MsgVerdict(msg) == "early" && strings.Contains(string(msg), "\n") {
			line := firstLine(msg)
			if len(msg) > len(line) {
				// the backend fails while this chunk is being copied
				calls = append(calls, Call{Kind: "Reset"})
				replies := []RExp{code(EarlyMsgCode)}
				if c.Last {
					replies = finalReplies(cfg, s, code(EarlyMsgCode))
				}
				return StepExp{Alts: []Alt{{Replies: replies, Calls: calls, Next: s.endTx(), MsgVerdict: "reject", MsgText: strings.TrimRight(line, "\r\n")}}}
			}
			// the directive line ends exactly with this chunk: the failure shows at the next chunk
			if !c.Last {
				n := s.clone()
				n.Chunking, n.ChunkBytes, n.MsgSoFar, n.Failed = true, s.ChunkBytes+int64(c.Size), msg, true
				return StepExp{Alts: []Alt{{Replies: []RExp{code(250)}, Calls: calls, Next: n}}}
			}
			calls = append(calls, Call{Kind: "Reset"})
			return StepExp{Alts: []Alt{{Replies: finalReplies(cfg, s, code(EarlyMsgCode)), Calls: calls, Next: s.endTx(), MsgVerdict: "reject"}}}
		}
		if !c.Last {
			n := s.clone()
			n.Chunking, n.ChunkBytes, n.MsgSoFar = true, s.ChunkBytes+int64(c.Size), msg
			return StepExp{Alts: []Alt{{Replies: []RExp{code(250)}, Calls: calls, Next: n}}}
		}
		return deliver(cfg, s, msg, true)
	case "RSET":
		return StepExp{Alts: []Alt{{Replies: []RExp{code(250)}, Calls: resetCall(s), Next: s.endTx()}}}
	case "NOOP":
		return StepExp{Alts: []Alt{{Replies: []RExp{code(250)}, Next: s}}}
	case "VRFY":
		return StepExp{Alts: []Alt{{Replies: []RExp{class(2, 5)}, Next: s}}}
	case "HELP":
		return StepExp{Alts: []Alt{{Replies: []RExp{class(2, 5)}, Next: s}}}
	case "BAD":
		n := s.clone()
		n.Errs++
		if n.Errs > 3 {
			return StepExp{Alts: []Alt{{Replies: []RExp{class(5), class(5)}, Calls: closeCalls(s), Next: closed(n)}}}
		}
		return StepExp{Alts: []Alt{{Replies: []RExp{class(5)}, Next: n}}}
	case "AUTH":
		return authStep(cfg, s, c, k)
	case "STARTTLS":
		if s.TLS || !cfg.TLSAvail {
			return refuse(s)
		}
		n := s.endTx()
		n.Sess, n.Helo, n.Authed, n.TLS = false, "", false, true
		var calls []Call
		if s.Sess {
			calls = []Call{{Kind: "Logout"}}
		}
		return StepExp{Alts: []Alt{{Replies: []RExp{code(220)}, Calls: calls, Next: n}}}
	case "STARTTLSFAIL":
		// step 0: STARTTLS; step 1 (only after 220): octets that are no handshake - an error reply, nothing changes
		if k == 0 {
			if s.TLS || !cfg.TLSAvail {
				return refuse(s)
			}
			return StepExp{Alts: []Alt{{Replies: []RExp{code(220)}, Next: s}}}
		}
		return StepExp{Alts: []Alt{{Replies: []RExp{class(5)}, Next: s}}}
	case "QUIT":
		var calls []Call
		if s.Sess {
			calls = closeCalls(s)
		}
		return StepExp{Alts: []Alt{{Replies: []RExp{code(221)}, Calls: calls, Next: closed(s)}}}
	}
	panic("unknown op " + c.Op)
}

// AuthPermitted: AUTH may be used in state s.
func AuthPermitted(cfg PConfig, s PState) bool { return s.TLS || cfg.AllowInsecureAuth }

// AuthResp is one line the client sends during an AUTH exchange.
type AuthResp struct {
	Wire    string `json:"wire"`              // the line (without CRLF); for the initial response the token after the mechanism
	Decoded []byte `json:"decoded,omitempty"` // what it decodes to (nil for an absent initial response)
	Absent  bool   `json:"absent,omitempty"`  // initial response only: not given
	Bad     bool   `json:"bad,omitempty"`     // not valid base64
	Cancel  bool   `json:"cancel,omitempty"`  // "*"
}

// AuthScript describes a whole AUTH exchange from the client's side against
// the harness' step mechanisms: N rounds (0: unknown mechanism), challenge
// number i is Chal(i), the last response must be "good".
type AuthScript struct {
	Mech  string     `json:"mech"` // as written on the wire
	N     int        `json:"n"`    // rounds of the mechanism; 0 = the backend does not know it
	Chal  string     `json:"chal"` // text | empty | binary
	IR    AuthResp   `json:"ir"`
	Resps []AuthResp `json:"resps"` // responses to the 334 challenges, in order
}

// Challenge returns challenge number i of the scripted mechanism.
func (a *AuthScript) Challenge(i int) []byte {
	switch a.Chal {
	case "empty":
		return []byte{}
	case "binary":
		return []byte{0, 0xff, 0xfe, '\r', '\n'}
	}
	return []byte(fmt.Sprintf("chal%d", i))
}

// feed simulates the step mechanism: i = responses counted so far.
// It returns the new i and what happens: "challenge" | "success" | "failure".
func (a *AuthScript) feed(i int, resp []byte, isNil bool) (int, string) {
	if isNil && i == 0 {
		return 0, "challenge"
	}
	i++
	if i < a.N {
		return i, "challenge"
	}
	if string(resp) == "good" {
		return i, "success"
	}
	return i, "failure"
}

func nextArg(b []byte, isNil bool) string {
	if isNil {
		return "nil"
	}
	return fmt.Sprintf("%q", b)
}

// AuthChallengeNo: which challenge does the server send in answer to step k
// (k=0: the AUTH line, k>=1: response k)? -1 if none.
func (a *AuthScript) walk(k int) (i int, asked int, outcome string, args []string) {
	// replays steps 0..k, returns the mechanism counter after step k and the outcome of step k
	i = 0
	asked = 0 // number of challenges sent so far
	for step := 0; step <= k; step++ {
		var r AuthResp
		if step == 0 {
			r = a.IR
		} else {
			if step-1 >= len(a.Resps) {
				return i, asked, "none", args
			}
			r = a.Resps[step-1]
		}
		if r.Cancel {
			return i, asked, "cancel", args
		}
		if r.Bad {
			return i, asked, "bad", args
		}
		var out string
		isNil := step == 0 && r.Absent
		i, out = a.feed(i, r.Decoded, isNil)
		if step == k {
			args = []string{nextArg(r.Decoded, isNil)}
		}
		if out != "challenge" {
			return i, asked, out, args
		}
		if step == k {
			return i, asked, "challenge", args
		}
		asked++
	}
	return i, asked, "none", args
}

func authStep(cfg PConfig, s PState, c Cmd, k int) StepExp {
	a := c.AuthS
	if k == 0 {
		if !s.Sess {
			return refuse(s)
		}
		if s.Authed {
			return refuse(s, code(503))
		}
		if a == nil {
			return refuse(s) // AUTH without argument
		}
		if !AuthPermitted(cfg, s) {
			return refuse(s) // 523 in the implementation; the statement fixes "not accepted"
		}
		if a.IR.Bad {
			return StepExp{Alts: []Alt{{Replies: []RExp{class(4, 5)}, Calls: []Call{{Kind: "Auth", Optional: true}}, Next: s}}}
		}
		if !cfg.AuthBackend {
			return refuse(s, class(4, 5))
		}
		if a.N == 0 {
			return StepExp{Alts: []Alt{{Replies: []RExp{class(4, 5)}, Calls: []Call{{Kind: "Auth", Arg: strings.ToUpper(a.Mech)}}, Next: s}}}
		}
	}
	ci, _, outcome, args := a.walk(k)
	var calls []Call
	if k == 0 {
		calls = append(calls, Call{Kind: "Auth", Arg: strings.ToUpper(a.Mech)})
	}
	for _, x := range args {
		calls = append(calls, Call{Kind: "Next", Arg: x})
	}
	switch outcome {
	case "cancel":
		return StepExp{Alts: []Alt{{Replies: []RExp{code(501)}, Calls: calls, Next: s}}}
	case "bad":
		return StepExp{Alts: []Alt{{Replies: []RExp{class(4, 5)}, Calls: calls, Next: s}}}
	case "challenge":
		return StepExp{Alts: []Alt{{Replies: []RExp{code(334)}, Calls: calls, Next: s, Challenge: a.Challenge(ci), HasChallenge: true}}}
	case "success":
		n := s.clone()
		n.Authed = true
		return StepExp{Alts: []Alt{{Replies: []RExp{code(235)}, Calls: calls, Next: n}}}
	case "failure":
		return StepExp{Alts: []Alt{{Replies: []RExp{class(4, 5)}, Calls: calls, Next: s}}}
	}
	// the script has no line for this step: nothing is sent, nothing expected
	return StepExp{Alts: []Alt{{Next: s}}}
}
