// Package ref holds the reference models and independent parsers the oracles
// compare the implementation against. Nothing here imports go-smtp.
package ref

import (
	"fmt"
	"strings"
)

// Reply is one parsed SMTP reply (RFC 5321 section 4.2, RFC 2034).
type Reply struct {
	Code  int      `json:"code"`
	Lines []string `json:"lines"` // text of each line, after "ddd-" / "ddd "
	// Enh is the enhanced status code shared by all lines ("" if the lines
	// do not all start with the same well-formed class.subject.detail).
	Enh string `json:"enh,omitempty"`
	// EnhLast is the enhanced code of the last line only (to diagnose
	// replies that carry it on the last line only).
	EnhLast string `json:"enh_last,omitempty"`
	// Text is Lines with the enhanced code removed (when Enh != "").
	Text   []string `json:"text"`
	Offset int      `json:"offset"` // offset of the reply in the wire stream
	End    int      `json:"end"`
}

func (r Reply) String() string {
	return fmt.Sprintf("%d %s %q", r.Code, r.Enh, strings.Join(r.Text, "\\n"))
}

// Class returns the first digit of the reply code.
func (r Reply) Class() int { return r.Code / 100 }

func isDigit(c byte) bool { return c >= '0' && c <= '9' }

// splitEnh splits "c.s.d rest" into the code and the rest; ok=false if the
// line does not start with a syntactically valid enhanced status code
// (RFC 2034: class "2"/"4"/"5", subject and detail 1*3digit, no leading zeros
// beyond a single 0) followed by a space or the end of the line.
func splitEnh(line string) (enh, rest string, ok bool) {
	i := 0
	num := func() bool {
		st := i
		for i < len(line) && isDigit(line[i]) {
			i++
		}
		return i > st && i-st <= 3
	}
	if !num() || i != 1 {
		return "", line, false
	}
	if line[0] != '2' && line[0] != '4' && line[0] != '5' {
		return "", line, false
	}
	if i >= len(line) || line[i] != '.' {
		return "", line, false
	}
	i++
	if !num() {
		return "", line, false
	}
	if i >= len(line) || line[i] != '.' {
		return "", line, false
	}
	i++
	if !num() {
		return "", line, false
	}
	if i == len(line) {
		return line, "", true
	}
	if line[i] != ' ' {
		return "", line, false
	}
	return line[:i], line[i+1:], true
}

// ParseReplies parses a complete wire stream into replies. It is strict:
// every line must end in CRLF, contain no other CR or LF, start with three
// digits (first 2..5) followed by '-' or ' ', and all lines of a reply must
// carry the same code. The error says what is wrong and where.
func ParseReplies(wire []byte) ([]Reply, error) { return parseReplies(wire, true) }

// ParseRepliesLenient is ParseReplies without the check for stray CRs inside
// a line (the server echoes parts of unrecognised commands; hostile input
// checks do not judge that text).
func ParseRepliesLenient(wire []byte) ([]Reply, error) { return parseReplies(wire, false) }

func parseReplies(wire []byte, strict bool) ([]Reply, error) {
	var out []Reply
	pos := 0
	var cur *Reply
	for pos < len(wire) {
		nl := -1
		for i := pos; i < len(wire); i++ {
			if wire[i] == '\n' {
				nl = i
				break
			}
		}
		if nl < 0 {
			return out, fmt.Errorf("offset %d: unterminated line %q", pos, wire[pos:])
		}
		if nl == pos || wire[nl-1] != '\r' {
			return out, fmt.Errorf("offset %d: line ends in bare LF: %q", pos, wire[pos:nl+1])
		}
		line := string(wire[pos : nl-1])
		if strict && strings.ContainsAny(line, "\r\n") {
			return out, fmt.Errorf("offset %d: stray CR inside line %q", pos, line)
		}
		if len(line) < 3 || !isDigit(line[0]) || !isDigit(line[1]) || !isDigit(line[2]) {
			return out, fmt.Errorf("offset %d: line does not start with a reply code: %q", pos, line)
		}
		if line[0] < '2' || line[0] > '5' {
			return out, fmt.Errorf("offset %d: reply code out of range: %q", pos, line)
		}
		code := int(line[0]-'0')*100 + int(line[1]-'0')*10 + int(line[2]-'0')
		sep := byte(' ')
		text := ""
		if len(line) > 3 {
			sep = line[3]
			text = line[4:]
		}
		if sep != ' ' && sep != '-' {
			return out, fmt.Errorf("offset %d: bad separator after code: %q", pos, line)
		}
		if cur == nil {
			cur = &Reply{Code: code, Offset: pos}
		} else if cur.Code != code {
			return out, fmt.Errorf("offset %d: code changes inside a multi-line reply: %d then %q", pos, cur.Code, line)
		}
		cur.Lines = append(cur.Lines, text)
		pos = nl + 1
		if sep == ' ' {
			cur.End = pos
			finishReply(cur)
			out = append(out, *cur)
			cur = nil
		}
	}
	if cur != nil {
		return out, fmt.Errorf("wire ends inside a multi-line reply (code %d)", cur.Code)
	}
	return out, nil
}

func finishReply(r *Reply) {
	all := true
	var enh string
	texts := make([]string, len(r.Lines))
	for i, l := range r.Lines {
		e, rest, ok := splitEnh(l)
		if !ok || (i > 0 && e != enh) {
			all = false
		}
		if i == 0 {
			enh = e
		}
		texts[i] = rest
		if i == len(r.Lines)-1 && ok {
			r.EnhLast = e
		}
	}
	if all {
		r.Enh = enh
		r.Text = texts
	} else {
		r.Text = append([]string(nil), r.Lines...)
	}
}
