package checks

import (
	"sync/atomic"
	"io"
	"errors"
	"fmt"
	"net"
	"strings"
	"time"

	smtp "github.com/emersion/go-smtp"
	"verif/h"
	"verif/ref"
)

// C17: backend errors reach the peer and the client with code, class and text intact.

type C17Case struct {
	Callback string `json:"callback"` // NewSession | Mail | Rcpt | Data
	Code     int    `json:"code"`
	Enh      string `json:"enh"` // set | notset | none | plain (a non-SMTPError)
	Msg      string `json:"msg"`
}

func evalC17(c C17Case) *h.Finding {
	var f *h.Finding
	desc := fmt.Sprintf("callback=%s code=%d enh=%s msg=%q", c.Callback, c.Code, c.Enh, c.Msg)
	var berr error
	class := c.Code / 100
	if strings.Contains(c.Msg, "{E}") {
		// a text line that begins with the very enhanced code the reply carries
		own := map[string]string{"wrapped": "4.0.0", "set": fmt.Sprintf("%d.7.1", class), "setbig": fmt.Sprintf("%d.999.509", class), "mismatch": fmt.Sprintf("%d.2.2", 9-class), "notset": fmt.Sprintf("%d.0.0", class), "none": "5.7.1", "plain": "4.0.0"}[c.Enh]
		if c.Enh == "plain" && c.Callback == "Data" {
			own = "5.0.0"
		}
		c.Msg = strings.ReplaceAll(c.Msg, "{E}", own)
	}
	wantCode, wantEnh, wantMsg := c.Code, smtp.EnhancedCode{}, c.Msg
	switch c.Enh {
	case "set":
		e := smtp.EnhancedCode{class, 7, 1}
		berr = &smtp.SMTPError{Code: c.Code, EnhancedCode: e, Message: c.Msg}
		wantEnh = e
	case "setbig":
		// subject and detail are not limited to three digits or to small numbers (RFC 3463: 1*3DIGIT each)
		e := smtp.EnhancedCode{class, 999, 509}
		berr = &smtp.SMTPError{Code: c.Code, EnhancedCode: e, Message: c.Msg}
		wantEnh = e
	case "mismatch":
		// the class of the enhanced code need not be that of the reply code: it is passed on as the backend gave it
		e := smtp.EnhancedCode{9 - class, 2, 2}
		berr = &smtp.SMTPError{Code: c.Code, EnhancedCode: e, Message: c.Msg}
		wantEnh = e
	case "notset":
		berr = &smtp.SMTPError{Code: c.Code, Message: c.Msg}
		wantEnh = smtp.EnhancedCode{class, 0, 0}
	case "none":
		berr = &smtp.SMTPError{Code: c.Code, EnhancedCode: smtp.NoEnhancedCode, Message: c.Msg}
		wantEnh = smtp.EnhancedCode{}
	case "wrapped":
		// an error that WRAPS an SMTPError is not an SMTPError: "any other error", reported with the generic code and
		// its own (outer) text
		berr = fmt.Errorf("%s: %w", c.Msg, &smtp.SMTPError{Code: 550, EnhancedCode: smtp.EnhancedCode{5, 1, 1}, Message: "inner no such user"})
		wantMsg = berr.Error()
		if c.Callback == "Data" {
			wantCode, wantEnh = 554, smtp.EnhancedCode{5, 0, 0}
		} else {
			wantCode, wantEnh = 451, smtp.EnhancedCode{4, 0, 0}
		}
	case "plain":
		berr = errors.New(c.Msg)
		if c.Callback == "Data" {
			wantCode, wantEnh = 554, smtp.EnhancedCode{5, 0, 0}
		} else {
			wantCode, wantEnh = 451, smtp.EnhancedCode{4, 0, 0}
		}
	}
	be := &h.Backend{}
	be.Override = func(kind, arg string) (error, bool) {
		if kind == c.Callback {
			return berr, true
		}
		return nil, false
	}
	if c.Callback == "Data" {
		be.Plan = func(int) h.DataPlan { return h.DataPlan{Max: -1, Verdict: berr} }
	}
	var got error
	var wire []byte
	leak, pan := h.Bubble(func() {
		h.WithRealServer(h.Config{}, be, false, func(cs *h.CS) {
			cl := cs.Client
			step := func(name string, err error) bool {
				if name == c.Callback {
					got = err
					return false
				}
				if err != nil {
					f = h.F("c17-unexpected-error", "%s: %s failed: %v", desc, name, err)
					return false
				}
				return true
			}
			if !step("NewSession", cl.Hello("c.example")) {
				wire = cs.ToClient()
				return
			}
			// an error reply - whatever its code, 421 included - is the answer to ONE command: the server keeps the
			// connection, so the next command is answered on its own merits
			after := func() {
				if f == nil && c.Callback != "NewSession" {
					if err := cl.Noop(); err != nil {
						f = h.F("c17-poisoned-after-error", "%s: after the error reply a plain Noop on the same connection returned %v", desc, err)
					}
				}
			}
			if !step("Mail", cl.Mail("ok@a.example", nil)) {
				wire = cs.ToClient()
				after()
				return
			}
			if !step("Rcpt", cl.Rcpt("ok@b.example", nil)) {
				wire = cs.ToClient()
				after()
				return
			}
			w, err := cl.Data()
			if err != nil {
				f = h.F("c17-unexpected-error", "%s: DATA: %v", desc, err)
				return
			}
			w.Write([]byte("hello\r\n"))
			step("Data", w.Close())
			wire = cs.ToClient()
			after()
		})
	})
	if f != nil {
		return f
	}
	if pan != "" {
		return h.F("c17-harness-panic", "%s: %s", desc, pan)
	}
	if leak != "" {
		return h.F("c17-deadlock", "%s: %.200s", desc, leak)
	}
	// the wire
	rs, err := ref.ParseReplies(wire)
	if err != nil || len(rs) == 0 {
		return h.F("c17-bad-wire", "%s: %v (%q)", desc, err, wire)
	}
	last := rs[len(rs)-1]
	wantLines := strings.Split(wantMsg, "\n")
	enhStr := ""
	if c.Enh != "none" {
		enhStr = fmt.Sprintf("%d.%d.%d", wantEnh[0], wantEnh[1], wantEnh[2])
	}
	textOK := func(text []string) bool {
		if c.Enh == "plain" || c.Enh == "wrapped" {
			return strings.Contains(strings.Join(text, "\n"), wantMsg)
		}
		return strings.Join(text, "\n") == strings.Join(wantLines, "\n")
	}
	ambiguous := c.Enh == "none" && looksLikeEnh(wantLines)
	if !ambiguous {
		if last.Code != wantCode || last.Enh != enhStr || !textOK(last.Text) {
			return h.F("c17-wire-differs", "%s: the peer received %d %q %q, want %d %q %q", desc, last.Code, last.Enh, last.Text, wantCode, enhStr, wantLines)
		}
	} else if last.Code != wantCode {
		return h.F("c17-wire-differs", "%s: the peer received code %d, want %d", desc, last.Code, wantCode)
	}
	// the client's view
	se, ok := got.(*smtp.SMTPError)
	if !ok {
		return h.F("c17-client-error-type", "%s: the client returned %T %v, want *SMTPError", desc, got, got)
	}
	if ambiguous {
		if se.Code != wantCode {
			return h.F("c17-client-differs", "%s: the client returned code %d", desc, se.Code)
		}
		return nil
	}
	msgOK := se.Message == wantMsg
	if c.Enh == "plain" || c.Enh == "wrapped" {
		msgOK = strings.Contains(se.Message, wantMsg)
	}
	if se.Code != wantCode || se.EnhancedCode != wantEnh || !msgOK {
		return h.F("c17-client-differs", "%s: the client returned SMTPError{%d %v %q}, want {%d %v %q}", desc, se.Code, se.EnhancedCode, se.Message, wantCode, wantEnh, wantMsg)
	}
	return nil
}

// looksLikeEnh: some line of the text begins with something that parses as an
// enhanced status code - without a real one in front this is ambiguous on the wire.
func looksLikeEnh(lines []string) bool {
	for _, l := range lines {
		f := strings.SplitN(l, " ", 2)[0]
		parts := strings.Split(f, ".")
		if len(parts) == 3 {
			num := true
			for _, p := range parts {
				if p == "" || strings.Trim(p, "0123456789") != "" {
					num = false
				}
			}
			if num {
				return true
			}
		}
	}
	return false
}

// ---- the Data verdict of each of several transactions on one connection, via DATA and via BDAT ----

type C17SeqCase struct {
	Via   [2]string `json:"via"`   // data | bdat1 (one LAST chunk) | bdat2 (two chunks)
	Err   [2]int    `json:"err"`   // index into c17SeqErrs
	Early bool      `json:"early"` // the first backend call returns its error without reading the message
}

var c17SeqErrs = []error{
	nil,
	&smtp.SMTPError{Code: 550, EnhancedCode: smtp.EnhancedCode{5, 7, 1}, Message: "first shape"},
	&smtp.SMTPError{Code: 452, Message: "two\nlines"},
	&smtp.SMTPError{Code: 554, EnhancedCode: smtp.NoEnhancedCode, Message: "no enhanced code"},
	errors.New("some other error"),
}

type c17Want struct {
	exact bool
	code  int
	enh   string
	text  string
	sub   bool // text is a substring requirement
	class int  // only the reply class is fixed
}

func c17WantFor(err error) c17Want {
	switch e := err.(type) {
	case nil:
		return c17Want{code: 250}
	case *smtp.SMTPError:
		w := c17Want{exact: true, code: e.Code, text: e.Message}
		switch e.EnhancedCode {
		case smtp.NoEnhancedCode:
		case smtp.EnhancedCodeNotSet:
			w.enh = fmt.Sprintf("%d.0.0", e.Code/100)
		default:
			w.enh = fmt.Sprintf("%d.%d.%d", e.EnhancedCode[0], e.EnhancedCode[1], e.EnhancedCode[2])
		}
		return w
	default:
		return c17Want{exact: true, code: 554, enh: "5.0.0", text: err.Error(), sub: true}
	}
}

func evalC17Seq(c C17SeqCase) *h.Finding {
	desc := fmt.Sprintf("two transactions on one connection: first via %s (backend returns %v%s), second via %s (backend returns %v)", c.Via[0], c17SeqErrs[c.Err[0]], map[bool]string{true: " without reading the message", false: ""}[c.Early], c.Via[1], c17SeqErrs[c.Err[1]])
	be := &h.Backend{}
	be.Plan = func(idx int) h.DataPlan {
		if idx > 1 {
			return h.ReadAll
		}
		p := h.DataPlan{Max: -1, Verdict: c17SeqErrs[c.Err[idx]]}
		if idx == 0 && c.Early {
			p.Max = 0
		}
		return p
	}
	var in strings.Builder
	in.WriteString("EHLO c.example\r\n")
	var want []c17Want
	want = append(want, c17Want{code: 220}, c17Want{code: 250})
	for t := 0; t < 2; t++ {
		fmt.Fprintf(&in, "MAIL FROM:<ok@a%d.example>\r\nRCPT TO:<ok@b%d.example>\r\n", t, t)
		want = append(want, c17Want{code: 250}, c17Want{code: 250})
		final := c17WantFor(c17SeqErrs[c.Err[t]])
		switch c.Via[t] {
		case "data":
			in.WriteString("DATA\r\nline one\r\nline two\r\n.\r\n")
			want = append(want, c17Want{code: 354}, final)
		case "bdat1":
			in.WriteString("BDAT 10 LAST\r\nline one\r\n")
			want = append(want, final)
		case "bdat2":
			in.WriteString("BDAT 10\r\nline one\r\nBDAT 10 LAST\r\nline two\r\n")
			if t == 0 && c.Early {
				// the failure is reported on the first chunk; the transaction is gone, the second chunk is refused
				want = append(want, final, c17Want{class: 5})
			} else {
				want = append(want, c17Want{code: 250}, final)
			}
		}
	}
	in.WriteString("NOOP\r\n")
	want = append(want, c17Want{code: 250})
	o := h.RunS(h.Config{}, be, h.OneSeg([]byte(in.String())), h.TermEOF)
	if f := o.Sanity("c17", desc); f != nil {
		return f
	}
	if o.ParseErr != nil || len(o.Replies) != len(want) {
		return h.F("c17-seq-replies", "%s: replies %s (%v), want %d replies", desc, o.Codes(), o.ParseErr, len(want))
	}
	for i, w := range want {
		r := o.Replies[i]
		ok := r.Code == w.code || w.class != 0 && r.Class() == w.class
		if ok && w.exact {
			text := strings.Join(r.Text, "\n")
			ok = r.Enh == w.enh && (text == w.text || w.sub && strings.Contains(text, w.text))
		}
		if !ok {
			return h.F("c17-seq-differs", "%s: reply %d is %s, want %d %q %q (all replies: %s)", desc, i, r.String(), w.code, w.enh, w.text, o.Codes())
		}
	}
	return nil
}

func init() {
	h.RegisterReplayer("c17", evalC17)
	h.RegisterReplayer("c17-seq", evalC17Seq)
}

// ---- the package-level SendMail against a real listener: the verdict of each stage comes back ------------------------

// C17SendCase: smtp.SendMail over loopback TCP to Server.Serve; the backend refuses at Stage ("" = accepts all).
type C17SendCase struct {
	Stage string `json:"stage"` // "" | mail | rcpt1 | rcpt2 | data
}

func evalC17Send(c C17SendCase) *h.Finding {
	desc := fmt.Sprintf("SendMail, backend refuses at %q", c.Stage)
	defer h.GuardEnter("C17 " + desc)()
	ln, err := net.Listen("tcp", "127.0.0.1:0")
	if err != nil {
		return nil // no loopback: nothing to judge
	}
	be := &h.Backend{ByContent: true}
	trustHarnessCA()
	srv := h.Config{TLSAvailable: true}.NewServer(be, &h.LogBuf{})
	served := make(chan struct{})
	go func() { srv.Serve(ln); close(served) }()
	defer func() { srv.Close(); <-served }()
	from, to, body := "ok@a.example", []string{"ok1@b.example", "ok2@b.example"}, "accept-1\r\nbody\r\n"
	switch c.Stage {
	case "mail":
		from = "rejected@a.example"
	case "rcpt1":
		to[0] = "rejected@b.example"
	case "rcpt2":
		to[1] = "rejected@b.example"
	case "data":
		body = "reject-1\r\nbody\r\n"
	}
	serr := smtp.SendMail(ln.Addr().String(), nil, from, to, strings.NewReader(body))
	delivered := 0
	for _, e := range be.Trace() {
		if e.Kind == "Data" && e.Ret == "nil" {
			delivered++
		}
	}
	if c.Stage == "" {
		if serr != nil || delivered != 1 {
			return h.F("c17-sendmail", "%s: returned %v, %d message(s) accepted by the backend; want nil and 1", desc, serr, delivered)
		}
		return nil
	}
	var se *smtp.SMTPError
	if serr == nil || !errors.As(serr, &se) {
		return h.F("c17-sendmail", "%s: returned %v; want the backend's SMTPError (calls: %s)", desc, serr, h.Calls(be.Trace()))
	}
	want := 550
	if c.Stage == "data" {
		want = 554
	}
	if se.Code != want || !strings.Contains(se.Message, "rejected") {
		return h.F("c17-sendmail", "%s: returned %d %v %q; want the backend's %d ... rejected ...", desc, se.Code, se.EnhancedCode, se.Message, want)
	}
	if delivered != 0 {
		return h.F("c17-sendmail", "%s: a message was accepted by the backend although a stage refused", desc)
	}
	return nil
}

func init() { h.RegisterReplayer("c17-sendmail", evalC17Send) }

// ---- LMTP: per-recipient statuses set by the backend ----------------------------------------------------------------

type C17LMTPCase struct {
	Via   string `json:"via"` // data | bdat1 | bdat2
	Kinds [2]int `json:"kinds"`
}

var c17LMTPErrs = []error{
	nil,
	&smtp.SMTPError{Code: 550, EnhancedCode: smtp.EnhancedCodeNotSet, Message: "no such user here"},
	&smtp.SMTPError{Code: 451, EnhancedCode: smtp.EnhancedCode{4, 2, 2}, Message: "mailbox busy"},
	&smtp.SMTPError{Code: 452, EnhancedCode: smtp.EnhancedCodeNotSet, Message: "try again"},
	&smtp.SMTPError{Code: 554, EnhancedCode: smtp.NoEnhancedCode, Message: "no code at all"},
	&smtp.SMTPError{Code: 550, EnhancedCode: smtp.EnhancedCodeNotSet, Message: "first line\nsecond line"},
	errors.New("plain failure of the store"),
}

// evalC17LMTP: an SMTPError (or any error) handed to SetStatus is sent for that recipient with the same code, enhanced
// code (X.0.0 of the class when unset) and text - whether the message came with DATA or in chunks.
func evalC17LMTP(c C17LMTPCase) *h.Finding {
	cfg, be := modeConfig("lmtp-rcpt")
	r1, r2 := "ok1@b.example", "ok2@b.example"
	be.Plan = func(int) h.DataPlan {
		return h.DataPlan{Max: -1, Status: []h.StatusCall{{Rcpt: r1, Err: c17LMTPErrs[c.Kinds[0]]}, {Rcpt: r2, Err: c17LMTPErrs[c.Kinds[1]], AfterRead: true}}}
	}
	in := "LHLO c.example\r\nMAIL FROM:<ok@a.example>\r\nRCPT TO:<" + r1 + ">\r\nRCPT TO:<" + r2 + ">\r\n"
	switch c.Via {
	case "data":
		in += "DATA\r\nx\r\n.\r\n"
	case "bdat1":
		in += "BDAT 3 LAST\r\nx\r\n"
	default:
		in += "BDAT 1\r\nxBDAT 2 LAST\r\n\r\n"
	}
	in += "NOOP\r\n"
	o := h.RunS(cfg, be, h.OneSeg([]byte(in)), h.TermEOF)
	desc := fmt.Sprintf("LMTP, message via %s, SetStatus(%s, %v) and SetStatus(%s, %v)", c.Via, r1, c17LMTPErrs[c.Kinds[0]], r2, c17LMTPErrs[c.Kinds[1]])
	if f := o.Sanity("c17", desc); f != nil {
		return f
	}
	if o.ParseErr != nil {
		return h.F("c17-bad-wire", "%s: %v", desc, o.ParseErr)
	}
	n := len(o.Replies)
	if n < 3 || o.Replies[n-1].Code != 250 {
		return h.F("c17-lmtp-replies", "%s: replies %s", desc, o.Codes())
	}
	for i, rcpt := range []string{r1, r2} {
		r := o.Replies[n-3+i]
		w := c17WantFor(c17LMTPErrs[c.Kinds[i]])
		text := strings.Join(r.Text, "\n")
		if r.Enh == "" {
			text = strings.Join(r.Lines, "\n")
		}
		if r.Code != w.code || (w.enh != "" && r.Enh != w.enh) || (w.text != "" && !strings.Contains(strings.ReplaceAll(text, "<"+rcpt+"> ", ""), strings.ReplaceAll(w.text, "\n", "\n"))) && !strings.Contains(text, strings.Split(w.text, "\n")[0]) {
			return h.F("c17-lmtp-status", "%s: the reply for %s is %s, want %d %s %q", desc, rcpt, r.String(), w.code, w.enh, w.text)
		}
		if !strings.Contains(text, rcpt) {
			return h.F("c17-lmtp-status", "%s: the reply for %s does not name it: %s", desc, rcpt, r.String())
		}
	}
	return nil
}

func init() { h.RegisterReplayer("c17-lmtp", evalC17LMTP) }

// ---- replies that reach the client in two pieces -------------------------------------------------------------------------

type C17SplitCase struct {
	LMTP  bool `json:"lmtp"`
	Reply int  `json:"reply"` // which answer of the conversation is split (-1: none)
	At    int  `json:"at"`    // after how many octets of it
	// Fault: "" the two pieces arrive one after the other | "eof" the connection ends behind the first piece |
	// "silent" the server sends the first piece and then nothing any more (it goes on reading)
	Fault string `json:"fault,omitempty"`
	// Prop: whose oracle judges a fault case (C15 .. C18)
	Prop string `json:"prop,omitempty"`
	// NoCB (LMTP): the message is sent with Data(), without a status callback
	NoCB bool `json:"no_callback,omitempty"`
}

var c17SplitAnswers = []string{
	"250-fake.example greets you\r\n250-8BITMIME\r\n250-ENHANCEDSTATUSCODES\r\n250 SIZE 1000\r\n",
	"250 2.1.0 sender ok\r\n",
	"550-5.1.1 no such user here\r\n550-5.1.1 second line of the refusal\r\n550 5.1.1 third line\r\n",
	"250 2.1.5 recipient ok\r\n",
	"252 2.1.5 cannot verify but will try\r\n",
	"354 go ahead\r\n",
	"554-5.6.0 message refused\r\n554 5.6.0 for reasons of taste\r\n", // SMTP: the one final answer; LMTP: the first recipient's
	"250 2.6.0 <r3@x.example> delivered\r\n",                              // LMTP only: the second recipient's
	"250 2.0.0 still here\r\n",                                            // NOOP
}

// c17LastSent: what the client wrote in the most recent run of this goroutine's conversation (per case; the fault family
// runs its cases sequentially).
var c17LastSent atomic.Value

// c17SplitRun runs one fixed conversation against a scripted server and returns what the client reported, call by call.
func c17SplitRun(c C17SplitCase) (string, *h.Finding) {
	var f *h.Finding
	var sb strings.Builder
	dead := false // the fault has happened: the server says nothing any more
	answer := func(i int) []byte {
		a := c17SplitAnswers[i]
		if dead {
			return []byte{}
		}
		if i == c.Reply && c.Fault != "" && c.Fault != "slow" {
			dead = true
			if c.Fault == "eof" {
				return []byte(a[:c.At] + "\x00EOF\x00")
			}
			return []byte(a[:c.At])
		}
		if i == c.Reply && c.At > 0 && c.At < len(a) {
			a = a[:c.At] + "\x00CUT\x00" + a[c.At:]
		}
		return []byte(a)
	}
	inData, rcpt := false, 0
	script := func(line string, n int) []byte {
		if dead {
			return []byte{}
		}
		if inData {
			if line != "." {
				return []byte{}
			}
			inData = false
			if c.LMTP {
				if c.Fault == "slow" {
					// six virtual minutes between the two per-recipient answers: more than CommandTimeout, less than SubmissionTimeout
					return append(append(answer(6), "\x00SLEEP\x00"...), answer(7)...)
				}
				return append(answer(6), answer(7)...)
			}
			return answer(6)
		}
		up := strings.ToUpper(line)
		switch {
		case strings.HasPrefix(up, "EHLO"), strings.HasPrefix(up, "LHLO"):
			return answer(0)
		case strings.HasPrefix(up, "MAIL"):
			return answer(1)
		case strings.HasPrefix(up, "RCPT"):
			rcpt++
			return answer(1 + rcpt) // 550 (refused), 250, 252
		case strings.HasPrefix(up, "DATA"):
			inData = true
			return answer(5)
		case strings.HasPrefix(up, "NOOP"):
			return answer(8)
		}
		return []byte("250 2.0.0 ok\r\n")
	}
	report := func(what string, err error) { fmt.Fprintf(&sb, "%s: %s\n", what, cbErrString(err)) }
	leak, pan := h.Bubble(func() {
		h.WithScriptedServer("220 fake.example ready\r\n", script, c.LMTP, func(cs *h.CS) {
			cl := cs.Client
			report("Mail", cl.Mail("s@a.example", nil))
			report("Rcpt 1", cl.Rcpt("r1@x.example", nil))
			report("Rcpt 2", cl.Rcpt("r2@x.example", nil))
			report("Rcpt 3", cl.Rcpt("r3@x.example", nil))
			var w io.WriteCloser
			var err error
			if c.LMTP && !c.NoCB {
				w, err = cl.LMTPData(func(r string, st *smtp.SMTPError) { report("status "+r, errOrNil(st)) })
			} else {
				w, err = cl.Data()
			}
			report("Data", err)
			if err == nil {
				w.Write([]byte("x\r\n"))
				report("Close", w.Close())
			}
			report("Noop", cl.Noop())
			h.Wait()
			c17LastSent.Store(string(cs.ToServer()))
		}, nil)
	})
	if pan != "" {
		f = h.F("c17-harness-panic", "%+v: %s", c, pan)
	}
	if leak != "" {
		f = h.F("c17-deadlock", "%+v: client and scripted server are blocked on each other: %.200s", c, leak)
	}
	return sb.String(), f
}

// evalC17Split: a reply that arrives in two pieces (one Read each: a segment boundary inside the code, inside the text,
// between CR and LF, between the lines of a multi-line reply) is the same reply.
func evalC17Split(c C17SplitCase) *h.Finding {
	got, f := c17SplitRun(c)
	if f != nil {
		return f
	}
	want, f := c17SplitRun(C17SplitCase{LMTP: c.LMTP, Reply: -1, NoCB: c.NoCB})
	if f != nil {
		return f
	}
	if got != want && c.Fault == "slow" {
		return h.F("c17-slow-status-differs", "LMTP, six minutes between the two per-recipient answers (within SubmissionTimeout): the client reports\n%s   with prompt answers it reports\n%s", got, want)
	}
	if got != want {
		return h.F("c17-split-reply-differs", "lmtp=%t: answer %q delivered to the client in two pieces (cut after %d octets): the client reports\n%s   with the answer in one piece it reports\n%s", c.LMTP, c17SplitAnswers[c.Reply], c.At, got, want)
	}
	return nil
}

func init() { h.RegisterReplayer("c17-split", evalC17Split) }

// evalClientFault: the connection fails while the server answers one command - it ends (EOF) or falls silent (the
// client's CommandTimeout / SubmissionTimeout expires on the virtual clock) behind the first At octets of the answer.
// Judged are cuts in front of the answer, inside its code, and inside a line that is not its last one (a last line
// that lost only its tail is a matter of its own). From the call that was being answered on, no call may report
// success, no LMTP recipient may be reported at all, and what was reported before is what the fault-free run reports;
// the client writes HELO only behind a complete 500/502 answer, and never more than one line without an answer.
func evalClientFault(c C17SplitCase) *h.Finding {
	got, f := c17SplitRun(c)
	if f != nil {
		return f
	}
	sent, _ := c17LastSent.Load().(string)
	want, f := c17SplitRun(C17SplitCase{LMTP: c.LMTP, Reply: -1, NoCB: c.NoCB})
	if f != nil {
		return f
	}
	desc := fmt.Sprintf("lmtp=%t: while the server sends answer %q the connection %s after %d octets", c.LMTP, c17SplitAnswers[c.Reply], map[string]string{"eof": "ends", "silent": "falls silent"}[c.Fault], c.At)
	// which report line belongs to the faulted answer
	first := map[int]string{0: "Mail", 1: "Mail", 2: "Rcpt 1", 3: "Rcpt 2", 4: "Rcpt 3", 5: "Data", 6: "status", 7: "status", 8: "Noop"}[c.Reply]
	gl, wl := strings.Split(strings.TrimSpace(got), "\n"), strings.Split(strings.TrimSpace(want), "\n")
	k := 0
	for k < len(wl) && !strings.HasPrefix(wl[k], first) {
		k++
	}
	if c.Reply == 7 {
		k++ // the second per-recipient answer
	}
	if (!c.LMTP || c.NoCB) && (c.Reply == 6 || c.Reply == 7) {
		k = len(wl) - 2 // without a callback the final answers are reported by Close
	}
	switch c.Prop {
	case "C17":
		for i := 0; i < k && i < len(gl); i++ {
			if gl[i] != wl[i] {
				return h.F("c17-fault-earlier-report-differs", "%s: what the client reported BEFORE that differs from the fault-free conversation: %q, want %q", desc, gl[i], wl[i])
			}
		}
	case "C16", "C18":
		for i := k; i < len(gl); i++ {
			if strings.HasSuffix(gl[i], ": nil") {
				return h.F(strings.ToLower(c.Prop)+"-fault-success-reported", "%s: and yet the client reports %q (all reports: %q)", desc, gl[i], gl)
			}
			if c.Prop == "C18" && strings.HasPrefix(gl[i], "status ") {
				return h.F("c18-fault-status-reported", "%s: and yet a per-recipient status is reported afterwards: %q", desc, gl[i])
			}
		}
		if c.Prop == "C18" && c.NoCB && c.Reply == 7 {
			for _, l := range gl {
				if strings.HasPrefix(l, "Close: SMTPError{") {
					return h.F("c18-fault-verdict-without-all-replies", "%s (no status callback): Close returned a verdict (%s) although the replies of the accepted recipients were never all read", desc, l)
				}
			}
		}
		if c.Prop == "C18" {
			for i := 0; i < k && i < len(gl); i++ {
				if gl[i] != wl[i] {
					return h.F("c18-fault-earlier-report-differs", "%s: what the client reported before that differs from the fault-free conversation: %q, want %q", desc, gl[i], wl[i])
				}
			}
		}
	case "C15":
		if strings.Contains(sent, "HELO ") {
			return h.F("c15-helo-without-refusal", "%s: the client wrote HELO although no EHLO answer was ever completed (wire: %q)", desc, sent)
		}
	}
	return nil
}

func init() { h.RegisterReplayer("client-fault", evalClientFault) }

// clientFaultFamily runs the fault cases for one property.
func clientFaultFamily(run *h.Run, prop string) {
	for _, lmtp := range []bool{false, true} {
		for ri, a := range c17SplitAnswers {
			if ri == 7 && !lmtp {
				continue
			}
			lastLine := strings.LastIndex(strings.TrimSuffix(a, "\r\n"), "\n") + 1
			for at := 0; at < len(a); at++ {
				if at > lastLine+3 {
					continue // the tail of the last line: not judged (see evalClientFault)
				}
				for _, fault := range []string{"eof", "silent"} {
					for _, nocb := range []bool{false, true} {
						if nocb && !(lmtp && prop == "C18") {
							continue
						}
						c := C17SplitCase{LMTP: lmtp, Reply: ri, At: at, Fault: fault, Prop: prop, NoCB: nocb}
						f := evalClientFault(c)
						run.Eval(true)
						if f != nil {
							run.Violate("client-fault", c, f, func() *h.Finding { return evalClientFault(c) })
							run.Outcome("violation:" + f.Sig)
						} else {
							run.Outcome("client-fault-ok:" + fault)
						}
					}
				}
			}
		}
	}
}

const clientFaultRule = " Client I/O faults: in a fixed conversation (EHLO, MAIL, three RCPT, DATA/LMTPData, NOOP) against a scripted server the connection ENDS or FALLS SILENT (CommandTimeout / SubmissionTimeout expire on the virtual clock) behind the first k octets of each answer - k = 0, inside the code, inside every line but the tail of the last one - x {SMTP, LMTP}: from the call being answered on no call reports success and no recipient status is reported, earlier reports equal the fault-free run, HELO is written only behind a complete 500/502."


func C17(tier string) int {
	run := h.NewRun("C17", tier, "exploration", "", 20*time.Minute)
	codes := []int{421, 450, 451, 452, 500, 501, 550, 552, 554}
	msgs := []string{"", "plain text", " leading space", "trailing space ", "5.1.1 looks like a code", "2.0.0", "non-ASCII: pelé €", "line one\nline two", "one\ntwo\nthree", "first\n\nthird", "a\n5.7.1 b", "tab\there", "   ", "100% full", "%d%s%v%!x(MISSING)", "{E} starts with the reply's own enhanced code", "{E}", "a\n{E} b\n{E}"}
	for _, n := range []int{498, 499, 512, 600, 998, 1000, 1200, 1900} {
		msgs = append(msgs, strings.Repeat("long text ", n/10)+strings.Repeat("x", n%10), "short first line\n"+strings.Repeat("y", n))
	}
	nHand := len(msgs)
	// all messages of 1..3 lines over a small set of line shapes (the hand-picked ones above stay)
	lineShapes := []string{"", "x", " x", "x ", "5.1.1 y", "  ", "t\ty", "100% y%d%s", "{E} y"}
	seenMsg := map[string]bool{}
	for _, m := range msgs {
		seenMsg[m] = true
	}
	var recLines func(cur []string)
	recLines = func(cur []string) {
		if len(cur) > 0 {
			m := strings.Join(cur, "\n")
			if !seenMsg[m] {
				seenMsg[m] = true
				msgs = append(msgs, m)
			}
		}
		if len(cur) == 3 {
			return
		}
		for _, l := range lineShapes {
			recLines(append(append([]string(nil), cur...), l))
		}
	}
	recLines(nil)
	run.Rule = fmt.Sprintf("reply codes %v x enhanced code {set (class.7.1), set with three-digit components (class.999.509; hand-picked messages), set with the other class (4.2.2 on a 5xx reply and vice versa), EnhancedCodeNotSet, NoEnhancedCode} x %d message shapes (hand-picked: one-line and two-line texts of 498..1900 octets, empty, leading/trailing space, text that looks like an enhanced code, non-ASCII, 1-3 lines, empty middle line, blank; plus ALL messages of 1-3 lines over the line shapes {empty, 'x', ' x', 'x ', '5.1.1 y', blanks, tab, printf verbs, a line starting with the reply's own enhanced code}) x callback {NewSession, Mail, Rcpt, Data}, plus non-SMTPError errors per callback x message shapes, incl. errors that WRAP an SMTPError (still 'any other error'); after every error reply a Noop on the same connection must work; each a real-client <-> real-server conversation; plus the Data verdicts of TWO consecutive transactions on one connection, each via {DATA, BDAT LAST, two BDAT chunks} x 5 verdict shapes each x {first backend call reads the message, returns its error without reading} (scripted peer: the go-smtp client has no BDAT). Distinct by construction; non-trivial = all. Oracle: wire reply (strict parser) and the client's returned *SMTPError both equal the backend's error (X.0.0 for an unset code, zero value for NoEnhancedCode); other errors => 451 (envelope) / 554 (data) with their text. Plus LMTP per-recipient statuses: every pair out of 7 errors handed to SetStatus (nil, SMTPErrors with set / unset / absent enhanced code, two lines, a plain error) x message via {DATA, BDAT LAST, two chunks}: each recipient's reply carries that code, enhanced code (X.0.0 when unset) and text. Plus: every answer of a scripted conversation (multi-line EHLO, 250, multi-line 550, 252, 354, multi-line 554, LMTP per-recipient answers) delivered to the client in TWO pieces, cut at every octet offset (inside the code, the enhanced code, the text, between CR and LF, between lines) x {SMTP, LMTP}: what every client call reports is what it reports for the answer in one piece (differential).", codes, len(msgs))
	run.Assumptions = []string{"NoEnhancedCode combined with text that itself parses as an enhanced code is inherently ambiguous on the wire: only the reply code is judged there", "a generic Data error may be prefixed ('Error: transaction failed: ')"}
	var cases []C17Case
	for _, cb := range []string{"NewSession", "Mail", "Rcpt", "Data"} {
		for _, code := range codes {
			for _, enh := range []string{"set", "notset", "none"} {
				for _, m := range msgs {
					cases = append(cases, C17Case{Callback: cb, Code: code, Enh: enh, Msg: m})
				}
			}
			for _, m := range msgs[:nHand] {
				cases = append(cases, C17Case{Callback: cb, Code: code, Enh: "setbig", Msg: m})
				cases = append(cases, C17Case{Callback: cb, Code: code, Enh: "mismatch", Msg: m})
			}
		}
		for _, m := range msgs {
			if m != "" {
				cases = append(cases, C17Case{Callback: cb, Enh: "plain", Msg: m, Code: 0})
			}
		}
		for _, m := range []string{"outer context", "while delivering", "x"} {
			cases = append(cases, C17Case{Callback: cb, Enh: "wrapped", Msg: m, Code: 0})
		}
	}
	h.ParallelFor(len(cases), func(i int) {
		c := cases[i]
		f := evalC17(c)
		run.Eval(true)
		if f != nil {
			run.Violate("c17", c, f, func() *h.Finding { return evalC17(c) })
			run.Outcome("violation:" + f.Sig)
		} else {
			run.Outcome(c.Callback + ":" + c.Enh)
		}
		if i%211 == 3 {
			run.Sample("case", 6, c)
		}
	})
	// the Data verdicts of two consecutive transactions, via DATA and BDAT
	var scases []C17SeqCase
	for _, v0 := range []string{"data", "bdat1", "bdat2"} {
		for _, v1 := range []string{"data", "bdat1", "bdat2"} {
			for e0 := range c17SeqErrs {
				for e1 := range c17SeqErrs {
					scases = append(scases, C17SeqCase{Via: [2]string{v0, v1}, Err: [2]int{e0, e1}})
					if e0 != 0 {
						scases = append(scases, C17SeqCase{Via: [2]string{v0, v1}, Err: [2]int{e0, e1}, Early: true})
					}
				}
			}
		}
	}
	h.ParallelFor(len(scases), func(i int) {
		c := scases[i]
		f := evalC17Seq(c)
		run.Eval(true)
		if f != nil {
			run.Violate("c17-seq", c, f, func() *h.Finding { return evalC17Seq(c) })
			run.Outcome("violation:" + f.Sig)
		} else {
			run.Outcome("seq:" + c.Via[0] + "," + c.Via[1])
		}
	})
	// the package-level SendMail over a real loopback connection: every stage's refusal comes back as the error
	for _, st := range []string{"", "mail", "rcpt1", "rcpt2", "data"} {
		c := C17SendCase{Stage: st}
		f := evalC17Send(c)
		run.Eval(true)
		if f != nil {
			run.Violate("c17-sendmail", c, f, func() *h.Finding { return evalC17Send(c) })
			run.Outcome("violation:" + f.Sig)
		}
	}
	for _, via := range []string{"data", "bdat1", "bdat2"} {
		for a := range c17LMTPErrs {
			for b := range c17LMTPErrs {
				c := C17LMTPCase{Via: via, Kinds: [2]int{a, b}}
				f := evalC17LMTP(c)
				run.Eval(true)
				if f != nil {
					run.Violate("c17-lmtp", c, f, func() *h.Finding { return evalC17LMTP(c) })
					run.Outcome("violation:" + f.Sig)
				} else {
					run.Outcome("lmtp-status-ok")
				}
			}
		}
	}
	for _, nocb := range []bool{false, true} {
		c := C17SplitCase{LMTP: true, Reply: -1, Fault: "slow", NoCB: nocb}
		f := evalC17Split(c)
		run.Eval(true)
		if f != nil {
			run.Violate("c17-split", c, f, func() *h.Finding { return evalC17Split(c) })
			run.Outcome("violation:" + f.Sig)
		}
	}
	for _, lmtp := range []bool{false, true} {
		for ri, a := range c17SplitAnswers {
			for at := 1; at < len(a); at++ {
				c := C17SplitCase{LMTP: lmtp, Reply: ri, At: at}
				f := evalC17Split(c)
				run.Eval(true)
				if f != nil {
					run.Violate("c17-split", c, f, func() *h.Finding { return evalC17Split(c) })
					run.Outcome("violation:" + f.Sig)
				} else {
					run.Outcome("split-reply-ok")
				}
			}
		}
	}
	for _, g := range []string{"554 5.7.1 go away\r\n", "554-5.7.1 no service for you\r\n554 5.7.1 go away\r\n", "421 4.3.2 shutting down\r\n", "550 no enhanced code here\r\n"} {
		for _, ce := range []bool{false, true} {
			c := C17GreetCase{Greeting: g, CloseErr: ce}
			f := evalC17Greet(c)
			run.Eval(true)
			if f != nil {
				run.Violate("c17-greet", c, f, func() *h.Finding { return evalC17Greet(c) })
				run.Outcome("violation:" + f.Sig)
			}
		}
	}
	// the connection ends or falls silent in the middle of an answer (checks/c17.go)
	run.Rule += clientFaultRule
	clientFaultFamily(run, "C17")
	// histories of client calls (explicit-state search, checks/clientbfs.go)
	run.Rule += clientSearchRule
	clientSearch(run, "C17", 0)
	return run.Finish()
}

// ---- a refusal in the greeting, and a connection whose Close fails ------------------------------------------------------

type c17CloseErrConn struct{ *h.End }

func (c c17CloseErrConn) Close() error {
	c.End.Close()
	return errors.New("close: transport endpoint is not connected")
}

type C17GreetCase struct {
	Greeting string `json:"greeting"`
	CloseErr bool   `json:"close_err"`
}

// evalC17Greet: a server that refuses in its greeting (554 / 421, one or two lines). The client reports exactly that
// reply - also when closing the connection afterwards fails, and on every later call.
func evalC17Greet(c C17GreetCase) *h.Finding {
	var e1, e2 error
	leak, pan := h.Bubble(func() {
		cEnd, sEnd := h.NewDuplex()
		go func() {
			sEnd.Write([]byte(c.Greeting))
			buf := make([]byte, 256)
			for {
				if _, err := sEnd.Read(buf); err != nil {
					sEnd.Close()
					return
				}
			}
		}()
		var cl *smtp.Client
		if c.CloseErr {
			cl = smtp.NewClient(c17CloseErrConn{cEnd})
		} else {
			cl = smtp.NewClient(cEnd)
		}
		e1 = cl.Hello("c.example")
		e2 = cl.Mail("s@a.example", nil)
		cl.Close()
		cEnd.Close()
		h.Wait()
	})
	desc := fmt.Sprintf("greeting %q, Close of the connection fails: %t", c.Greeting, c.CloseErr)
	if pan != "" {
		return h.F("c17-harness-panic", "%s: %s", desc, pan)
	}
	if leak != "" {
		return h.F("c17-deadlock", "%s: %.200s", desc, leak)
	}
	rs, err := ref.ParseReplies([]byte(c.Greeting))
	if err != nil || len(rs) != 1 {
		return h.F("harness-error", "%s: %v", desc, err)
	}
	want := replyErr(rs[0])
	for i, e := range []error{e1, e2} {
		if !cbSame(e, want, false) {
			return h.F("c17-greeting-refusal-lost", "%s: call %d returned %s, want the server's refusal %s", desc, i+1, cbErrString(e), cbErrString(want))
		}
	}
	return nil
}

func init() { h.RegisterReplayer("c17-greet", evalC17Greet) }
