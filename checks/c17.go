package checks

import (
	"errors"
	"fmt"
	"strings"
	"time"

	smtp "github.com/emersion/go-smtp"
	"verif/h"
	"verif/ref"
)

// C17: backend errors reach the peer and the client with code, class and text intact.

type C17Case struct {
	Callback string `json:"callback"` // NewSession | Mail | Rcpt | Data
	Code     int    `json:"code"`
	Enh      string `json:"enh"` // set | notset | none | plain (a non-SMTPError)
	Msg      string `json:"msg"`
}

func evalC17(c C17Case) *h.Finding {
	var f *h.Finding
	desc := fmt.Sprintf("callback=%s code=%d enh=%s msg=%q", c.Callback, c.Code, c.Enh, c.Msg)
	var berr error
	class := c.Code / 100
	wantCode, wantEnh, wantMsg := c.Code, smtp.EnhancedCode{}, c.Msg
	switch c.Enh {
	case "set":
		e := smtp.EnhancedCode{class, 7, 1}
		berr = &smtp.SMTPError{Code: c.Code, EnhancedCode: e, Message: c.Msg}
		wantEnh = e
	case "notset":
		berr = &smtp.SMTPError{Code: c.Code, Message: c.Msg}
		wantEnh = smtp.EnhancedCode{class, 0, 0}
	case "none":
		berr = &smtp.SMTPError{Code: c.Code, EnhancedCode: smtp.NoEnhancedCode, Message: c.Msg}
		wantEnh = smtp.EnhancedCode{}
	case "plain":
		berr = errors.New(c.Msg)
		if c.Callback == "Data" {
			wantCode, wantEnh = 554, smtp.EnhancedCode{5, 0, 0}
		} else {
			wantCode, wantEnh = 451, smtp.EnhancedCode{4, 0, 0}
		}
	}
	be := &h.Backend{}
	be.Override = func(kind, arg string) (error, bool) {
		if kind == c.Callback {
			return berr, true
		}
		return nil, false
	}
	if c.Callback == "Data" {
		be.Plan = func(int) h.DataPlan { return h.DataPlan{Max: -1, Verdict: berr} }
	}
	var got error
	var wire []byte
	leak, pan := h.Bubble(func() {
		h.WithRealServer(h.Config{}, be, false, func(cs *h.CS) {
			cl := cs.Client
			step := func(name string, err error) bool {
				if name == c.Callback {
					got = err
					return false
				}
				if err != nil {
					f = h.F("c17-unexpected-error", "%s: %s failed: %v", desc, name, err)
					return false
				}
				return true
			}
			if !step("NewSession", cl.Hello("c.example")) {
				wire = cs.ToClient()
				return
			}
			if !step("Mail", cl.Mail("ok@a.example", nil)) {
				wire = cs.ToClient()
				return
			}
			if !step("Rcpt", cl.Rcpt("ok@b.example", nil)) {
				wire = cs.ToClient()
				return
			}
			w, err := cl.Data()
			if err != nil {
				f = h.F("c17-unexpected-error", "%s: DATA: %v", desc, err)
				return
			}
			w.Write([]byte("hello\r\n"))
			step("Data", w.Close())
			wire = cs.ToClient()
		})
	})
	if f != nil {
		return f
	}
	if pan != "" {
		return h.F("c17-harness-panic", "%s: %s", desc, pan)
	}
	if leak != "" {
		return h.F("c17-deadlock", "%s: %.200s", desc, leak)
	}
	// the wire
	rs, err := ref.ParseReplies(wire)
	if err != nil || len(rs) == 0 {
		return h.F("c17-bad-wire", "%s: %v (%q)", desc, err, wire)
	}
	last := rs[len(rs)-1]
	wantLines := strings.Split(wantMsg, "\n")
	enhStr := ""
	if c.Enh != "none" {
		enhStr = fmt.Sprintf("%d.%d.%d", wantEnh[0], wantEnh[1], wantEnh[2])
	}
	textOK := func(text []string) bool {
		if c.Enh == "plain" {
			return strings.Contains(strings.Join(text, "\n"), wantMsg)
		}
		return strings.Join(text, "\n") == strings.Join(wantLines, "\n")
	}
	ambiguous := c.Enh == "none" && looksLikeEnh(wantLines)
	if !ambiguous {
		if last.Code != wantCode || last.Enh != enhStr || !textOK(last.Text) {
			return h.F("c17-wire-differs", "%s: the peer received %d %q %q, want %d %q %q", desc, last.Code, last.Enh, last.Text, wantCode, enhStr, wantLines)
		}
	} else if last.Code != wantCode {
		return h.F("c17-wire-differs", "%s: the peer received code %d, want %d", desc, last.Code, wantCode)
	}
	// the client's view
	se, ok := got.(*smtp.SMTPError)
	if !ok {
		return h.F("c17-client-error-type", "%s: the client returned %T %v, want *SMTPError", desc, got, got)
	}
	if ambiguous {
		if se.Code != wantCode {
			return h.F("c17-client-differs", "%s: the client returned code %d", desc, se.Code)
		}
		return nil
	}
	msgOK := se.Message == wantMsg
	if c.Enh == "plain" {
		msgOK = strings.Contains(se.Message, wantMsg)
	}
	if se.Code != wantCode || se.EnhancedCode != wantEnh || !msgOK {
		return h.F("c17-client-differs", "%s: the client returned SMTPError{%d %v %q}, want {%d %v %q}", desc, se.Code, se.EnhancedCode, se.Message, wantCode, wantEnh, wantMsg)
	}
	return nil
}

// looksLikeEnh: some line of the text begins with something that parses as an
// enhanced status code - without a real one in front this is ambiguous on the wire.
func looksLikeEnh(lines []string) bool {
	for _, l := range lines {
		f := strings.SplitN(l, " ", 2)[0]
		parts := strings.Split(f, ".")
		if len(parts) == 3 {
			num := true
			for _, p := range parts {
				if p == "" || strings.Trim(p, "0123456789") != "" {
					num = false
				}
			}
			if num {
				return true
			}
		}
	}
	return false
}

func init() { h.RegisterReplayer("c17", evalC17) }

func C17(tier string) int {
	run := h.NewRun("C17", tier, "exploration", "", 20*time.Minute)
	codes := []int{421, 450, 451, 452, 500, 501, 550, 552, 554}
	msgs := []string{"", "plain text", " leading space", "trailing space ", "5.1.1 looks like a code", "2.0.0", "non-ASCII: pelé €", "line one\nline two", "one\ntwo\nthree", "first\n\nthird", "a\n5.7.1 b", "tab\there", "   "}
	// all messages of 1..3 lines over a small set of line shapes (the hand-picked ones above stay)
	lineShapes := []string{"", "x", " x", "x ", "5.1.1 y", "  ", "t\ty"}
	seenMsg := map[string]bool{}
	for _, m := range msgs {
		seenMsg[m] = true
	}
	var recLines func(cur []string)
	recLines = func(cur []string) {
		if len(cur) > 0 {
			m := strings.Join(cur, "\n")
			if !seenMsg[m] {
				seenMsg[m] = true
				msgs = append(msgs, m)
			}
		}
		if len(cur) == 3 {
			return
		}
		for _, l := range lineShapes {
			recLines(append(append([]string(nil), cur...), l))
		}
	}
	recLines(nil)
	run.Rule = fmt.Sprintf("reply codes %v x enhanced code {set (class.7.1), EnhancedCodeNotSet, NoEnhancedCode} x %d message shapes (hand-picked: empty, leading/trailing space, text that looks like an enhanced code, non-ASCII, 1-3 lines, empty middle line, blank; plus ALL messages of 1-3 lines over the line shapes {empty, 'x', ' x', 'x ', '5.1.1 y', blanks, tab}) x callback {NewSession, Mail, Rcpt, Data}, plus non-SMTPError errors per callback x message shapes; each a real-client <-> real-server conversation. Distinct by construction; non-trivial = all. Oracle: wire reply (strict parser) and the client's returned *SMTPError both equal the backend's error (X.0.0 for an unset code, zero value for NoEnhancedCode); other errors => 451 (envelope) / 554 (data) with their text.", codes, len(msgs))
	run.Assumptions = []string{"NoEnhancedCode combined with text that itself parses as an enhanced code is inherently ambiguous on the wire: only the reply code is judged there", "a generic Data error may be prefixed ('Error: transaction failed: ')"}
	var cases []C17Case
	for _, cb := range []string{"NewSession", "Mail", "Rcpt", "Data"} {
		for _, code := range codes {
			for _, enh := range []string{"set", "notset", "none"} {
				for _, m := range msgs {
					cases = append(cases, C17Case{Callback: cb, Code: code, Enh: enh, Msg: m})
				}
			}
		}
		for _, m := range msgs {
			if m != "" {
				cases = append(cases, C17Case{Callback: cb, Enh: "plain", Msg: m, Code: 0})
			}
		}
	}
	h.ParallelFor(len(cases), func(i int) {
		c := cases[i]
		f := evalC17(c)
		run.Eval(true)
		if f != nil {
			run.Violate("c17", c, f, func() *h.Finding { return evalC17(c) })
			run.Outcome("violation:" + f.Sig)
		} else {
			run.Outcome(c.Callback + ":" + c.Enh)
		}
		if i%211 == 3 {
			run.Sample("case", 6, c)
		}
	})
	return run.Finish()
}
