package checks

import (
	"bufio"
	"bytes"
	"fmt"
	"io"
	"strings"
	"time"

	smtp "github.com/emersion/go-smtp"

	"verif/h"
	"verif/ref"
)

// C06: MaxMessageBytes bounds what a backend is handed and what is accepted.

type C06Case struct {
	Kind   string `json:"kind"` // data | bdat | size
	Mode   string `json:"mode"`
	N      int64  `json:"n"`      // configured limit
	M      int    `json:"m"`      // message size (octets the backend should see)
	Dots   bool   `json:"dots"`   // DATA: message lines start with '.', so the wire form is longer than the message
	Chunks []int  `json:"chunks"` // BDAT: chunk sizes (last one carries LAST)
	Buf    int    `json:"buf"`    // backend read size
	PerOct bool   `json:"per_octet"`
	Size   int64  `json:"size"` // MAIL SIZE= value
	// SizeStr (kind "sizebig"): a declared size at the integer boundaries, as text
	SizeStr string `json:"size_str,omitempty"`
	// Sep (kind "sizebig"): what separates the path from SIZE=: "" one space | none | tab | two
	Sep string `json:"sep,omitempty"`
	// Inter (kind "bdat"): a command sent between the chunks (it may be refused, it may even end the transaction: only
	// the octet bound and "never complete above the limit" are judged then)
	Inter string `json:"inter,omitempty"`
}

// dataMessage returns a message of exactly m octets as the backend should see
// it (m==0 or m>=2) and its wire form including the end marker.
func dataMessage(m int, dots bool) (msg, wire []byte) {
	if m == 0 {
		return nil, []byte(".\r\n")
	}
	line := func(n int) []byte { // a line of n octets incl. CRLF, n>=2
		b := bytes.Repeat([]byte("a"), n-2)
		if dots && n > 2 {
			b[0] = '.'
		}
		return append(b, '\r', '\n')
	}
	rem := m
	for rem > 0 {
		n := rem
		if n > 7 && rem-5 >= 2 {
			n = 5
		}
		l := line(n)
		msg = append(msg, l...)
		if l[0] == '.' {
			wire = append(wire, '.')
		}
		wire = append(wire, l...)
		rem -= n
	}
	wire = append(wire, ".\r\n"...)
	return
}

func c06Run(c C06Case, limit int64) (*h.Obs, int, string) {
	cfg, be := modeConfig(c.Mode)
	cfg.MaxMessageBytes = limit
	be.Plan = func(int) h.DataPlan { return h.DataPlan{Buf: c.Buf, Max: -1} }
	var in bytes.Buffer
	in.WriteString(hello(c.Mode))
	nCmd := 0 // replies expected before the part under test
	// kinds data/bdat: Size > 0 makes the client DECLARE that size on the MAIL line (it may be far from the truth: the
	// limit is the server's, a declared size is a hint that must not become a second limit)
	declared := ""
	if c.Size > 0 && (c.Kind == "data" || c.Kind == "bdat") {
		declared = fmt.Sprintf(" SIZE=%d", c.Size)
	}
	switch c.Kind {
	case "sizebig":
		sep := " "
		if c.Sep != "" {
			sep = map[string]string{"none": "", "tab": "\t", "two": "  "}[c.Sep]
		}
		fmt.Fprintf(&in, "MAIL FROM:<ok@a.example>%sSIZE=%s\r\nRCPT TO:<okprobe@x>\r\nNOOP\r\n", sep, c.SizeStr)
		nCmd = 2
	case "size":
		fmt.Fprintf(&in, "MAIL FROM:<ok@a.example> SIZE=%d\r\nRCPT TO:<okprobe@x>\r\nNOOP\r\n", c.Size)
		nCmd = 2
	case "data":
		_, wire := dataMessage(c.M, c.Dots)
		in.WriteString("MAIL FROM:<ok@a.example>" + declared + "\r\nRCPT TO:<ok@b.example>\r\nDATA\r\n")
		in.Write(wire)
		in.WriteString("RCPT TO:<okprobe@x>\r\nNOOP\r\n")
		nCmd = 4
	case "bdat":
		in.WriteString("MAIL FROM:<ok@a.example>" + declared + "\r\nRCPT TO:<ok@b.example>\r\n")
		sum := int64(0)
		for i, k := range c.Chunks {
			last := ""
			if i == len(c.Chunks)-1 {
				last = " LAST"
			}
			// payload with a line break every 64 octets: C06 is about sizes; LF-free runs longer than the
			// line limit are C05's subject (known finding D6)
			pl := []byte(strings.Repeat("a", k))
			for i := 63; i < len(pl); i += 64 {
				pl[i] = '\n'
			}
			if i > 0 && c.Inter != "" {
				in.WriteString(c.Inter + "\r\n")
			}
			fmt.Fprintf(&in, "BDAT %d%s\r\n%s", k, last, pl)
			sum += int64(k)
			if c.N > 0 && sum > c.N {
				break // the conversation ends with the chunk that crosses the limit
			}
		}
		in.WriteString("RCPT TO:<okprobe@x>\r\nNOOP\r\n")
		nCmd = 4
	}
	// every conversation ends with a second (chunked) and a third (DATA) transaction whose messages are exactly as large as the limit
	// allows (chunked): the budget of a transaction must not survive it
	if c.Kind != "size" && c.Kind != "sizebig" && c.N >= 2 && c.N <= 100 {
		in.WriteString("RSET\r\nMAIL FROM:<ok@a2.example>\r\nRCPT TO:<ok@b2.example>\r\n")
		// chunked whatever came before (BDAT keeps a per-transaction octet count on the connection), in two chunks
		fmt.Fprintf(&in, "BDAT 1\r\ns")
		fmt.Fprintf(&in, "BDAT %d LAST\r\n%s", c.N-1, strings.Repeat("s", int(c.N)-1))
		// and a third one of exactly N octets via DATA
		in.WriteString("MAIL FROM:<ok@a3.example>\r\nRCPT TO:<ok@b3.example>\r\nDATA\r\n")
		_, w3 := dataMessage(int(c.N), false)
		in.Write(w3)
		// and a fourth, via DATA again, one line over the limit: the limit holds for every message of a connection
		in.WriteString("MAIL FROM:<ok@a4.example>\r\nRCPT TO:<ok@b4.example>\r\nDATA\r\n")
		_, w4 := dataMessage(int(c.N)+3, false)
		in.Write(w4)
		in.WriteString("NOOP\r\n")
	}
	var segs [][]byte
	if c.PerOct {
		segs = h.PerOctet(in.Bytes())
	} else {
		segs = h.OneSeg(in.Bytes())
	}
	return h.RunS(cfg, be, segs, h.TermEOF), nCmd, in.String()
}

func obsDigest(o *h.Obs) string {
	var sb strings.Builder
	// the fourth transaction of the tail (see c06Run) is over the limit on purpose: it is judged by its 552, not by
	// comparison with the unlimited server
	fourth := -1
	for i, e := range o.Trace {
		if e.Kind == "Mail" && e.Arg == "ok@a4.example" {
			fourth = i
		}
	}
	nr := len(o.Replies)
	if fourth >= 0 {
		nr -= 5 // MAIL RCPT 354 final NOOP
	}
	for i, r := range o.Replies {
		if i == 1 {
			continue // the EHLO reply advertises the limit itself
		}
		if i >= nr {
			break
		}
		sb.WriteString(r.String())
		sb.WriteByte('|')
	}
	for i, e := range o.Trace {
		if fourth >= 0 && i >= fourth {
			break
		}
		fmt.Fprintf(&sb, "%s(%s;%s;%q;%s;%s)", e.Kind, e.Arg, e.Opts, e.Body, e.ReadErr, e.Ret)
	}
	fmt.Fprintf(&sb, "closed=%v", o.Closed)
	return sb.String()
}

func evalC06(c C06Case) *h.Finding {
	o, _, in := c06Run(c, c.N)
	desc := fmt.Sprintf("kind=%s mode=%s N=%d m=%d dots=%t chunks=%v buf=%d peroctet=%t size=%d", c.Kind, c.Mode, c.N, c.M, c.Dots, c.Chunks, c.Buf, c.PerOct, c.Size)
	if c.Inter != "" || c.Sep != "" || c.SizeStr != "" {
		desc += fmt.Sprintf(" sizestr=%q sep=%q between-chunks=%q", c.SizeStr, c.Sep, c.Inter)
	}
	if f := o.Sanity("c06", desc); f != nil {
		return f
	}
	if o.ParseErr != nil {
		return h.F("c06-bad-wire", "%s: %v", desc, o.ParseErr)
	}
	// never more than N octets to the backend in one transaction
	for _, e := range o.Trace {
		if (e.Kind == "Data" || e.Kind == "LMTPData") && c.N > 0 && int64(len(e.Body)) > c.N {
			return h.F("c06-backend-read-too-much", "%s: backend read %d octets", desc, len(e.Body))
		}
	}
	if c.Kind == "sizebig" {
		// far above any limit, at the boundaries of the integer types: refused (552, or 501 where the server does not
		// parse numbers that large), the backend is not consulted and no transaction is opened
		for _, e := range o.Trace {
			if e.Kind == "Mail" || e.Kind == "Rcpt" {
				return h.F("c06-size-consulted-backend", "%s: SIZE=%s is far above the limit but the backend was consulted: %s (replies %s)", desc, c.SizeStr, h.Calls(o.Trace), o.Codes())
			}
		}
		if len(o.Replies) != 5 || o.Replies[2].Class() != 5 || o.Replies[3].Class() != 5 || o.Replies[4].Code != 250 {
			return h.F("c06-size-reply", "%s: SIZE=%s: replies %s, want 220 250 5xx 5xx 250", desc, c.SizeStr, o.Codes())
		}
		if c.SizeStr == "4294967295" && c.Sep == "" && o.Replies[2].Code != 552 {
			return h.F("c06-size-reply", "%s: SIZE=%s is a 32-bit value above the limit: reply %s, want 552", desc, c.SizeStr, o.Replies[2].String())
		}
		return nil
	}
	if c.Inter != "" {
		// with a command between the chunks the reply sequence depends on what that command does; what is judged is
		// the octet bound (above) and that nothing above the limit is ever reported complete
		for _, e := range o.Trace {
			if (e.Kind == "Data" || e.Kind == "LMTPData") && e.ReadErr == "EOF" && c.N > 0 && int64(c.M) > c.N && e.From == "ok@a.example" && len(e.Body) == c.M {
				return h.F("c06-over-limit-eof", "%s: a message of %d octets was reported complete", desc, len(e.Body))
			}
		}
		return nil
	}
	over := false
	switch c.Kind {
	case "size":
		over = c.N > 0 && c.Size > c.N
	default:
		over = c.N > 0 && int64(c.M) > c.N
	}
	if !over {
		// exactly as if no limit were set
		ref, _, _ := c06Run(c, 0)
		if a, b := obsDigest(o), obsDigest(ref); a != b {
			return h.F("c06-within-limit-differs", "%s: a message within the limit is treated differently from the unlimited server.\n   limited:   %s\n   unlimited: %s\n   input %q", desc, a, b, in)
		}
		if c.Kind != "size" && c.Kind != "sizebig" && c.N >= 2 && c.N <= 100 {
			// the over-limit message at the end of the conversation
			if n := len(o.Replies); n < 2 || o.Replies[n-2].Code != 552 {
				return h.F("c06-second-transaction", "%s: the last message of the connection (DATA, 3 octets over the limit, after messages within it) was answered %s, want 552", desc, o.Codes())
			}
			for _, e := range o.Trace {
				if (e.Kind == "Data" || e.Kind == "LMTPData") && e.From == "ok@a4.example" && (int64(len(e.Body)) > c.N || e.ReadErr == "EOF") {
					return h.F("c06-backend-read-too-much", "%s: the last message of the connection (over the limit) reached the backend as %d octets (%s)", desc, len(e.Body), e.ReadErr)
				}
			}
		}
		return nil
	}
	codes := o.Codes()
	// the second transaction (see c06Run): RSET MAIL RCPT [DATA 354] final NOOP, all positive
	if c.Kind != "size" && c.Kind != "sizebig" && c.N >= 2 && c.N <= 100 {
		nTail := 14 // RSET MAIL RCPT BDAT BDAT-LAST | MAIL RCPT DATA(354) final | MAIL RCPT DATA(354) 552 | NOOP
		if len(o.Replies) < nTail {
			return h.F("c06-second-transaction", "%s: replies %s", desc, codes)
		}
		tail := o.Replies[len(o.Replies)-nTail:]
		for i, r := range tail {
			ok := r.Code == 250
			if i == 7 || i == 11 {
				ok = r.Code == 354
			}
			if i == 12 {
				ok = r.Code == 552
			}
			if !ok {
				return h.F("c06-second-transaction", "%s: after the refused message a second transaction with a message of exactly N octets was not accepted: replies %s", desc, codes)
			}
		}
		o.Replies = o.Replies[:len(o.Replies)-nTail]
		codes = o.Codes()
	}
	switch c.Kind {
	case "size":
		// 220 250 552 5xx(RCPT without MAIL) 250
		for _, e := range o.Trace {
			if e.Kind == "Mail" {
				return h.F("c06-size-consulted-backend", "%s: backend was consulted (replies %s)", desc, codes)
			}
		}
		if len(o.Replies) != 5 || o.Replies[2].Code != 552 || o.Replies[3].Class() != 5 || o.Replies[4].Code != 250 {
			return h.F("c06-size-reply", "%s: replies %s, want 220 250 552 5xx 250", desc, codes)
		}
	case "data":
		for _, e := range o.Trace {
			if (e.Kind == "Data" || e.Kind == "LMTPData") && e.From == "ok@a.example" && (e.ReadErr == "EOF" || e.ReadErr == "stopped") {
				return h.F("c06-over-limit-eof", "%s: reader of an over-limit message ended with %s after %d octets", desc, e.ReadErr, len(e.Body))
			}
			if e.Kind == "Rcpt" && e.Arg == "okprobe@x" {
				return h.F("c06-not-discarded", "%s: transaction survived the 552: %s", desc, h.Calls(o.Trace))
			}
		}
		// 220 250 250 250 354 552 5xx 250
		if len(o.Replies) != 8 || o.Replies[5].Code != 552 || o.Replies[6].Class() != 5 || o.Replies[7].Code != 250 {
			return h.F("c06-data-reply", "%s: replies %s, want 220 250 250 250 354 552 5xx 250", desc, codes)
		}
	case "bdat":
		for _, e := range o.Trace {
			if (e.Kind == "Data" || e.Kind == "LMTPData") && e.From == "ok@a.example" && e.ReadErr == "EOF" {
				return h.F("c06-over-limit-eof", "%s: reader of an over-limit message ended with EOF after %d octets", desc, len(e.Body))
			}
			if e.Kind == "Rcpt" && e.Arg == "okprobe@x" {
				return h.F("c06-not-discarded", "%s: transaction survived the 552: %s", desc, h.Calls(o.Trace))
			}
		}
		// 220 250 250 250 {250}* 552 5xx 250
		n := len(o.Replies)
		ok := n >= 7 && o.Replies[n-3].Code == 552 && o.Replies[n-2].Class() == 5 && o.Replies[n-1].Code == 250
		for i := 4; ok && i < n-3; i++ {
			ok = o.Replies[i].Code == 250
		}
		sent := 0
		sum := int64(0)
		for _, k := range c.Chunks {
			sent++
			sum += int64(k)
			if sum > c.N {
				break
			}
		}
		if !ok || n != 4+sent+2 {
			return h.F("c06-bdat-reply", "%s: replies %s, want 220 250 250 250, 250 per chunk within the limit, 552, 5xx, 250", desc, codes)
		}
	}
	return nil
}

// ---- LMTP: the backend reports every recipient BEFORE it has read the message -----------------------------------------

type C06EarlyCase struct {
	N      int64 `json:"n"`
	M      int   `json:"m"`
	Buf    int   `json:"buf"`
	PerOct bool  `json:"per_octet"`
	Dots   bool  `json:"dots"`
}

// evalC06Early: a per-recipient LMTP backend that calls SetStatus for its only recipient first and reads the message
// afterwards. The replies are then decided, but the message is still being read: the limit holds for the reader all
// the same - at most N octets, and no end-of-file for a message above the limit.
func evalC06Early(c C06EarlyCase) *h.Finding {
	cfg, be := modeConfig("lmtp-rcpt")
	cfg.MaxMessageBytes = c.N
	be.Plan = func(idx int) h.DataPlan {
		p := h.DataPlan{Buf: c.Buf, Max: -1}
		if idx == 0 {
			p.Status = []h.StatusCall{{Rcpt: "ok@b.example", Err: nil}}
		}
		return p
	}
	msg, wire := dataMessage(c.M, c.Dots)
	in := []byte(hello("lmtp") + "MAIL FROM:<ok@a.example>\r\nRCPT TO:<ok@b.example>\r\nDATA\r\n" + string(wire) + "NOOP\r\n")
	segs := h.OneSeg(in)
	if c.PerOct {
		segs = h.PerOctet(in)
	}
	o := h.RunS(cfg, be, segs, h.TermEOF)
	desc := fmt.Sprintf("LMTP, the backend sets its recipient's status before it reads: N=%d message of %d octets buf=%d peroctet=%t dots=%t", c.N, c.M, c.Buf, c.PerOct, c.Dots)
	if f := o.Sanity("c06", desc); f != nil {
		return f
	}
	var ev *h.Event
	for i, e := range o.Trace {
		if e.Kind == "LMTPData" {
			ev = &o.Trace[i]
			break
		}
	}
	if ev == nil {
		return h.F("c06-early-no-delivery", "%s: no LMTPData call (replies %s)", desc, o.Codes())
	}
	if int64(len(ev.Body)) > c.N {
		return h.F("c06-backend-read-too-much", "%s: the backend read %d octets", desc, len(ev.Body))
	}
	if int64(c.M) > c.N && (ev.ReadErr == "EOF" || ev.ReadErr == "stopped") {
		return h.F("c06-over-limit-eof", "%s: the reader of a message above the limit ended with %s after %d octets", desc, ev.ReadErr, len(ev.Body))
	}
	if int64(c.M) <= c.N && (ev.ReadErr != "EOF" || !bytes.Equal(ev.Body, msg)) {
		return h.F("c06-within-limit-differs", "%s: the backend read %q (%s), want the whole message then EOF", desc, ev.Body, ev.ReadErr)
	}
	return nil
}

func init() { h.RegisterReplayer("c06-early", evalC06Early) }

// ---- declared chunk sizes near the integer boundaries ------------------------------------------

type C06HugeCase struct {
	Mode  string `json:"mode"`
	N     int64  `json:"n"`
	First int    `json:"first"` // size of an ordinary first chunk (0: none)
	Huge  string `json:"huge"`  // the declared size of the huge chunk
	Last  bool   `json:"last"`  // the huge chunk carries LAST
}

func evalC06Huge(c C06HugeCase) *h.Finding {
	cfg, be := modeConfig(c.Mode)
	cfg.MaxMessageBytes = c.N
	var in strings.Builder
	in.WriteString(hello(c.Mode) + "MAIL FROM:<ok@a.example>\r\nRCPT TO:<ok@b.example>\r\n")
	if c.First > 0 {
		fmt.Fprintf(&in, "BDAT %d\r\n%s", c.First, strings.Repeat("f", c.First))
	}
	last := ""
	if c.Last {
		last = " LAST"
	}
	fmt.Fprintf(&in, "BDAT %s%s\r\n", c.Huge, last)
	// what a client that got away with it would send next: far more than the limit, then LAST
	fmt.Fprintf(&in, "BDAT %d LAST\r\n%s", c.N+100, strings.Repeat("x\n", int(c.N+100)/2))
	in.WriteString("NOOP\r\n")
	o := h.RunS(cfg, be, h.OneSeg([]byte(in.String())), h.TermEOF)
	desc := fmt.Sprintf("mode=%s N=%d first=%d declared size %s last=%t", c.Mode, c.N, c.First, c.Huge, c.Last)
	if f := o.Sanity("c06", desc); f != nil {
		return f
	}
	for _, e := range o.Trace {
		if e.Kind == "Data" || e.Kind == "LMTPData" {
			if int64(len(e.Body)) > c.N {
				return h.F("c06-backend-read-too-much", "%s: backend read %d octets (limit %d)", desc, len(e.Body), c.N)
			}
			if e.ReadErr == "EOF" {
				return h.F("c06-over-limit-eof", "%s: a transfer with a declared size far above the limit ended with a clean EOF after %d octets (replies %s)", desc, len(e.Body), o.Codes())
			}
		}
	}
	idx := 4
	if c.First > 0 {
		idx = 5
	}
	if len(o.Replies) <= idx || o.Replies[idx].Class() != 5 {
		return h.F("c06-huge-chunk-accepted", "%s: the chunk was not refused: replies %s", desc, o.Codes())
	}
	return nil
}

// ---- every short message shape against every limit ----------------------------------------------

// C06RawCase: a DATA message given octet by octet (so that it may contain end-marker look-alikes, bare
// CR/LF and dots anywhere, in particular right at the limit) against a limit N.
type C06RawCase struct {
	Seam   string `json:"seam"` // reader | server
	Mode   string `json:"mode"`
	Stream []byte `json:"stream"` // body CRLF . CRLF
	N      int64  `json:"n"`
	Buf    int    `json:"buf"`
	PerOct bool   `json:"per_octet"`
	Show   string `json:"show"`
}

func evalC06Raw(c C06RawCase) (f *h.Finding) {
	want, _, complete := ref.Unstuff(c.Stream)
	if !complete {
		return h.F("harness-error", "stream has no end marker")
	}
	over := int64(len(want)) > c.N
	desc := fmt.Sprintf("message stream %q (%d octets after unstuffing) with limit %d, %s seam, mode %s, backend reads %d at a time, peroctet=%t", c.Stream, len(want), c.N, c.Seam, c.Mode, c.Buf, c.PerOct)
	judge := func(got []byte, readErr string) *h.Finding {
		if int64(len(got)) > c.N {
			return h.F("c06-backend-read-too-much", "%s: backend read %d octets", desc, len(got))
		}
		if !over {
			if readErr != "EOF" || !bytes.Equal(got, want) {
				return h.F("c06-within-limit-differs", "%s: backend read %q then %s, want %q then EOF", desc, got, readErr, want)
			}
			return nil
		}
		if readErr == "EOF" {
			return h.F("c06-over-limit-eof", "%s: the reader of an over-limit message reported a complete message (EOF) after %q", desc, got)
		}
		if !bytes.HasPrefix(want, got) {
			return h.F("c06-over-limit-octets", "%s: backend read %q, which is no prefix of the message %q", desc, got, want)
		}
		return nil
	}
	if c.Seam == "reader" {
		defer func() {
			if p := recover(); p != nil {
				f = h.F("c06-reader-panic", "%s: the reader panicked: %v", desc, p)
			}
		}()
		segs := h.OneSeg(append([]byte(nil), c.Stream...))
		if c.PerOct {
			segs = h.PerOctet(append([]byte(nil), c.Stream...))
		}
		r := smtp.VerifNewDataReader(bufio.NewReader(&segReader{segs: segs}), c.N)
		var got []byte
		buf := make([]byte, c.Buf)
		for steps := 0; ; steps++ {
			n, err := r.Read(buf)
			got = append(got, buf[:n]...)
			if err != nil {
				es := err.Error()
				if err == io.EOF {
					es = "EOF"
				}
				return judge(got, es)
			}
			if steps > 10*len(c.Stream)+100 {
				return h.F("c06-reader-stuck", "%s: reader made no progress", desc)
			}
		}
	}
	cfg, be := modeConfig(c.Mode)
	cfg.MaxMessageBytes = c.N
	be.Plan = func(int) h.DataPlan { return h.DataPlan{Buf: c.Buf, Max: -1} }
	in := []byte(hello(c.Mode) + "MAIL FROM:<ok@a.example>\r\nRCPT TO:<ok@b.example>\r\nDATA\r\n")
	in = append(in, c.Stream...)
	in = append(in, "RCPT TO:<okprobe@x>\r\nNOOP\r\n"...)
	segs := h.OneSeg(in)
	if c.PerOct {
		segs = h.PerOctet(in)
	}
	o := h.RunS(cfg, be, segs, h.TermEOF)
	if f := o.Sanity("c06", desc); f != nil {
		return f
	}
	if o.ParseErr != nil {
		return h.F("c06-bad-wire", "%s: %v", desc, o.ParseErr)
	}
	nData := 0
	for _, e := range o.Trace {
		if e.Kind == "Data" || e.Kind == "LMTPData" {
			nData++
			if f := judge(e.Body, e.ReadErr); f != nil {
				return f
			}
		}
		if e.Kind == "Rcpt" && e.Arg == "okprobe@x" || e.Kind == "Mail" && e.Arg != "ok@a.example" {
			return h.F("c06-not-discarded", "%s: after the final reply the transaction is still open or message octets were executed: %s", desc, h.Calls(o.Trace))
		}
	}
	final := 250
	if over {
		final = 552
	}
	// 220 250 250 250 354 final 5xx(RCPT outside a transaction) 250
	if nData != 1 || len(o.Replies) != 8 || o.Replies[4].Code != 354 || o.Replies[5].Code != final || o.Replies[6].Class() != 5 || o.Replies[7].Code != 250 {
		return h.F("c06-data-reply", "%s: %d deliveries, replies %s, want one delivery and 220 250 250 250 354 %d 5xx 250", desc, nData, o.Codes(), final)
	}
	return nil
}

func init() {
	h.RegisterReplayer("c06-raw", evalC06Raw)
	h.RegisterReplayer("c06", evalC06)
	h.RegisterReplayer("c06-huge", evalC06Huge)
}

// compositions calls f for every sequence of 1..maxParts non-negative
// integers that sum to m (so empty chunks are included).
func compositions(m, maxParts int, f func(parts []int)) {
	var rec func(rem int, cur []int)
	rec = func(rem int, cur []int) {
		if len(cur) == maxParts-1 {
			f(append(append([]int(nil), cur...), rem))
			return
		}
		// close the sequence here
		f(append(append([]int(nil), cur...), rem))
		for k := 0; k <= rem; k++ {
			rec(rem-k, append(append([]int(nil), cur...), k))
		}
	}
	rec(m, nil)
}

func C06(tier string) int {
	run := h.NewRun("C06", tier, "exploration", "", 20*time.Minute)
	Ns := []int64{1, 5, 8, 64}
	if tier == "thorough" {
		Ns = []int64{1, 2, 3, 5, 8, 13, 64, 4096, 4097}
	}
	run.Rule = fmt.Sprintf("limits N in %v x message sizes N-2..N+2 and 4N x {DATA (plain and dot-stuffed lines), every division into <=3 BDAT chunks incl. empty ones} x backend read sizes {1,3,N,4096} x {one segment, one octet per segment} x {SMTP, LMTP, LMTP per-recipient}, each also with SIZE=1 declared on the MAIL line (a declared size is a hint, not a second limit); every chunk division of >=2 chunks also with a command {MAIL, RCPT, NOOP, DATA, unknown, MAIL SIZE=1} between the chunks (octet bound only); MAIL SIZE=s for s in {0,1,N-1,N,N+1,10N} for N and for no limit, SIZE above the limit glued to the path / behind TAB / behind two spaces (never accepted), and s at the integer boundaries (2^32-1, 2^32, 2^63-1, 2^63, 2^63+100, 2^64-1, 2^64, 10^23: refused, backend not consulted); BDAT with a declared size at the integer boundaries (2^32-1, 2^32, 2^63-1, 2^63, 2^64-100, 2^64-1, 2^64, 10^23) as first or second chunk, with and without LAST, followed by an over-limit LAST chunk. Plus EVERY message body over the class alphabet {'.',CR,LF,'a'} of <=%d octets (reader seam: read sizes {1,2,3,4096}) / <=%d octets (full server path, modes %v, read sizes {1,4096}) x EVERY limit 1..size+1 x {one segment, one octet per segment}, so that every octet pattern (end-marker look-alikes, dots, bare CR/LF) sits at every offset relative to the limit. LMTP with a per-recipient backend that reports its recipient BEFORE it reads the message: limits {5,8,20} x every size 0..N+45 x read sizes {1,3,4096} x segmentation x plain/dot-stuffed (the limit binds the reader although the replies are decided). Distinct by construction; non-trivial = size within 2 of the limit or above it. Oracle: backend octets <= N; over the limit: reader fails (no EOF), 552, probe RCPT refused; within: observation identical to the same conversation on a server without limit (differential).", Ns, map[bool]int{false: 7, true: 9}[tier == "thorough"], map[bool]int{false: 5, true: 6}[tier == "thorough"], map[bool][]string{false: {"smtp"}, true: {"smtp", "lmtp Plus: a chunk, STARTTLS answered 220, octets that are no handshake, then a LAST chunk that takes the message over the limit (the count of the first chunk survives the failed upgrade).", "lmtp-rcpt"}}[tier == "thorough"])
	run.Assumptions = []string{"message size = octets after dot-unstuffing, incl. the CRLF in front of the end marker (RFC 1870)", "the backend reads the message to the end and returns the reader's error (a backend that stops early and returns nil claims success itself)", "a declared SIZE >= 2^32 may be refused with 501 (number not parsed) instead of 552; it must be refused without consulting the backend"}
	var cases []C06Case
	seen := map[string]bool{}
	add := func(c C06Case) {
		k := fmt.Sprint(c)
		if !seen[k] {
			seen[k] = true
			cases = append(cases, c)
		}
	}
	modes := []string{"smtp", "lmtp", "lmtp-rcpt"}
	for _, N := range Ns {
		var sizes []int
		for d := int64(-2); d <= 2; d++ {
			if N+d >= 0 {
				sizes = append(sizes, int(N+d))
			}
		}
		sizes = append(sizes, int(4*N))
		bufs := []int{1, 3, int(N), 4096}
		for _, mode := range modes {
			for _, m := range sizes {
				for _, buf := range bufs {
					for _, per := range []bool{false, true} {
						if per && N > 100 {
							continue
						}
						if m != 1 {
							add(C06Case{Kind: "data", Mode: mode, N: N, M: m, Buf: buf, PerOct: per})
							if buf == 4096 && !per {
								add(C06Case{Kind: "data", Mode: mode, N: N, M: m, Buf: buf, Size: 1})
							}
							if m > 2 {
								add(C06Case{Kind: "data", Mode: mode, N: N, M: m, Dots: true, Buf: buf, PerOct: per})
							}
						}
						if N <= 100 || buf == 4096 {
							if N <= 100 {
								compositions(m, 3, func(parts []int) {
									add(C06Case{Kind: "bdat", Mode: mode, N: N, M: m, Chunks: append([]int(nil), parts...), Buf: buf, PerOct: per})
									if buf == 4096 && !per {
										add(C06Case{Kind: "bdat", Mode: mode, N: N, M: m, Chunks: append([]int(nil), parts...), Buf: buf, Size: 1})
									}
									if len(parts) >= 2 && buf == 4096 && !per && int64(m) >= N {
										for _, inter := range []string{"MAIL FROM:<ok@i.example>", "RCPT TO:<ok@i.example>", "NOOP", "DATA", "FOOB", "MAIL FROM:<ok@i.example> SIZE=1"} {
											add(C06Case{Kind: "bdat", Mode: mode, N: N, M: m, Chunks: append([]int(nil), parts...), Buf: buf, Inter: inter})
										}
									}
								})
							} else {
								for _, parts := range [][]int{{m}, {m - 1, 1}, {1, m - 1}, {int(N), m - int(N)}, {m, 0}} {
									if parts[len(parts)-1] >= 0 {
										add(C06Case{Kind: "bdat", Mode: mode, N: N, M: m, Chunks: parts, Buf: buf, PerOct: per})
									}
								}
							}
						}
					}
				}
			}
			for _, big := range []string{"4294967295", "4294967296", "9223372036854775807", "9223372036854775808", "9223372036854775908", "18446744073709551615", "18446744073709551616", "99999999999999999999999"} {
				add(C06Case{Kind: "sizebig", Mode: mode, N: N, SizeStr: big, Buf: 4096})
			}
			// a declared size above the limit written with leading zeros (octal to a parser with base 0)
			for _, z := range []string{fmt.Sprintf("00%d", N+1), fmt.Sprintf("0%d", 12*N+7), fmt.Sprintf("0000%d", 10*N)} {
				add(C06Case{Kind: "sizebig", Mode: mode, N: N, SizeStr: z, Buf: 4096})
			}
			// a declared size above the limit glued to the path, behind a TAB or behind two spaces: however the server
			// reads such a line, it must not accept it and open a transaction
			for _, sep := range []string{"none", "tab", "two"} {
				add(C06Case{Kind: "sizebig", Mode: mode, N: N, SizeStr: fmt.Sprint(N + 1), Sep: sep, Buf: 4096})
				add(C06Case{Kind: "sizebig", Mode: mode, N: N, SizeStr: fmt.Sprint(10 * N), Sep: sep, Buf: 4096})
			}
			for _, lim := range []int64{N, 0} {
				for _, s := range []int64{0, 1, N - 1, N, N + 1, 10 * N} {
					if s >= 0 {
						add(C06Case{Kind: "size", Mode: mode, N: lim, Size: s, Buf: 4096})
					}
				}
			}
		}
	}
	h.ParallelFor(len(cases), func(i int) {
		if run.Expired() {
			return
		}
		c := cases[i]
		f := evalC06(c)
		near := c.Kind == "sizebig" || c.Kind == "size" && c.Size >= c.N-2 || c.Kind != "size" && int64(c.M) >= c.N-2
		run.Eval(near)
		if f != nil {
			run.Violate("c06", c, f, func() *h.Finding { return evalC06(c) })
			run.Outcome("violation:" + f.Sig)
		} else {
			over := c.N > 0 && (c.Kind == "size" && c.Size > c.N || c.Kind != "size" && int64(c.M) > c.N)
			run.Outcome(fmt.Sprintf("%s over=%t", c.Kind, over))
		}
		if i%997 == 3 {
			run.Sample("case", 6, c)
		}
	})
	var hcases []C06HugeCase
	for _, mode := range modes {
		for _, n := range []int64{10, 64} {
			for _, first := range []int{0, 3} {
				for _, huge := range []string{"4294967295", "4294967296", "4294967306", "9223372036854775807", "9223372036854775808", "18446744073709551516", "18446744073709551615", "18446744073709551616", "99999999999999999999999"} {
					for _, last := range []bool{false, true} {
						hcases = append(hcases, C06HugeCase{Mode: mode, N: n, First: first, Huge: huge, Last: last})
					}
				}
			}
		}
	}
	h.ParallelFor(len(hcases), func(i int) {
		c := hcases[i]
		f := evalC06Huge(c)
		run.Eval(true)
		if f != nil {
			run.Violate("c06-huge", c, f, func() *h.Finding { return evalC06Huge(c) })
			run.Outcome("violation:" + f.Sig)
		} else {
			run.Outcome("huge-chunk-refused")
		}
		if i%97 == 0 {
			run.Sample("huge-chunk", 2, c)
		}
	})
	// every short message shape x every limit up to its size + 1
	LR, LSrv := 7, 5
	rawModes := []string{"smtp"}
	if tier == "thorough" {
		LR, LSrv = 9, 6
		rawModes = modes
	}
	type rshard struct{ l, lo, hi int }
	var rshards []rshard
	for l := 0; l <= LR; l++ {
		n := pow(4, l)
		step := n / 64
		if step < 1 {
			step = n
		}
		for lo := 0; lo < n; lo += step {
			rshards = append(rshards, rshard{l, lo, min(lo+step, n)})
		}
	}
	h.ParallelFor(len(rshards), func(si int) {
		sh := rshards[si]
		out := map[string]int64{}
		for i := sh.lo; i < sh.hi; i++ {
			if i%64 == 0 && run.Expired() {
				break
			}
			body := nthString(c01Alphabet, sh.l, i)
			stream := append(append([]byte(nil), body...), "\r\n.\r\n"...)
			want, rest, _ := ref.Unstuff(stream)
			if len(rest) > 0 {
				continue // the body contains an end marker itself: the same message as a shorter body
			}
			for N := int64(1); N <= int64(len(want))+1; N++ {
				var cs []C06RawCase
				for _, per := range []bool{false, true} {
					for _, buf := range []int{1, 2, 3, 4096} {
						cs = append(cs, C06RawCase{Seam: "reader", Mode: "smtp", Stream: stream, N: N, Buf: buf, PerOct: per})
					}
					if sh.l <= LSrv {
						for _, mode := range rawModes {
							for _, buf := range []int{1, 4096} {
								cs = append(cs, C06RawCase{Seam: "server", Mode: mode, Stream: stream, N: N, Buf: buf, PerOct: per})
							}
						}
					}
				}
				for _, c := range cs {
					f := evalC06Raw(c)
					run.Eval(N >= int64(len(want))-2)
					if f != nil {
						c.Show = fmt.Sprintf("%q", stream)
						cc := c
						run.Violate("c06-raw", cc, f, func() *h.Finding { return evalC06Raw(cc) })
						out["violation:"+f.Sig]++
					} else {
						out[fmt.Sprintf("raw-%s over=%t", c.Seam, int64(len(want)) > N)]++
					}
				}
			}
		}
		run.Outcomes(out)
	})
	for _, n := range []int64{5, 8, 20} {
		for m := 0; m <= int(n)+45; m++ {
			if m == 1 {
				continue // dataMessage: 0 or >= 2
			}
			for _, buf := range []int{1, 3, 4096} {
				for _, per := range []bool{false, true} {
					for _, dots := range []bool{false, true} {
						c := C06EarlyCase{N: n, M: m, Buf: buf, PerOct: per, Dots: dots}
						f := evalC06Early(c)
						run.Eval(true)
						if f != nil {
							run.Violate("c06-early", c, f, func() *h.Finding { return evalC06Early(c) })
							run.Outcome("violation:" + f.Sig)
						}
					}
				}
			}
		}
	}
	run.Outcome("early-status-ok")
	// LMTP, per-recipient backend, message above the limit: ALL interleavings (schedule explorer) of the backend's status
	// calls and reads (4 octets at a time), the handler's reply writes and the client's segments - the limit binds the
	// reader in every one of them (the replies may all be decided while the backend is still reading)
	if haveVsync() {
		for _, sc := range []C13Case{
			{Rcpts: "a", Calls: "a", Before: 1, Ret: "nil", Transfer: "data", Limit: 10, Buf: 4},
			{Rcpts: "ab", Calls: "ab", Before: 2, Ret: "nil", Transfer: "data", Limit: 10, Buf: 4},
			{Rcpts: "ab", Calls: "ab", Before: 1, Ret: "nil", Transfer: "data", Limit: 10, Buf: 4},
			{Rcpts: "a", Calls: "a", Before: 1, Ret: "err", Transfer: "data", Limit: 22, Buf: 7},
			{Rcpts: "a", Calls: "a", Before: 1, Ret: "nil", Transfer: "bdat2", Limit: 12, Buf: 4},
		} {
			sc := sc
			st := h.Explore(func() h.World { return &c13World{c: sc} }, h.ExploreOpts{Bound: -1, Expired: run.Expired}, func(x *h.Exec, f *h.Finding, leak string) {
				run.Eval(true)
				run.Trace(1)
				if f == nil && leak != "" {
					f = h.F("c06-deadlock", "%+v schedule=%v: goroutines blocked forever: %.300s", sc, x.Schedule, leak)
				}
				if f != nil {
					cc := sc
					cc.Schedule = append([]string(nil), x.Schedule...)
					run.Violate("c13", cc, f, func() *h.Finding { return evalC13Schedule(cc) })
					run.Outcome("violation:" + f.Sig)
				}
			})
			run.Transition(st.ChoicePts)
			run.Counter("lmtp_over_limit_interleavings", int64(st.Executions))
			if st.Truncated {
				run.NotExhaustive("an exploration of the LMTP over-limit scenario was cut short")
			}
		}
		run.Outcome("lmtp-over-limit-interleavings-ok")
	}
	// a failed STARTTLS handshake in the middle of a chunked transfer does not reset the count (checks/c07.go)
	runFailedUpgrades(run, "c06")
	return run.Finish()
}
