package checks

import (
	"bytes"
	"errors"
	"fmt"
	"io"
	"net"
	"sort"
	"strings"
	"sync"
	"sync/atomic"

	smtp "github.com/emersion/go-smtp"
	"verif/h"
	"verif/ref"
)

// Client-side explicit-state search ("engine CB"): breadth-first search over SEQUENCES OF CLIENT API CALLS on one
// connection, a real go-smtp Client talking to a real go-smtp Server over the in-memory duplex connection. A state is
// the history that reaches it; a successor is computed by replaying the shortest history on a fresh client/server pair
// plus one more call. States are deduplicated by
//
//	Client.VerifState()  (+)  Conn.VerifState()  (+)  model state
//
// Every call is judged against a small model of the documented client behaviour and, end to end, against what the
// server's backend saw. The oracles are the statements of C15 - C18 for a call made in ANY reachable state instead of
// a fresh connection:
//   C15  the octets written by a call are at most one hello line (if a hello exchange is due) plus one command line,
//        and every ESMTP parameter keyword on a MAIL/RCPT line is in the MOST RECENT EHLO reply;
//   C16  a message arrives with exactly the sender and the recipients accepted since the transaction began, the body
//        intact; Close returns the verdict for that message; a second Close writes nothing;
//   C17  the error returned by a call equals the reply the server sent for it, and that reply equals the backend's error;
//   C18  LMTP: the callback fires once per recipient accepted in THIS transaction, in order, with that recipient's own
//        reply; without a callback the first refusal comes back from Close.
// A finding is reported under the property it belongs to; a check only reports the findings of its own property.

type cbMode struct {
	Name        string
	LMTP, LSess bool
}

var cbModes = []cbMode{{"smtp", false, false}, {"lmtp", true, false}, {"lmtp-rcpt", true, true}}

type cbModel struct {
	helloDone bool
	name      string
	mailOpen  bool
	from      string
	rcpts     []string
	authed    bool
	quit      bool
	errs      int  // protocol errors the server has counted against this connection
	srvClosed bool // the server has given up on the connection (fourth protocol error)
	ext       map[string]string // keywords of the most recent EHLO reply, parsed from the wire by the harness
}

func (m *cbModel) key() string {
	return fmt.Sprintf("hello=%t name=%s open=%t from=%s rcpts=%q authed=%t quit=%t errs=%d", m.helloDone, m.name, m.mailOpen, m.from, m.rcpts, m.authed, m.quit, m.errs)
}

// cbFinding carries the property a finding belongs to.
type cbFinding struct {
	Prop string
	F    *h.Finding
}

type cbExec struct {
	mode   cbMode
	cs     *h.CS
	conn   *smtp.Conn
	m      *cbModel
	desc   string
	sentAt int // offsets into the raw logs at the start of the current call
	rcvdAt int
	fs     []cbFinding
}

func (x *cbExec) fail(prop, sig, format string, a ...interface{}) {
	x.fs = append(x.fs, cbFinding{prop, h.F("cb-"+strings.ToLower(prop)+"-"+sig, "%s: %s", x.desc, fmt.Sprintf(format, a...))})
}

// delta returns what the client wrote / the server answered during the current call.
func (x *cbExec) delta() (sent, rcvd []byte) {
	h.Wait()
	return x.cs.ToServer()[x.sentAt:], x.cs.ToClient()[x.rcvdAt:]
}

func cbLines(b []byte) []string {
	var out []string
	for _, l := range strings.SplitAfter(string(b), "\n") {
		if l != "" {
			out = append(out, l)
		}
	}
	return out
}

// conventions of the recording backend (h/backend.go), restated independently
func cbWantAddr(addr string) *smtp.SMTPError {
	local := addr
	if i := strings.LastIndexByte(addr, '@'); i >= 0 {
		local = addr[:i]
	}
	switch {
	case strings.HasPrefix(local, "rej"):
		return &smtp.SMTPError{Code: 550, EnhancedCode: smtp.EnhancedCode{5, 1, 1}, Message: "rejected " + addr}
	case strings.HasPrefix(local, "tmp"):
		return &smtp.SMTPError{Code: 451, EnhancedCode: smtp.EnhancedCode{4, 0, 0}, Message: "temporary trouble with " + addr}
	}
	return nil
}

func cbSame(got error, want *smtp.SMTPError, suffixOnly bool) bool {
	if want == nil {
		return got == nil
	}
	var se *smtp.SMTPError
	if !errors.As(got, &se) {
		return false
	}
	if se.Code != want.Code || se.EnhancedCode != want.EnhancedCode {
		return false
	}
	if suffixOnly {
		return strings.HasSuffix(se.Message, want.Message)
	}
	return se.Message == want.Message
}

func cbErrString(err error) string {
	if err == nil {
		return "nil"
	}
	var se *smtp.SMTPError
	if errors.As(err, &se) {
		return fmt.Sprintf("SMTPError{%d %v %q}", se.Code, se.EnhancedCode, se.Message)
	}
	return fmt.Sprintf("%T{%v}", err, err)
}

// replyErr turns a parsed reply into the SMTPError a client must report for it.
func replyErr(r ref.Reply) *smtp.SMTPError {
	e := &smtp.SMTPError{Code: r.Code, Message: strings.Join(r.Text, "\n")}
	if r.Enh != "" {
		fmt.Sscanf(r.Enh, "%d.%d.%d", &e.EnhancedCode[0], &e.EnhancedCode[1], &e.EnhancedCode[2])
	} else {
		e.EnhancedCode = smtp.EnhancedCodeNotSet
	}
	return e
}

// begin notes the log offsets; hello says whether the call performs a hello exchange when one is due.
func (x *cbExec) begin() {
	h.Wait()
	x.sentAt, x.rcvdAt = len(x.cs.ToServer()), len(x.cs.ToClient())
}

// commandLines splits what a call wrote into the optional hello line and the rest; it judges the hello line and
// refreshes the model's view of the negotiated extensions from the server's answer to it.
func (x *cbExec) commandLines(callsHello bool) (cmds []string, replies []ref.Reply, ok bool) {
	sent, rcvd := x.delta()
	lines := cbLines(sent)
	reps, perr := ref.ParseReplies(rcvd)
	if perr != nil {
		x.fail("C17", "bad-reply", "the server's answer does not parse: %v (%q)", perr, rcvd)
		return nil, nil, false
	}
	if len(reps) > 0 && reps[0].Code == 220 && x.rcvdAt == 0 {
		reps = reps[1:] // the greeting
	}
	if callsHello && !x.m.helloDone {
		verb := "EHLO"
		if x.mode.LMTP {
			verb = "LHLO"
		}
		want := verb + " " + x.m.name + "\r\n"
		if len(lines) == 0 || lines[0] != want {
			x.fail("C15", "hello-line", "a hello exchange was due; the call wrote %q, want first %q", lines, want)
			return nil, nil, false
		}
		if len(reps) == 0 || reps[0].Code != 250 {
			x.fail("C17", "hello-reply", "the hello line was not answered 250: %v", reps)
			return nil, nil, false
		}
		x.m.ext = map[string]string{}
		for _, l := range reps[0].Lines[1:] {
			kw, arg, _ := strings.Cut(l, " ")
			x.m.ext[strings.ToUpper(kw)] = arg
		}
		x.m.helloDone = true
		lines, reps = lines[1:], reps[1:]
	}
	for _, l := range lines {
		if !strings.HasSuffix(l, "\r\n") || strings.ContainsAny(strings.TrimSuffix(l, "\r\n"), "\r\n") {
			x.fail("C15", "line-shape", "the call wrote a malformed line %q (all: %q)", l, lines)
			return nil, nil, false
		}
	}
	return lines, reps, true
}

// oneCommand: the call must have written exactly one command line beginning with prefix and received exactly one
// reply; the returned error must be that reply (nil iff it has the expected code class).
func (x *cbExec) oneCommand(what string, callsHello bool, prefix string, okCode int, err error) (line string, rep *ref.Reply) {
	cmds, reps, ok := x.commandLines(callsHello)
	if !ok {
		return "", nil
	}
	if len(cmds) != 1 || !strings.HasPrefix(cmds[0], prefix) {
		x.fail("C15", "lines-per-call", "%s wrote %q, want exactly one line beginning %q", what, cmds, prefix)
		return "", nil
	}
	if len(reps) != 1 {
		x.fail("C17", "replies-per-call", "%s: one command line was answered by %d replies: %v", what, len(reps), reps)
		return "", nil
	}
	r := reps[0]
	if r.Code == okCode || (okCode < 100 && r.Code/10 == okCode) {
		if err != nil {
			x.fail("C17", "error-for-positive-reply", "%s was answered %s but returned %s", what, r, cbErrString(err))
		}
	} else if !cbSame(err, replyErr(r), false) {
		x.fail("C17", "error-differs-from-reply", "%s was answered %s but returned %s", what, r, cbErrString(err))
	}
	return cmds[0], &r
}

// authCommand: AUTH is an exchange - one line per protocol step, each but the last answered 334.
func (x *cbExec) authCommand(err error) *ref.Reply {
	cmds, reps, ok := x.commandLines(true)
	if !ok {
		return nil
	}
	// after a negative final answer the client "aborts" with a line "*", which the server takes for an unknown command
	// (answered 500 and counted against the error budget; the fourth one ends the connection with a second 500)
	if n := len(cmds); n >= 2 && cmds[n-1] == "*\r\n" && len(reps) >= n && reps[n-2].Code >= 400 && reps[n-1].Code/100 == 5 {
		x.m.errs++
		if x.m.errs == 4 && len(reps) == n+1 && reps[n].Code == 500 {
			x.m.srvClosed = true
			reps = reps[:n]
		}
		cmds, reps = cmds[:n-1], reps[:n-1]
	}
	if len(cmds) == 0 || !strings.HasPrefix(cmds[0], "AUTH ONE ") || len(cmds) != len(reps) {
		x.fail("C15", "lines-per-call", "Auth wrote %q and was answered %v: want one line per protocol step, the first beginning \"AUTH ONE \"", cmds, reps)
		return nil
	}
	for _, r := range reps[:len(reps)-1] {
		if r.Code != 334 {
			x.fail("C15", "lines-per-call", "Auth went on writing (%q) after the final answer %s (all answers: %v)", cmds, r, reps)
			return nil
		}
	}
	r := reps[len(reps)-1]
	if r.Code == 235 {
		if err != nil {
			x.fail("C17", "error-for-positive-reply", "Auth was answered %s but returned %s", r, cbErrString(err))
		}
	} else if err == nil {
		x.fail("C17", "error-differs-from-reply", "Auth was answered %s but returned nil", r)
	}
	return &r
}

// paramsNegotiated: every ESMTP parameter keyword of a MAIL/RCPT line is in the most recent hello reply.
func (x *cbExec) paramsNegotiated(line string) {
	fields := strings.Fields(strings.TrimSuffix(line, "\r\n"))
	for _, f := range fields[2:] { // verb, FROM:<..>/TO:<..>
		kw, _, _ := strings.Cut(f, "=")
		kw = strings.ToUpper(kw)
		need := map[string]string{"BODY": "8BITMIME", "SIZE": "SIZE", "SMTPUTF8": "SMTPUTF8", "REQUIRETLS": "REQUIRETLS", "RET": "DSN", "ENVID": "DSN", "NOTIFY": "DSN", "ORCPT": "DSN", "AUTH": "AUTH", "RRVS": "RRVS"}[kw]
		if need == "" {
			x.fail("C15", "unknown-parameter", "line %q carries a parameter the harness does not know: %q", line, f)
			continue
		}
		if _, ok := x.m.ext[need]; !ok {
			x.fail("C15", "parameter-not-negotiated", "line %q carries %s although the most recent hello reply (%v) does not offer %s", line, kw, x.m.ext, need)
		}
	}
}

func (x *cbExec) lastEvent(kind string, since int) *h.Event {
	tr := x.cs.Be.Trace()
	for i := len(tr) - 1; i >= since; i-- {
		if tr[i].Kind == kind {
			return &tr[i]
		}
	}
	return nil
}

type cbOp struct {
	Name    string
	Modes   string // "" all; "lmtp" only LMTP modes; "smtp" only SMTP
	Tier    string // "thorough": only in the thorough tier
	Enabled func(m *cbModel) bool
	Do      func(x *cbExec)
}

var cbMailOpts = &smtp.MailOptions{Size: 100, UTF8: true, Return: smtp.DSNReturnHeaders, EnvelopeID: "id+1 =", Body: smtp.Body8BitMIME}
var cbRcptOpts = &smtp.RcptOptions{Notify: []smtp.DSNNotify{smtp.DSNNotifyFailure, smtp.DSNNotifyDelayed}, OriginalRecipientType: smtp.DSNAddressTypeRFC822, OriginalRecipient: "orig+x@b.example"}

const cbBodyOK = "accept this\r\n.dot line\r\n..\r\nlast line without end"
const cbBodyRej = "reject this\r\n.\r\n.\r\nx\n"

func cbMail(from string, opts *smtp.MailOptions) func(x *cbExec) {
	return func(x *cbExec) {
		n0 := len(x.cs.Be.Trace())
		x.begin()
		err := x.cs.Client.Mail(from, opts)
		line, rep := x.oneCommand("Mail("+from+")", true, "MAIL FROM:<"+from+">", 250, err)
		if rep == nil {
			return
		}
		x.paramsNegotiated(line)
		ev := x.lastEvent("Mail", n0)
		if ev == nil {
			x.fail("C17", "no-backend-call", "Mail(%s) never reached the backend (answer %s)", from, rep)
			return
		}
		if !cbSame(err, cbWantAddr(from), false) {
			x.fail("C17", "mail-verdict", "the backend answers Mail(%s) with %s; the client returned %s", from, cbErrString(errOrNil(cbWantAddr(from))), cbErrString(err))
		}
		if opts != nil && ev.Opts != h.MailOptsString(opts) {
			x.fail("C14", "mail-options", "Mail(%s) with options %s reached the backend as %s", from, h.MailOptsString(opts), ev.Opts)
		}
		if err == nil {
			x.m.mailOpen, x.m.from, x.m.rcpts = true, from, nil
		}
	}
}

func errOrNil(e *smtp.SMTPError) error {
	if e == nil {
		return nil
	}
	return e
}

func cbRcpt(to string, opts *smtp.RcptOptions) func(x *cbExec) {
	return func(x *cbExec) {
		n0 := len(x.cs.Be.Trace())
		x.begin()
		err := x.cs.Client.Rcpt(to, opts)
		line, rep := x.oneCommand("Rcpt("+to+")", false, "RCPT TO:<"+to+">", 25, err)
		if rep == nil {
			return
		}
		x.paramsNegotiated(line)
		ev := x.lastEvent("Rcpt", n0)
		if ev != nil {
			if !cbSame(err, cbWantAddr(to), false) {
				x.fail("C17", "rcpt-verdict", "the backend answers Rcpt(%s) with %s; the client returned %s", to, cbErrString(errOrNil(cbWantAddr(to))), cbErrString(err))
			}
			if opts != nil && ev.Opts != h.RcptOptsString(opts) {
				x.fail("C14", "rcpt-options", "Rcpt(%s) with options %s reached the backend as %s", to, h.RcptOptsString(opts), ev.Opts)
			}
		} else if err == nil {
			x.fail("C17", "no-backend-call", "Rcpt(%s) returned nil but never reached the backend (answer %s)", to, rep)
		}
		if err == nil {
			x.m.rcpts = append(x.m.rcpts, to)
		}
	}
}

// status an LMTP per-recipient backend gives a recipient (convention of Backend.StatusByRcpt), verdict otherwise
func cbRcptVerdict(rcpt string, verdict *smtp.SMTPError) *smtp.SMTPError {
	switch {
	case strings.HasPrefix(rcpt, "okd5"):
		return &smtp.SMTPError{Code: 550, EnhancedCode: smtp.EnhancedCode{5, 2, 1}, Message: "mailbox of " + rcpt + " is disabled"}
	case strings.HasPrefix(rcpt, "okd4"):
		return &smtp.SMTPError{Code: 451, EnhancedCode: smtp.EnhancedCode{4, 2, 2}, Message: "mailbox of " + rcpt + " is full"}
	}
	return verdict
}

type cbStatus struct {
	rcpt string
	err  *smtp.SMTPError
}

// cbData: how = "data" (Client.Data), "cb" (LMTPData with callback), "nil" (LMTPData(nil))
func cbData(how string, reject bool) func(x *cbExec) {
	return func(x *cbExec) {
		body := cbBodyOK
		var verdict *smtp.SMTPError
		if reject {
			body = cbBodyRej
			verdict = &smtp.SMTPError{Code: 554, EnhancedCode: smtp.EnhancedCode{5, 6, 0}, Message: "rejected message reject this"}
		}
		n0 := len(x.cs.Be.Trace())
		x.begin()
		var got []cbStatus
		var w io.WriteCloser
		var err error
		switch how {
		case "data":
			w, err = x.cs.Client.Data()
		case "cb":
			w, err = x.cs.Client.LMTPData(func(rcpt string, st *smtp.SMTPError) { got = append(got, cbStatus{rcpt, st}) })
		case "nil":
			w, err = x.cs.Client.LMTPData(nil)
		}
		what := "Data[" + how + "]"
		if len(x.m.rcpts) == 0 {
			// no recipient accepted: the server refuses DATA; nothing else changes
			if _, rep := x.oneCommand(what+" without accepted recipients", false, "DATA\r\n", 354, err); rep != nil && err == nil {
				x.fail("C16", "data-without-recipients", "DATA was accepted although no recipient had been accepted in this transaction (answer %s)", rep)
			}
			if w != nil {
				w.Close()
			}
			return
		}
		if err != nil {
			x.fail("C16", "data-refused", "%s with envelope %s -> %q returned %s", what, x.m.from, x.m.rcpts, cbErrString(err))
			return
		}
		half := len(body) / 2
		for _, p := range []string{body[:half], body[half:]} {
			if n, werr := io.WriteString(w, p); werr != nil || n != len(p) {
				x.fail("C16", "write", "%s: Write(%q) = %d, %v", what, p, n, werr)
				return
			}
		}
		cerr := w.Close()
		sent, rcvd := x.delta()
		// what was written: DATA, then the message in its wire form, nothing else
		if !bytes.HasPrefix(sent, []byte("DATA\r\n")) {
			x.fail("C15", "lines-per-call", "%s wrote %q first, want DATA", what, cbLines(sent)[:1])
			return
		}
		wantBody := ref.DotStuffNormalize([]byte(body))
		gotBody, rest, okm := ref.Unstuff(sent[len("DATA\r\n"):])
		if !okm || len(rest) != 0 || !bytes.Equal(gotBody, wantBody) {
			x.fail("C16", "wire-body", "%s: the octets written after DATA are not the message followed by the end marker: %q", what, sent)
			return
		}
		reps, perr := ref.ParseReplies(rcvd)
		if perr != nil || len(reps) == 0 || reps[0].Code != 354 {
			x.fail("C17", "bad-reply", "%s: answers %v (%v)", what, reps, perr)
			return
		}
		finals := reps[1:]
		wantN := 1
		if x.mode.LMTP {
			wantN = len(x.m.rcpts)
		}
		if len(finals) != wantN {
			x.fail("C18", "final-replies", "%s for recipients %q was answered by %d final replies (%v), want %d", what, x.m.rcpts, len(finals), finals, wantN)
			return
		}
		// the backend saw exactly this message with exactly this envelope
		kind := "Data"
		if x.mode.LSess {
			kind = "LMTPData"
		}
		ev := x.lastEvent(kind, n0)
		if ev == nil {
			x.fail("C16", "no-delivery", "%s: the backend saw no %s call", what, kind)
			return
		}
		if ev.From != x.m.from || fmt.Sprint(ev.Rcpts) != fmt.Sprint(x.m.rcpts) {
			x.fail("C16", "envelope", "%s: the client was given %s -> %q in this transaction; the backend's session holds %s -> %q", what, x.m.from, x.m.rcpts, ev.From, ev.Rcpts)
		}
		if !bytes.Equal(ev.Body, wantBody) || ev.ReadErr != "EOF" {
			x.fail("C16", "body", "%s: the backend read %q (%s), want %q then EOF", what, ev.Body, ev.ReadErr, wantBody)
		}
		// what the client reports
		var want []cbStatus
		for _, r := range x.m.rcpts {
			v := verdict
			if x.mode.LSess {
				v = cbRcptVerdict(r, verdict)
			}
			want = append(want, cbStatus{r, v})
		}
		if !x.mode.LMTP {
			if !cbSame(cerr, verdict, false) {
				x.fail("C16", "verdict", "%s: the backend's verdict for this message is %s; Close returned %s", what, cbErrString(errOrNil(verdict)), cbErrString(cerr))
			}
		} else if how == "cb" {
			if len(got) != len(want) {
				x.fail("C18", "callback-count", "%s: recipients accepted in this transaction: %q; the callback fired %d times (%v)", what, x.m.rcpts, len(got), got)
			} else {
				for i := range want {
					if got[i].rcpt != want[i].rcpt || !cbSame(errOrNil(got[i].err), want[i].err, true) {
						x.fail("C18", "callback-status", "%s: callback #%d was (%s, %s), want (%s, %s)", what, i+1, got[i].rcpt, cbErrString(errOrNil(got[i].err)), want[i].rcpt, cbErrString(errOrNil(want[i].err)))
						break
					}
				}
			}
			if cerr != nil {
				x.fail("C18", "close-error-with-callback", "%s: every reply was reported through the callback, yet Close returned %s", what, cbErrString(cerr))
			}
		} else {
			var first *smtp.SMTPError
			for _, s := range want {
				if s.err != nil {
					first = s.err
					break
				}
			}
			if !cbSame(cerr, first, true) {
				x.fail("C16", "verdict", "%s (no callback): per-recipient verdicts %v; Close returned %s, want the first refusal (%s) - Close returns the server's verdict for THIS message", what, want, cbErrString(cerr), cbErrString(errOrNil(first)))
				x.fail("C18", "close-without-callback", "%s (no callback): per-recipient verdicts %v; Close returned %s, want the first refusal (%s)", what, want, cbErrString(cerr), cbErrString(errOrNil(first)))
			}
		}
		// a second Close is a local error and causes no traffic
		x.begin()
		if err2 := w.Close(); err2 == nil {
			x.fail("C16", "second-close-nil", "%s: a second Close returned nil", what)
		}
		if s2, r2 := x.delta(); len(s2) != 0 || len(r2) != 0 {
			x.fail("C16", "second-close-traffic", "%s: a second Close wrote %q and was answered %q", what, s2, r2)
		}
		x.m.mailOpen, x.m.rcpts, x.m.from = false, nil, ""
	}
}

func cbSendMail(to []string) func(x *cbExec) {
	return func(x *cbExec) {
		from := "oks@a.example"
		n0 := len(x.cs.Be.Trace())
		x.begin()
		err := x.cs.Client.SendMail(from, to, strings.NewReader(cbBodyOK))
		cmds, reps, ok := x.commandLines(true)
		if !ok {
			return
		}
		// expected: MAIL, RCPT per recipient up to the first refusal, then DATA + message
		var accepted []string
		var wantErr *smtp.SMTPError
		for _, r := range to {
			if e := cbWantAddr(r); e != nil {
				wantErr = e
				break
			}
			accepted = append(accepted, r)
		}
		wantCmds := 1 + len(accepted)
		if wantErr != nil {
			wantCmds++
		}
		if len(cmds) < wantCmds || !strings.HasPrefix(cmds[0], "MAIL FROM:<"+from+">") {
			x.fail("C15", "lines-per-call", "SendMail(%s, %q) wrote %q", from, to, cmds)
			return
		}
		if wantErr != nil {
			if len(cmds) != wantCmds || len(reps) != wantCmds {
				x.fail("C15", "lines-per-call", "SendMail(%s, %q) must stop at the refused recipient; it wrote %q and was answered %v", from, to, cmds, reps)
			}
			if !cbSame(err, wantErr, false) {
				x.fail("C17", "sendmail-verdict", "SendMail(%s, %q): the refused recipient is answered %s; SendMail returned %s", from, to, cbErrString(wantErr), cbErrString(err))
			}
			x.m.mailOpen, x.m.from, x.m.rcpts = true, from, accepted
			return
		}
		kind := "Data"
		if x.mode.LSess {
			kind = "LMTPData"
		}
		ev := x.lastEvent(kind, n0)
		if ev == nil {
			x.fail("C16", "no-delivery", "SendMail(%s, %q): the backend saw no %s call (returned %s)", from, to, kind, cbErrString(err))
			return
		}
		if ev.From != from || fmt.Sprint(ev.Rcpts) != fmt.Sprint(accepted) {
			x.fail("C16", "envelope", "SendMail(%s, %q): the backend's session holds %s -> %q", from, to, ev.From, ev.Rcpts)
		}
		if wantBody := ref.DotStuffNormalize([]byte(cbBodyOK)); !bytes.Equal(ev.Body, wantBody) || ev.ReadErr != "EOF" {
			x.fail("C16", "body", "SendMail: the backend read %q (%s), want %q then EOF", ev.Body, ev.ReadErr, wantBody)
		}
		var first *smtp.SMTPError
		if x.mode.LSess {
			for _, r := range accepted {
				if v := cbRcptVerdict(r, nil); v != nil {
					first = v
					break
				}
			}
		}
		if !cbSame(err, first, true) {
			x.fail("C18", "sendmail-result", "SendMail(%s, %q) returned %s, want %s", from, to, cbErrString(err), cbErrString(errOrNil(first)))
		}
		x.m.mailOpen, x.m.rcpts, x.m.from = false, nil, ""
	}
}

type cbSASL struct{ resp string }

func (s cbSASL) Start() (string, []byte, error) { return "ONE", []byte(s.resp), nil }
func (s cbSASL) Next([]byte) ([]byte, error)     { return nil, errors.New("unexpected challenge") }

func cbOps() []cbOp {
	open := func(m *cbModel) bool { return m.mailOpen }
	idle := func(m *cbModel) bool { return !m.mailOpen }
	return []cbOp{
		{Name: "Hello", Do: func(x *cbExec) {
			x.begin()
			err := x.cs.Client.Hello("client.example")
			if x.m.helloDone {
				if s, _ := x.delta(); err == nil || len(s) != 0 {
					x.fail("C15", "hello-after-hello", "Hello after the hello exchange returned %v and wrote %q (documented: an error, nothing is sent)", err, s)
				}
				return
			}
			x.m.name = "client.example"
			cmds, reps, ok := x.commandLines(true)
			if ok && (len(cmds) != 0 || len(reps) != 0 || err != nil) {
				x.fail("C15", "lines-per-call", "Hello wrote %q beyond the hello line (answers %v, result %v)", cmds, reps, err)
			}
			// the server starts a new session state on every hello: a transaction is gone
			x.m.mailOpen, x.m.rcpts, x.m.from = false, nil, ""
		}},
		{Name: "Noop", Do: func(x *cbExec) {
			was := x.m.helloDone
			x.begin()
			err := x.cs.Client.Noop()
			x.oneCommand("Noop", true, "NOOP\r\n", 250, err)
			if !was {
				x.m.mailOpen, x.m.rcpts, x.m.from = false, nil, ""
			}
		}},
		{Name: "Reset", Do: func(x *cbExec) {
			x.begin()
			err := x.cs.Client.Reset()
			if _, rep := x.oneCommand("Reset", true, "RSET\r\n", 250, err); rep != nil && err == nil {
				x.m.mailOpen, x.m.rcpts, x.m.from = false, nil, ""
				x.m.helloDone = false // documented: Hello may be called again; the next call repeats the hello exchange
			}
		}},
		{Name: "Mail(ok)", Enabled: idle, Do: cbMail("ok@a.example", nil)},
		{Name: "Mail(ok,options)", Enabled: idle, Do: cbMail("okopts@a.example", cbMailOpts)},
		{Name: "Mail(REQUIRETLS, not offered)", Enabled: idle, Do: func(x *cbExec) {
			// the server does not offer REQUIRETLS (no TLS here): a local error, nothing but a due hello line is written
			was := x.m.helloDone
			x.begin()
			err := x.cs.Client.Mail("ok@a.example", &smtp.MailOptions{RequireTLS: true})
			cmds, reps, ok := x.commandLines(true)
			if !ok {
				return
			}
			if err == nil || len(cmds) != 0 || len(reps) != 0 {
				x.fail("C15", "requiretls-not-offered", "Mail with RequireTLS on a server that does not offer REQUIRETLS returned %v and wrote %q (documented: a local error, nothing is sent)", err, cmds)
			}
			var se *smtp.SMTPError
			if errors.As(err, &se) {
				x.fail("C15", "requiretls-not-offered", "Mail with RequireTLS on a server that does not offer REQUIRETLS was answered by the server: %s", cbErrString(err))
			}
			if !was {
				x.m.mailOpen, x.m.rcpts, x.m.from = false, nil, ""
			}
		}},
		{Name: "Mail(rejected)", Enabled: idle, Do: cbMail("rej@a.example", nil)},
		{Name: "Mail(temporary failure)", Enabled: idle, Do: cbMail("tmp@a.example", nil)},
		{Name: "Rcpt(a)", Enabled: open, Do: cbRcpt("oka@b.example", nil)},
		{Name: "Rcpt(b,options)", Enabled: open, Do: cbRcpt("okd5b@b.example", cbRcptOpts)},
		{Name: "Rcpt(c)", Tier: "thorough", Enabled: open, Do: cbRcpt("okd4c@b.example", nil)},
		{Name: "Rcpt(rejected)", Enabled: open, Do: cbRcpt("rej@b.example", nil)},
		{Name: "Data(accepted)", Enabled: open, Do: cbData("data", false)},
		{Name: "Data(rejected)", Enabled: open, Do: cbData("data", true)},
		{Name: "LMTPData(callback)", Modes: "lmtp", Enabled: open, Do: cbData("cb", false)},
		{Name: "LMTPData(callback,rejected)", Modes: "lmtp", Enabled: open, Do: cbData("cb", true)},
		{Name: "LMTPData(nil)", Modes: "lmtp", Enabled: open, Do: cbData("nil", false)},
		{Name: "SendMail(a,b)", Enabled: idle, Do: cbSendMail([]string{"oka@b.example", "okd5b@b.example"})},
		{Name: "SendMail(a,rejected,b)", Enabled: idle, Do: cbSendMail([]string{"oka@b.example", "rej@b.example", "okd5b@b.example"})},
		{Name: "Auth(good)", Do: func(x *cbExec) {
			was := x.m.helloDone
			x.begin()
			err := x.cs.Client.Auth(cbSASL{"good"})
			if rep := x.authCommand(err); rep != nil && err == nil {
				x.m.authed = true
			}
			if !was {
				x.m.mailOpen, x.m.rcpts, x.m.from = false, nil, ""
			}
		}},
		{Name: "Auth(bad)", Do: func(x *cbExec) {
			was := x.m.helloDone
			x.begin()
			err := x.cs.Client.Auth(cbSASL{"bad"})
			if rep := x.authCommand(err); rep != nil && err == nil {
				x.fail("C17", "auth-accepted", "Auth with bad credentials returned nil (answer %s)", rep)
			}
			if !was {
				x.m.mailOpen, x.m.rcpts, x.m.from = false, nil, ""
			}
		}},
		{Name: "Extension queries", Do: func(x *cbExec) {
			was := x.m.helloDone
			x.begin()
			okSize, _ := x.cs.Client.Extension("size")
			okAuth := x.cs.Client.SupportsAuth("one")
			okX, _ := x.cs.Client.Extension("X-NOT-THERE")
			cmds, reps, ok := x.commandLines(true)
			if !ok {
				return
			}
			if len(cmds) != 0 || len(reps) != 0 {
				x.fail("C15", "lines-per-call", "Extension/SupportsAuth wrote %q beyond a hello line", cmds)
			}
			_, hasSize := x.m.ext["SIZE"]
			hasAuth := false
			for _, mname := range strings.Fields(x.m.ext["AUTH"]) {
				hasAuth = hasAuth || strings.EqualFold(mname, "ONE")
			}
			if okSize != hasSize || okAuth != hasAuth || okX {
				x.fail("C15", "extension-view", "the most recent hello reply offers %v; Extension(size)=%t SupportsAuth(one)=%t Extension(X-NOT-THERE)=%t", x.m.ext, okSize, okAuth, okX)
			}
			if !was {
				x.m.mailOpen, x.m.rcpts, x.m.from = false, nil, ""
			}
		}},
		{Name: "Verify", Do: func(x *cbExec) {
			was := x.m.helloDone
			x.begin()
			err := x.cs.Client.Verify("oka@b.example")
			x.oneCommand("Verify", true, "VRFY oka@b.example\r\n", 250, err)
			if !was {
				x.m.mailOpen, x.m.rcpts, x.m.from = false, nil, ""
			}
		}},
		{Name: "Quit", Do: func(x *cbExec) {
			x.begin()
			err := x.cs.Client.Quit()
			x.oneCommand("Quit", true, "QUIT\r\n", 221, err)
			x.m.quit = true
		}},
	}
}

// cbTier is the tier of the running check (the alphabet of the thorough tier has a third accepted recipient).
var cbTier = "quick"

func cbOpsFor(mode cbMode) []cbOp {
	var out []cbOp
	for _, o := range cbOps() {
		if o.Modes == "lmtp" && !mode.LMTP || o.Modes == "smtp" && mode.LMTP {
			continue
		}
		if o.Tier == "thorough" && cbTier != "thorough" {
			continue
		}
		out = append(out, o)
	}
	return out
}

// cbMaxStates: see exploreClient.
const cbMaxStates = 40000

type CBCase struct {
	Tier  string   `json:"tier,omitempty"`
	Mode  string   `json:"mode"`
	Hist  []int    `json:"history"`
	Names []string `json:"names"`
	Prop  string   `json:"property"`
}

type cbResult struct {
	Key      string
	Closed   bool
	Disabled bool // the last call of the history is not enabled in the state it would be made in
	Findings []cbFinding
}

func cbModeByName(name string) cbMode {
	for _, m := range cbModes {
		if m.Name == name {
			return m
		}
	}
	return cbModes[0]
}

// runClientHistory replays hist on a fresh client/server pair.
func runClientHistory(mode cbMode, hist []int) *cbResult {
	ops := cbOpsFor(mode)
	res := &cbResult{}
	cfg := h.Config{LMTP: mode.LMTP, AllowInsecureAuth: true, UTF8: true, DSN: true, RRVS: true, BinaryMIME: true, MaxRecipients: map[bool]int{false: 3, true: 4}[cbTier == "thorough"], MaxMessageBytes: 1000}
	be := &h.Backend{LMTPSess: mode.LSess, Auth: true, Mechs: saslMechs, NewSASL: newSASL, ByContent: true, StatusByRcpt: true}
	var names []string
	for _, i := range hist {
		names = append(names, ops[i].Name)
	}
	x := &cbExec{mode: mode, m: &cbModel{name: "localhost"}}
	leak, pan := h.Bubble(func() {
		cs := &h.CS{Be: be, Log: &h.LogBuf{}}
		cs.Srv = cfg.NewServer(be, cs.Log)
		cs.CEnd, cs.SEnd = h.NewDuplex()
		var conn *smtp.Conn
		go func() {
			cs.Err = cs.Srv.VerifServeConn(net.Conn(cs.SEnd), func(c *smtp.Conn) { conn = c })
			cs.Done = true
		}()
		if mode.LMTP {
			cs.Client = smtp.NewClientLMTP(cs.CEnd)
		} else {
			cs.Client = smtp.NewClient(cs.CEnd)
		}
		x.cs = cs
		h.Wait()
		for n, i := range hist {
			op := ops[i]
			if x.m.quit || x.m.srvClosed || op.Enabled != nil && !op.Enabled(x.m) {
				res.Disabled = true
				break
			}
			x.desc = fmt.Sprintf("mode=%s, client calls %q, call #%d (%s)", mode.Name, names, n+1, op.Name)
			op.Do(x)
			if len(x.fs) > 0 {
				break
			}
		}
		h.Wait()
		if !res.Disabled && len(x.fs) == 0 {
			x.conn = conn
			res.Closed = x.m.quit || x.m.srvClosed
			if cs.Done && !res.Closed {
				x.fail("C17", "server-gone", "the server ended the connection although the client neither quit nor exhausted the error budget (server log: %s)", firstLogLine(cs.Log.String()))
			}
			ss := "closed"
			if !cs.Done && conn != nil {
				ss = conn.VerifState()
			}
			res.Key = cs.Client.VerifState() + " | " + ss + " | " + x.m.key()
			if a := be.FirstAnomaly(); a != "" {
				x.fail("C16", "backend-anomaly", "%s", a)
			}
			if strings.Contains(cs.Log.String(), "panic") {
				x.fail("C17", "recovered-panic", "the server recovered from a panic: %s", firstLogLine(cs.Log.String()))
			}
		}
		cs.Client.Close()
		cs.CEnd.Close()
		h.Wait()
	})
	res.Findings = x.fs
	if pan != "" {
		res.Findings = append(res.Findings, cbFinding{"*", h.F("cb-panic", "mode=%s, client calls %q: %s", mode.Name, names, pan)})
	}
	if leak != "" {
		res.Findings = append(res.Findings, cbFinding{"*", h.F("cb-deadlock-or-leak", "mode=%s, client calls %q: client and server are blocked on each other or a goroutine never finished: %.400s", mode.Name, names, leak)})
	}
	return res
}

func replayCB(c CBCase) *h.Finding {
	if c.Tier != "" {
		cbTier = c.Tier
	}
	r := runClientHistory(cbModeByName(c.Mode), c.Hist)
	for _, f := range r.Findings {
		if f.Prop == c.Prop || f.Prop == "*" {
			return f.F
		}
	}
	return nil
}

func init() { h.RegisterReplayer("client-bfs", replayCB) }

// exploreClient runs the search for one mode and reports the findings that belong to prop.
func exploreClient(run *h.Run, prop string, mode cbMode, maxDepth int) (states, transitions, depth int) {
	ops := cbOpsFor(mode)
	seen := map[string]bool{}
	alts, deep := map[string][]int{}, map[string][]int{}
	var mu sync.Mutex
	init := runClientHistory(mode, nil)
	seen[init.Key] = true
	frontier := [][]int{{}}
	report := func(hist []int, r *cbResult) bool {
		for _, f := range r.Findings {
			if f.Prop == prop || f.Prop == "*" {
				var names []string
				for _, i := range hist {
					names = append(names, ops[i].Name)
				}
				c := CBCase{Tier: cbTier, Mode: mode.Name, Hist: hist, Names: names, Prop: prop}
				run.Violate("client-bfs", c, f.F, func() *h.Finding { return replayCB(c) })
				run.Outcome("violation:" + f.F.Sig)
				return true
			}
		}
		return len(r.Findings) > 0
	}
	report(nil, init)
	var violated atomic.Bool
	for depth = 1; len(frontier) > 0 && (maxDepth <= 0 || depth <= maxDepth); depth++ {
		if run.Expired() {
			break
		}
		// A breadth-first search reports the SHORTEST failing histories first; once a level has produced a violation the
		// deeper levels add nothing (and a defect that keeps growing some list makes the state space infinite).
		if violated.Load() {
			break
		}
		// On the unchanged tree the search closes with a few thousand states; a state space that does not close is a
		// finding of its own kind (something grows without bound from call to call)
		if len(seen) > cbMaxStates {
			run.Violate("client-bfs", CBCase{Mode: mode.Name, Prop: prop}, h.F("cb-"+strings.ToLower(prop)+"-state-space-does-not-close", "mode=%s: more than %d distinct states after %d calls - the client or the server accumulates something from call to call that no Reset, Quit or completed transaction clears (on the unchanged tree the search closes with about 2000 states per mode)", mode.Name, cbMaxStates, depth-1), nil)
			break
		}
		type job struct{ s, op int }
		var jobs []job
		for si := range frontier {
			for oi := range ops {
				jobs = append(jobs, job{si, oi})
			}
		}
		cand := map[string][]int{}
		candClosed := map[string]bool{}
		h.ParallelFor(len(jobs), func(i int) {
			if i%64 == 0 && run.Expired() {
				return
			}
			j := jobs[i]
			hist := append(append([]int(nil), frontier[j.s]...), j.op)
			r := runClientHistory(mode, hist)
			if r.Disabled {
				return
			}
			run.Transition(1)
			run.Trace(1)
			run.Eval(true)
			if report(hist, r) {
				violated.Store(true)
				return // a state reached through a failing call is not expanded
			}
			run.Outcome(mode.Name + ":" + ops[j.op].Name)
			mu.Lock()
			transitions++
			if seen[r.Key] && !r.Closed {
				if old, ok := alts[r.Key]; !ok || (len(old) == len(hist) && lessHist(old, hist)) {
					alts[r.Key] = hist
				}
				if old, ok := deep[r.Key]; !ok || len(hist) > len(old) || (len(old) == len(hist) && lessHist(old, hist)) {
					deep[r.Key] = hist
				}
			}
			if !seen[r.Key] {
				if old, ok := cand[r.Key]; !ok || lessHist(hist, old) {
					cand[r.Key] = hist
					candClosed[r.Key] = r.Closed
				}
			}
			mu.Unlock()
		})
		var next [][]int
		for k, hist := range cand {
			seen[k] = true
			if !candClosed[k] {
				next = append(next, hist)
			}
		}
		sort.Slice(next, func(a, b int) bool { return lessHist(next[a], next[b]) })
		frontier = next
		if len(next) > 0 && depth%2 == 0 {
			var names []string
			for _, i := range next[len(next)/2] {
				names = append(names, ops[i].Name)
			}
			run.Sample("client-history", 3, map[string]interface{}{"mode": mode.Name, "calls": names})
		}
	}
	// merge audit (see exploreProtocol): one history merged into each state at the first level that brought one, and the
	// longest one that ever arrived, extended by probe sequences (a transaction is completed whether or not one is open)
	if !violated.Load() && !run.Expired() {
		idx := map[string]int{}
		for i, o := range ops {
			idx[o.Name] = i
		}
		deliver := "Data(accepted)"
		if mode.LMTP {
			deliver = "LMTPData(callback)"
		}
		var probes [][]int
		for _, names := range [][]string{
			{"Rcpt(a)", deliver, "Mail(ok)", "Rcpt(b,options)", "Data(rejected)", "Noop"},
			{"Mail(ok)", "Rcpt(a)", deliver, "Mail(ok,options)", "Rcpt(b,options)", "Data(rejected)", "Noop"},
		} {
			var p []int
			for _, n := range names {
				p = append(p, idx[n])
			}
			probes = append(probes, p)
		}
		var hists [][]int
		for k, a := range alts {
			hists = append(hists, a)
			if d := deep[k]; len(d) > len(a) {
				hists = append(hists, d)
			}
		}
		sort.Slice(hists, func(a, b int) bool { return lessHist(hists[a], hists[b]) })
		var audited atomic.Int64
		h.ParallelFor(len(hists), func(i int) {
			for _, p := range probes {
				hist := append(append([]int(nil), hists[i]...), p...)
				r := runClientHistory(mode, hist)
				if r.Disabled {
					continue
				}
				audited.Add(1)
				run.Trace(1)
				report(hist, r)
			}
		})
		run.Counter("client_search_merge_audit["+mode.Name+"]", audited.Load())
	}
	if len(frontier) > 0 && !violated.Load() {
		run.NotExhaustive(fmt.Sprintf("client search (%s) stopped at depth %d with %d unexpanded states", mode.Name, depth-1, len(frontier)))
	}
	return len(seen), transitions, depth - 1
}

// clientSearch is the part of C15 - C18 that quantifies over histories of client calls.
func clientSearch(run *h.Run, prop string, maxDepth int) {
	cbTier = run.Tier
	for _, mode := range cbModes {
		s, t, d := exploreClient(run, prop, mode, maxDepth)
		run.State(int64(s))
		run.Counter("client_search_states["+mode.Name+"]", int64(s))
		run.Counter("client_search_transitions["+mode.Name+"]", int64(t))
		run.Counter("client_search_depth["+mode.Name+"]", int64(d))
		fmt.Printf("  client search %s: states=%d transitions=%d depth=%d\n", mode.Name, s, t, d)
	}
}

const clientSearchRule = " (CB) explicit-state breadth-first search over HISTORIES OF CLIENT API CALLS on one connection - Hello, Noop, Reset, Mail (plain / with options / with REQUIRETLS that is not offered / refused 550 / failing 451), Rcpt (two accepted addresses, one with options, one refused), Data and LMTPData (callback / nil) with an accepted and a rejected message, Client.SendMail with and without a refused recipient, Auth good/bad, Extension/SupportsAuth, Verify, Quit - real Client against real Server (all extensions on, MaxRecipients 3) in {SMTP, LMTP, LMTP per-recipient backend}, to the fixpoint of (Client private state, Conn private state, model state); every call is judged in every reachable state: octets written (hello line if due + one command line; parameters only from the most recent hello reply), returned error == the server's reply == the backend's error, envelope/body/verdict at the backend, LMTP callbacks per recipient of THIS transaction, client and server never blocked on each other."

// CBAll runs the client search once with every oracle (development entry point: VERIF_PROP=CB).
func CBAll(tier string) int {
	rc := 0
	for _, p := range []string{"C14", "C15", "C16", "C17", "C18"} {
		run := h.NewRun("CB-"+p, tier, "model_checking", "", 25*60*1e9)
		run.Rule = clientSearchRule
		clientSearch(run, p, 0)
		if r := run.Finish(); r != 0 {
			rc = r
		}
	}
	return rc
}
