package checks

import (
	"fmt"
	"strings"
	"time"

	"verif/h"
	"verif/ref"
)

// C08: each session is logged out exactly once; nothing runs after the connection ends.

// sessionOracle judges a backend trace of ONE connection without a
// successful STARTTLS (so the first Logout is the end of the connection).
func sessionOracle(tr []h.Event, backendPanics bool, log string) *h.Finding {
	type info struct{ logouts, after int }
	sess := map[int]*info{}
	firstLogout := -1
	for i, e := range tr {
		if e.Kind == "NewSession" {
			if e.Sess > 0 {
				sess[e.Sess] = &info{}
			}
			if firstLogout >= 0 {
				return h.F("c08-session-after-end", "a new session (#%d) was created after the connection had ended: %s", e.Sess, h.Calls(tr))
			}
			continue
		}
		in := sess[e.Sess]
		if in == nil {
			return h.F("c08-callback-without-session", "callback %s on a session that NewSession never returned: %s", e.Kind, h.Calls(tr))
		}
		if e.Kind == "Logout" {
			in.logouts++
			if firstLogout < 0 {
				firstLogout = i
			}
			continue
		}
		if e.Kind == "SetStatus" || e.Kind == "AuthMechs" {
			continue
		}
		if in.logouts > 0 {
			in.after++
			return h.F("c08-callback-after-logout", "callback %s(%s) began on session #%d after its Logout: %s", e.Kind, e.Arg, e.Sess, h.Calls(tr))
		}
		if firstLogout >= 0 {
			return h.F("c08-callback-after-end", "callback %s(%s) began after the connection had ended: %s", e.Kind, e.Arg, h.Calls(tr))
		}
	}
	for id, in := range sess {
		if in.logouts != 1 {
			return h.F("c08-logout-count", "session #%d received %d Logout calls, want exactly 1: %s", id, in.logouts, h.Calls(tr))
		}
	}
	for _, e := range tr {
		if (e.Kind == "Data" || e.Kind == "LMTPData" || e.Kind == "Mail" || e.Kind == "Rcpt") && !e.Ended && !backendPanics {
			return h.F("c08-callback-never-returned", "callback %s never returned", e.Kind)
		}
	}
	if !backendPanics && strings.Contains(log, "panic") {
		return h.F("c08-recovered-panic", "the server recovered from a panic although the backend did not panic: %s", firstLogLine(log))
	}
	return nil
}

func evalC08Cut(c CutCase) *h.Finding {
	o, _ := runCut(c)
	desc := fmt.Sprintf("conv=%s/%s cut=%d/%d term=%s peroctet=%t perline=%t sent=%q", c.Conv.Name, c.Conv.Mode, c.Cut, len(c.Conv.In), c.Term, c.PerOctet, c.PerLine, tailStr(c.Conv.In[:c.Cut], 60))
	if f := o.Sanity("c08", desc); f != nil {
		return f
	}
	if !o.Closed {
		return h.F("c08-not-closed", "%s: the server did not close the connection", desc)
	}
	if f := sessionOracle(o.Trace, false, o.Log); f != nil {
		f.What = desc + ": " + f.What
		return f
	}
	// the stream ends in the middle of a command LINE: the peer never sent that command. What the backend saw must be
	// what it sees when the stream ends in front of that line (differential, same terminal answer and segmentation)
	if start, ok := c.Conv.midLine(c.Cut); ok {
		cr := c
		cr.Cut = start
		r, _ := runCut(cr)
		if r.Sanity("c08", desc) == nil && h.Calls(r.Trace) != h.Calls(o.Trace) {
			return h.F("c08-unfinished-line-executed", "%s: the stream ended inside the command line %q, which the peer never completed, and yet the backend saw other callbacks than for a stream ending in front of that line:\n  ends in front of the line: %s\n  ends inside the line:      %s", desc, c.Conv.In[start:c.Cut], h.Calls(r.Trace), h.Calls(o.Trace))
		}
	}
	return nil
}

// Close-reason cases ---------------------------------------------------------

type C08CloseCase struct {
	Mode    string `json:"mode"`
	Prefix  string `json:"prefix"` // name of the state-building prefix
	Reason  string `json:"reason"`
	In      []byte `json:"in"`
	Show    string `json:"show"`
	CloseAt int    `json:"close_at"` // offset just behind the command that makes the server close
	Seg     string `json:"seg"`      // one | split (suffix in its own segment) | octet
	Panics  bool   `json:"panics"`
}

func evalC08Close(c C08CloseCase) *h.Finding {
	pc := ref.PConfig{LMTP: strings.HasPrefix(c.Mode, "lmtp"), LMTPBackend: c.Mode == "lmtp-rcpt", AllowInsecureAuth: true, AuthBackend: true}
	cfg, be := serverFor(pc)
	cfg.MaxLineLength = 100
	var segs [][]byte
	switch c.Seg {
	case "one":
		segs = h.OneSeg(c.In)
	case "split":
		segs = h.SplitAt(c.In, c.CloseAt)
	case "octet":
		segs = h.PerOctet(c.In)
	}
	o := h.RunS(cfg, be, segs, h.TermEOF)
	desc := fmt.Sprintf("mode=%s state=%s reason=%s seg=%s input=%q", c.Mode, c.Prefix, c.Reason, c.Seg, c.In)
	if f := o.Sanity("c08", desc); f != nil {
		return f
	}
	if !o.Closed {
		return h.F("c08-not-closed", "%s: the server did not close the connection", desc)
	}
	if f := sessionOracle(o.Trace, c.Panics, o.Log); f != nil {
		f.What = desc + ": " + f.What
		return f
	}
	// no reply may follow the closing reply: count replies against the prefix-only run
	_, be2 := serverFor(pc)
	var shortSegs [][]byte
	if c.Seg == "octet" {
		shortSegs = h.PerOctet(c.In[:c.CloseAt])
	} else {
		shortSegs = h.OneSeg(c.In[:c.CloseAt])
	}
	short := h.RunS(cfg, be2, shortSegs, h.TermEOF)
	if string(short.Wire) != string(o.Wire) {
		return h.F("c08-output-after-close", "%s: output differs from the same conversation without the buffered suffix.\n   with suffix:    %q\n   without suffix: %q", desc, o.Wire, short.Wire)
	}
	return nil
}

func init() {
	h.RegisterReplayer("c08-cut", evalC08Cut)
	h.RegisterReplayer("c08-close", evalC08Close)
}

// extraCorpus: conversations beyond the transfer corpus (AUTH, several
// transactions, errors).
func extraCorpus() []Conv {
	var out []Conv
	for _, mode := range corpusModes {
		out = append(out, newConv("auth-then-mail", mode, 0).cmd("AUTH ONE Z29vZA==").envelope().data([]byte("hi\r\n.\r\n")).cmd("RSET").envelope().cmd("QUIT").done())
		out = append(out, newConv("auth-cancel", mode, 0).cmd("AUTH ONE").cmd("*").cmd("NOOP").cmd("QUIT").done())
		out = append(out, newConv("errors", mode, 0).cmd("FOO").cmd("").cmd("BARBAZ x").cmd("MAIL FROM:<ok@a.example>").cmd("WHAT").cmd("NOOP").done())
		out = append(out, newConv("rehello", mode, 0).envelope().cmd(strings.TrimSuffix(hello(mode), "\r\n")).envelope().bdat([][]byte{[]byte("x")}, false).cmd("QUIT").done())
		out = append(out, newConv("nohello", mode, 0).cmd("NOOP").cmd("QUIT").done())
	}
	return out
}

func C08(tier string) int {
	run := h.NewRun("C08", tier, "fault_enumeration", "", 25*time.Minute)
	corpus := append(TransferCorpus(), extraCorpus()...)
	terms := []string{h.TermEOF, h.TermTimeout, h.TermReset}

	// close reasons x prefixes x suffixes
	type prefix struct{ name, text string }
	pool := []string{"EHLO b.example", "LHLO b.example", "MAIL FROM:<ok@z.example>", "RCPT TO:<ok@y.example>", "DATA\r\nx\r\n.", "BDAT 1 LAST\r\nx", "AUTH ONE Z29vZA==", "RSET", "garbage", "QUIT"}
	var suffixes []string
	suffixes = append(suffixes, "")
	for i := range pool {
		suffixes = append(suffixes, strings.Join(pool[i:], "\r\n")+"\r\n")
		suffixes = append(suffixes, pool[i]+"\r\n")
	}
	var closeCases []C08CloseCase
	for _, mode := range corpusModes {
		hl := hello(mode)
		prefixes := []prefix{
			{"fresh", ""},
			{"greeted", hl},
			{"authed", hl + "AUTH ONE Z29vZA==\r\n"},
			{"mail", hl + "MAIL FROM:<ok@a.example>\r\n"},
			{"rcpt", hl + "MAIL FROM:<ok@a.example>\r\nRCPT TO:<ok@b.example>\r\n"},
			{"mid-bdat", hl + "MAIL FROM:<ok@a.example>\r\nRCPT TO:<ok@b.example>\r\nBDAT 4\r\nabc\n"},
			{"after-message", hl + "MAIL FROM:<ok@a.example>\r\nRCPT TO:<ok@b.example>\r\nDATA\r\nhi\r\n.\r\n"},
		}
		type reason struct {
			name, text string
			panics     bool
			needs      string // minimal state: "" | greeted | mail | rcpt
		}
		reasons := []reason{
			{"quit", "QUIT\r\n", false, ""},
			{"4-errors", "FOO\r\nBAR\r\n\r\nBAZZ\r\n", false, ""},
			// the 4th error of each kind the command loop distinguishes
			{"4th-error-unknown-verb", "\r\nNOOPX\r\nFOO\r\nBAZZ x\r\n", false, ""},
			{"4th-error-empty-line", "BAZZ\r\nNOOPX\r\nFOO\r\n\r\n", false, ""},
			{"4th-error-too-short", "BAZZ\r\nNOOPX\r\n\r\nFOO\r\n", false, ""},
			{"4th-error-five-octets", "BAZZ\r\n\r\nFOO\r\nNOOPX\r\n", false, ""},
			{"4th-error-no-space", "BAZZ\r\n\r\nFOO\r\nMAILFROM:<a@b>\r\n", false, ""},
			// a backend that calls Conn.Reject inside NewSession and still returns a session
			{"reject-in-newsession", strings.Replace(hl, "c.example", "closeme.example", 1), false, "fresh-only"},
			{"long-line", "NOOP " + strings.Repeat("a", 200) + "\r\n", false, ""},
			{"panic-mail", "MAIL FROM:<panic@a.example>\r\n", true, "greeted-nomail"},
			{"panic-rcpt", "RCPT TO:<panic@b.example>\r\n", true, "mail"},
			{"panic-data", "DATA\r\npanic-1\r\n.\r\n", true, "rcpt"},
			{"panic-bdat", "BDAT 9 LAST\r\npanic-2\r\n", true, "rcpt"},
			{"panic-bdat-2chunks", "BDAT 9\r\npanic-3\r\nBDAT 0 LAST\r\n", true, "rcpt"},
			// the backend panics inside Session.Reset: on RSET, on a repeated greeting, behind a delivered message
			{"panic-reset-rset", "MAIL FROM:<okpanicreset@a.example>\r\nRSET\r\n", true, "greeted-nomail"},
			{"panic-reset-greeting", "MAIL FROM:<okpanicreset@a.example>\r\n" + hl, true, "greeted-nomail"},
			{"panic-reset-after-data", "MAIL FROM:<okpanicreset@a.example>\r\nRCPT TO:<ok@b.example>\r\nDATA\r\nhi\r\n.\r\n", true, "greeted-nomail"},
			{"panic-reset-after-bdat", "MAIL FROM:<okpanicreset@a.example>\r\nRCPT TO:<ok@b.example>\r\nBDAT 3 LAST\r\nhi\n", true, "greeted-nomail"},
		}
		for _, p := range prefixes {
			for _, r := range reasons {
				switch r.needs {
				case "fresh-only":
					if p.name != "fresh" {
						continue
					}
				case "greeted-nomail":
					if p.name == "fresh" || p.name == "mid-bdat" {
						continue
					}
				case "mail":
					if p.name != "mail" && p.name != "rcpt" {
						continue
					}
				case "rcpt":
					if p.name != "rcpt" {
						continue
					}
				}
				for _, s := range suffixes {
					in := p.text + r.text
					closeAt := len(in)
					in += s
					for _, seg := range []string{"one", "split", "octet"} {
						if seg == "split" && s == "" {
							continue
						}
						if r.name == "long-line" && seg == "one" {
							// the limiter refuses the whole raw read, prefix commands included; judged by C19
							continue
						}
						closeCases = append(closeCases, C08CloseCase{Mode: mode, Prefix: p.name, Reason: r.name, In: []byte(in), CloseAt: closeAt, Seg: seg, Panics: r.panics})
					}
				}
			}
		}
	}
	run.Rule = fmt.Sprintf("(a) corpus of %d conversations (DATA/BDAT transfers, AUTH, several transactions, errors; SMTP, LMTP, LMTP per-recipient) cut at EVERY byte offset x terminal answer {EOF, timeout, reset} x {one segment, one octet per segment, one segment per LF-terminated piece}; (b) %d close-reason cases: connection states {fresh, greeted, authenticated, MAIL, RCPT, mid-BDAT, after a message} x server-initiated close {QUIT, 4th protocol error, over-long line, backend panic in Mail/Rcpt/Data/BDAT delivery/Reset} x every suffix and every single element of a pool of %d follow-up commands already buffered behind the closing command x {same segment, next segment, per octet}. All executions run in synctest bubbles: the bubble must drain (no goroutine of the connection left). Distinct by construction; non-trivial = a session exists at the cut / a suffix is buffered. (d) idle-timeout arming: ReadTimeout/WriteTimeout one minute on the virtual clock, a peer that pauses 40 s before every segment of 6 conversations x 3 modes - every wait must be under a freshly armed deadline, the last wait ends in 421; (e) a silence of five minutes (ReadTimeout one minute) at 7 points of a conversation (before/after the greeting, awaiting the answer to a 334, inside a transaction, a message, a chunk, between chunks) followed by more commands: nothing sent after the timeout is executed, the connection is closed; (f) the same silence at EVERY byte offset of every corpus conversation x {one segment, per octet}, followed by the rest of the conversation and more commands: closed, nothing executed afterwards, and output and callbacks identical to those of the conversation cut by a timeout at that offset (differential); (c) STARTTLS conversations over a real TLS layer: {handshake completes, the client sends non-handshake octets, the client hangs up instead} x 5 plaintext prefixes (none ... mid-BDAT) x 7 continuations x 3 terminal answers, judged per session. Oracle on the backend trace: every session gets exactly one Logout, no callback begins after it, no session is created after the end, no recovered panic unless the backend panicked, output identical to the conversation without the buffered suffix.", len(corpus), len(closeCases), len(pool))
	run.Assumptions = []string{"an unterminated fragment that the line reader hands out before it reports EOF counts as input received before the disconnect", "for STARTTLS conversations (two sessions per connection) the oracle is per session: exactly one Logout each, nothing on a session after its own Logout"}

	type job struct{ ci, cut int }
	var jobs []job
	for ci, cv := range corpus {
		for cut := 0; cut <= len(cv.In); cut++ {
			jobs = append(jobs, job{ci, cut})
		}
	}
	h.ParallelFor(len(jobs), func(i int) {
		if run.Expired() {
			return
		}
		j := jobs[i]
		cv := corpus[j.ci]
		for _, term := range terms {
			for _, per := range []int{0, 1, 2} {
				c := CutCase{Conv: cv, Cut: j.cut, Term: term, PerOctet: per == 1, PerLine: per == 2}
				f := evalC08Cut(c)
				run.Eval(j.cut >= len(hello(cv.Mode)))
				if f != nil {
					c.Show = fmt.Sprintf("%q", cv.In[:j.cut])
					run.Violate("c08-cut", c, f, func() *h.Finding { return evalC08Cut(c) })
					run.Outcome("violation:" + f.Sig)
				} else {
					run.Outcome("cut-ok:" + term)
				}
			}
		}
		if i%1501 == 11 {
			run.Sample("cut", 4, map[string]interface{}{"conv": cv.Name, "mode": cv.Mode, "cut": j.cut, "sent": fmt.Sprintf("%q", cv.In[:j.cut])})
		}
	})
	h.ParallelFor(len(closeCases), func(i int) {
		if run.Expired() {
			return
		}
		c := closeCases[i]
		f := evalC08Close(c)
		run.Eval(len(c.In) > c.CloseAt)
		if f != nil {
			c.Show = fmt.Sprintf("%q", c.In)
			run.Violate("c08-close", c, f, func() *h.Finding { return evalC08Close(c) })
			run.Outcome("violation:" + f.Sig)
		} else {
			run.Outcome("close-ok:" + c.Reason)
		}
		if i%1999 == 13 {
			run.Sample("close", 4, map[string]interface{}{"mode": c.Mode, "state": c.Prefix, "reason": c.Reason, "seg": c.Seg, "input": fmt.Sprintf("%q", c.In)})
		}
	})
	dcases := c08DeadlineCases()
	h.ParallelFor(len(dcases), func(i int) {
		c := dcases[i]
		f := evalC08Deadlines(c)
		run.Eval(true)
		if f != nil {
			run.Violate("c08-deadlines", c, f, func() *h.Finding { return evalC08Deadlines(c) })
			run.Outcome("violation:" + f.Sig)
		} else {
			run.Outcome("deadlines-ok")
		}
	})
	run.Sample("deadline-case", 1, dcases[0])
	scases := c08SilenceCases()
	h.ParallelFor(len(scases), func(i int) {
		c := scases[i]
		f := evalC08Silence(c)
		run.Eval(true)
		if f != nil {
			run.Violate("c08-silence", c, f, func() *h.Finding { return evalC08Silence(c) })
			run.Outcome("violation:" + f.Sig)
		} else {
			run.Outcome("silence-ok")
		}
	})
	h.ParallelFor(len(jobs), func(i int) {
		if run.Expired() {
			return
		}
		j := jobs[i]
		for _, per := range []bool{false, true} {
			c := CutCase{Conv: corpus[j.ci], Cut: j.cut, PerOctet: per}
			f := evalC08SilenceCut(c)
			run.Eval(j.cut >= len(hello(c.Conv.Mode)))
			if f != nil {
				c.Show = fmt.Sprintf("%q", c.Conv.In[:j.cut])
				run.Violate("c08-silence-cut", c, f, func() *h.Finding { return evalC08SilenceCut(c) })
				run.Outcome("violation:" + f.Sig)
			} else {
				run.Outcome("silence-cut-ok")
			}
		}
	})
	tcases := c08TLSCases()
	h.ParallelFor(len(tcases), func(i int) {
		c := tcases[i]
		f := evalC08TLS(c)
		run.Eval(true)
		if f != nil {
			run.Violate("c08-tls", c, f, func() *h.Finding { return evalC08TLS(c) })
			run.Outcome("violation:" + f.Sig)
		} else {
			run.Outcome("tls-ok:" + c.Handshake)
		}
		if i%97 == 5 {
			run.Sample("starttls-case", 3, c)
		}
	})
	return run.Finish()
}

// ---- conversations with STARTTLS (two sessions per connection, or a failed handshake) -----------------

type C08TLSCase struct {
	Handshake string   `json:"handshake"` // good | garbage (the client sends non-handshake octets) | disconnect (the client hangs up instead)
	Before    []string `json:"before"`    // commands before STARTTLS
	After     []string `json:"after"`     // commands after the (attempted) upgrade
	Term      string   `json:"term"`
}

// perSessionOracle: every session exactly one Logout, and no callback on a session begins after ITS Logout.
func perSessionOracle(tr []h.Event) *h.Finding {
	logouts := map[int]int{}
	created := map[int]bool{}
	for _, e := range tr {
		switch e.Kind {
		case "NewSession":
			if e.Sess > 0 {
				created[e.Sess] = true
			}
		case "Logout":
			logouts[e.Sess]++
		case "SetStatus", "AuthMechs":
		default:
			if logouts[e.Sess] > 0 {
				return h.F("c08-callback-after-logout", "callback %s(%s) began on session #%d after its Logout: %s", e.Kind, e.Arg, e.Sess, h.Calls(tr))
			}
		}
	}
	for id := range created {
		if logouts[id] != 1 {
			return h.F("c08-logout-count", "session #%d received %d Logout calls, want exactly 1: %s", id, logouts[id], h.Calls(tr))
		}
	}
	return nil
}

func evalC08TLS(c C08TLSCase) *h.Finding {
	var f *h.Finding
	desc := fmt.Sprintf("%+v", c)
	pc := ref.PConfig{TLSAvail: true, AllowInsecureAuth: true, AuthBackend: true}
	cfg, be := serverFor(pc)
	var logText string
	leak, pan := h.Bubble(func() {
		live := h.NewLive(cfg, be, false)
		live.Greeting()
		for _, l := range c.Before {
			live.Send([]byte(l + "\r\n"))
		}
		out := live.Send([]byte("STARTTLS\r\n"))
		if !strings.HasPrefix(string(out), "220") {
			f = h.F("c08-tls-harness", "%s: STARTTLS answered %q", desc, out)
			return
		}
		switch c.Handshake {
		case "good":
			if err := live.StartTLSHandshake(); err != nil {
				f = h.F("c08-tls-harness", "%s: handshake failed: %v", desc, err)
				return
			}
		case "garbage":
			live.Send([]byte("hello"))
		case "disconnect":
			live.Hangup(c.Term)
			logText = live.Log.String()
			return
		}
		for _, l := range c.After {
			live.Send([]byte(l + "\r\n"))
		}
		live.Hangup(c.Term)
		logText = live.Log.String()
	})
	if f != nil {
		return f
	}
	if pan != "" {
		return h.F("c08-harness-panic", "%s: %s", desc, pan)
	}
	if leak != "" {
		return h.F("c08-goroutine-leak", "%s: %.300s", desc, leak)
	}
	if g := perSessionOracle(be.Trace()); g != nil {
		g.What = desc + ": " + g.What
		return g
	}
	if strings.Contains(logText, "panic") {
		return h.F("c08-recovered-panic", "%s: recovered panic: %s", desc, firstLogLine(logText))
	}
	return nil
}

func init() { h.RegisterReplayer("c08-tls", evalC08TLS) }

func c08TLSCases() []C08TLSCase {
	var out []C08TLSCase
	befores := [][]string{{}, {"EHLO c.example"}, {"EHLO c.example", "AUTH ONE Z29vZA=="}, {"EHLO c.example", "MAIL FROM:<ok@a.example>", "RCPT TO:<ok@b.example>"}, {"EHLO c.example", "MAIL FROM:<ok@a.example>", "RCPT TO:<ok@b.example>", "BDAT 3\r\nabc"}}
	afters := [][]string{{}, {"NOOP"}, {"MAIL FROM:<ok@c.example>", "RCPT TO:<ok@d.example>"}, {"EHLO d.example", "MAIL FROM:<ok@c.example>", "RCPT TO:<ok@d.example>", "RSET"}, {"EHLO d.example", "QUIT"}, {"QUIT"}, {"FOO", "BAR", "BAZZ", "QUUX"}}
	for _, hs := range []string{"good", "garbage", "disconnect"} {
		for _, b := range befores {
			for _, a := range afters {
				if hs == "disconnect" && len(a) > 0 {
					continue
				}
				for _, term := range []string{h.TermEOF, h.TermTimeout, h.TermReset} {
					out = append(out, C08TLSCase{Handshake: hs, Before: b, After: a, Term: term})
				}
			}
		}
	}
	return out
}

// ---- a silence longer than the read timeout ---------------------------------------------------------------------

type C08SilenceCase struct {
	Mode   string   `json:"mode"`
	Where  string   `json:"where"`
	Before []string `json:"before"` // segments sent before the silence
}

// evalC08Silence: ReadTimeout is one minute; the peer stays silent for five minutes at a given point and then sends
// more commands. The idle timeout is one of the reasons for which the server gives up on a connection: whatever
// arrives afterwards is not executed.
func evalC08Silence(c C08SilenceCase) *h.Finding {
	pc := ref.PConfig{LMTP: strings.HasPrefix(c.Mode, "lmtp"), LMTPBackend: c.Mode == "lmtp-rcpt", AllowInsecureAuth: true, AuthBackend: true}
	cfg, be := serverFor(pc)
	cfg.ReadTO, cfg.WriteTO = time.Minute, time.Minute
	var segs [][]byte
	for _, s := range c.Before {
		segs = append(segs, []byte(s))
	}
	cfg.LongPauseBefore = len(segs) + 1
	segs = append(segs, []byte("MAIL FROM:<okafter@a.example>\r\nRCPT TO:<okafter@b.example>\r\nNOOP\r\n"), []byte("NOOP\r\n"))
	o := h.RunS(cfg, be, segs, h.TermEOF)
	desc := fmt.Sprintf("mode=%s: five minutes of silence (ReadTimeout 1m) %s, then more commands", c.Mode, c.Where)
	if f := o.Sanity("c08", desc); f != nil {
		return f
	}
	if f := sessionOracle(o.Trace, false, o.Log); f != nil {
		f.What = desc + ": " + f.What
		return f
	}
	for _, e := range o.Trace {
		if strings.Contains(e.Arg, "okafter@") {
			return h.F("c08-executed-after-timeout", "%s: a command sent after the idle timeout was executed: %s(%s); replies %s", desc, e.Kind, e.Arg, o.Codes())
		}
	}
	if !o.Closed {
		return h.F("c08-not-closed-after-timeout", "%s: the server did not close the connection (replies %s)", desc, o.Codes())
	}
	return nil
}

func init() { h.RegisterReplayer("c08-silence", evalC08Silence) }

func c08SilenceCases() []C08SilenceCase {
	var out []C08SilenceCase
	for _, mode := range corpusModes {
		hl := hello(mode)
		tx := "MAIL FROM:<ok@a.example>\r\nRCPT TO:<ok@b.example>\r\n"
		out = append(out,
			C08SilenceCase{Mode: mode, Where: "before the first command", Before: nil},
			C08SilenceCase{Mode: mode, Where: "after the greeting exchange", Before: []string{hl}},
			C08SilenceCase{Mode: mode, Where: "while the server waits for the answer to a 334 challenge", Before: []string{hl, "AUTH ONE\r\n"}},
			C08SilenceCase{Mode: mode, Where: "inside a transaction", Before: []string{hl, tx}},
			C08SilenceCase{Mode: mode, Where: "inside a message (after 354)", Before: []string{hl, tx, "DATA\r\n", "first line\r\n"}},
			C08SilenceCase{Mode: mode, Where: "inside a chunk", Before: []string{hl, tx, "BDAT 20\r\n", "half of it"}},
			C08SilenceCase{Mode: mode, Where: "between two chunks", Before: []string{hl, tx, "BDAT 4\r\nabc\n"}},
		)
	}
	return out
}

// ---- a silence longer than the read timeout at EVERY offset of the corpus ------------------------------------------

// evalC08SilenceCut: the peer sends the first Cut octets of a corpus conversation, stays silent for five minutes
// (ReadTimeout one minute) and then sends the rest of the conversation and more commands. Differential oracle with no
// hand-written expectation: to the server an idle timeout is an idle timeout whether or not something arrives later,
// so wire and callbacks must be those of the same conversation CUT at that offset by a timeout (the run of family (a)),
// the connection must be closed, and nothing of what arrived after the silence may be executed.
func evalC08SilenceCut(c CutCase) *h.Finding {
	ct := c
	ct.Term = h.TermTimeout
	a, _ := runCut(ct)
	cfg, be := modeConfig(c.Conv.Mode)
	cfg.MaxMessageBytes = c.Conv.Limit
	cfg.ReadTO, cfg.WriteTO = time.Minute, time.Minute
	in := c.Conv.In[:c.Cut]
	var segs [][]byte
	if c.PerOctet {
		segs = h.PerOctet(in)
	} else if len(in) > 0 {
		segs = h.OneSeg(in)
	}
	cfg.LongPauseBefore = len(segs) + 1
	rest := append(append([]byte{}, c.Conv.In[c.Cut:]...), []byte("\r\nMAIL FROM:<okafter@a.example>\r\nRCPT TO:<okafter@b.example>\r\nNOOP\r\n")...)
	segs = append(segs, rest, []byte("NOOP\r\n"))
	b := h.RunS(cfg, be, segs, h.TermEOF)
	desc := fmt.Sprintf("conv=%s/%s: %d of %d octets sent (peroctet=%t, ...%q), five minutes of silence (ReadTimeout 1m), then the rest and more commands", c.Conv.Name, c.Conv.Mode, c.Cut, len(c.Conv.In), c.PerOctet, tailStr(in, 40))
	if f := b.Sanity("c08", desc); f != nil {
		return f
	}
	if !b.Closed {
		return h.F("c08-not-closed-after-timeout", "%s: the server did not close the connection (replies %s)", desc, b.Codes())
	}
	if f := sessionOracle(b.Trace, false, b.Log); f != nil {
		f.What = desc + ": " + f.What
		return f
	}
	for _, e := range b.Trace {
		if strings.Contains(e.Arg, "okafter@") {
			return h.F("c08-executed-after-timeout", "%s: a command sent after the idle timeout was executed: %s(%s); replies %s", desc, e.Kind, e.Arg, b.Codes())
		}
	}
	if a.Sanity("c08", desc) != nil {
		return nil // reported by family (a)
	}
	if h.Calls(a.Trace) != h.Calls(b.Trace) {
		return h.F("c08-silence-differs-from-cut", "%s: callbacks differ from those of the conversation cut by a timeout at the same offset:\n  cut:     %s\n  silence: %s", desc, h.Calls(a.Trace), h.Calls(b.Trace))
	}
	if string(a.Wire) != string(b.Wire) {
		return h.F("c08-silence-differs-from-cut", "%s: the server's output differs from that of the conversation cut by a timeout at the same offset:\n  cut:     %q\n  silence: %q", desc, tailStr(a.Wire, 200), tailStr(b.Wire, 200))
	}
	return nil
}

func init() { h.RegisterReplayer("c08-silence-cut", evalC08SilenceCut) }

// ---- idle-timeout arming -------------------------------------------------------------------------------

type C08DeadlineCase struct {
	Mode string   `json:"mode"`
	Segs []string `json:"segs"` // one segment per element; the peer pauses 40 s (virtual) before each
}

// evalC08Deadlines: "idle timeout" as a close reason presupposes that the server arms a fresh read deadline
// for every wait. ReadTimeout/WriteTimeout are one minute, the peer pauses 40 s before each segment.
func evalC08Deadlines(c C08DeadlineCase) *h.Finding {
	pc := ref.PConfig{LMTP: strings.HasPrefix(c.Mode, "lmtp"), LMTPBackend: c.Mode == "lmtp-rcpt", AllowInsecureAuth: true, AuthBackend: true}
	cfg, be := serverFor(pc)
	cfg.Timeouts, cfg.PeerPause = true, true
	var segs [][]byte
	for _, s := range c.Segs {
		segs = append(segs, []byte(s))
	}
	o := h.RunS(cfg, be, segs, h.TermTimeout)
	desc := fmt.Sprintf("mode=%s segments=%q (ReadTimeout 1m, 40s pause before each)", c.Mode, c.Segs)
	if f := o.Sanity("c08", desc); f != nil {
		return f
	}
	if f := sessionOracle(o.Trace, false, o.Log); f != nil {
		f.What = desc + ": " + f.What
		return f
	}
	// the final wait ends in the idle timeout: 421 and closed
	n := len(o.Replies)
	if n == 0 || o.Replies[n-1].Code != 421 && o.Replies[n-1].Code != 221 {
		return h.F("c08-idle-timeout-reply", "%s: the connection did not end with 421 (or 221): %s", desc, o.Codes())
	}
	return nil
}

func init() { h.RegisterReplayer("c08-deadlines", evalC08Deadlines) }

func c08DeadlineCases() []C08DeadlineCase {
	var out []C08DeadlineCase
	for _, mode := range corpusModes {
		hl := hello(mode)
		out = append(out,
			C08DeadlineCase{Mode: mode, Segs: []string{hl, "NOOP\r\n", "NOOP\r\n", "NOOP\r\n"}},
			C08DeadlineCase{Mode: mode, Segs: []string{"NOOP\r\n", hl, "MAIL FROM:<ok@a.example>\r\n", "RCPT TO:<ok@b.example>\r\n", "RSET\r\n", "NOOP\r\n"}},
			C08DeadlineCase{Mode: mode, Segs: []string{hl, "AUTH ONE\r\n", "Z29vZA==\r\n", "NOOP\r\n", "MAIL FROM:<ok@a.example>\r\n"}},
			C08DeadlineCase{Mode: mode, Segs: []string{hl, "MAIL FROM:<ok@a.example>\r\n", "RCPT TO:<ok@b.example>\r\n", "DATA\r\nhello\r\n.\r\n", "NOOP\r\n", "QUIT\r\n"}}, // (the wait for the message after 354 runs under the deadline of the DATA command itself: not judged)
			C08DeadlineCase{Mode: mode, Segs: []string{hl, "MAIL FROM:<ok@a.example>\r\n", "RCPT TO:<ok@b.example>\r\n", "BDAT 3\r\nabc", "BDAT 2 LAST\r\nde", "NOOP\r\n"}},
			C08DeadlineCase{Mode: mode, Segs: []string{hl, "FOO\r\n", "BAR\r\n", "NOOP\r\n", "BAZZ\r\n"}},
		)
	}
	return out
}
