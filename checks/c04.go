package checks

import (
	"bytes"
	"fmt"
	"strings"
	"time"

	"verif/h"
	"verif/ref"
)

// C04: one well-formed reply per command, in order, reporting that command's outcome.
// Sequential part: BFS edges re-run under other sending disciplines, reply
// format, verdict attribution. (The schedule part lives in sched.go.)

type C04Case struct {
	PC    ref.PConfig `json:"config"`
	Hist  []int       `json:"history"`
	Names string      `json:"names"`
	Disc  string      `json:"discipline"` // pipelined | octet | split:<offset>
}

// checkFormat: every reply other than the greeting, the reply to
// HELO/EHLO/LHLO and 3xx replies carries an enhanced status code of the
// reply's class on every line.
func checkFormat(alpha []ref.Cmd, hist []int, r *histResult) *h.Finding {
	for _, s := range r.Steps {
		if s.Cmd < 0 {
			continue
		}
		c := alpha[hist[s.Cmd]]
		for _, rp := range s.Replies {
			if rp.Class() == 3 || c.Op == "HELLO" && rp.Class() == 2 {
				continue
			}
			if rp.Enh == "" || int(rp.Enh[0]-'0') != rp.Class() {
				return h.F("c04-enhanced-code", "history [%s]: reply to %q lacks an enhanced status code of its class on every line: %q", histNames(alpha, hist), c.Name, rp.Lines)
			}
		}
	}
	return nil
}

// checkVerdictText: a negative final reply carries that message's own error.
func checkVerdictText(alpha []ref.Cmd, hist []int, r *histResult) *h.Finding {
	ai := 0
	for _, s := range r.Steps {
		if s.Cmd < 0 {
			continue
		}
		if ai >= len(r.Alts) {
			break
		}
		alt := r.Alts[ai]
		ai++
		if alt.MsgVerdict == "reject" && alt.MsgText != "" {
			for _, rp := range s.Replies {
				if !strings.Contains(strings.Join(rp.Text, "\n"), alt.MsgText) {
					return h.F("c04-foreign-verdict", "history [%s]: the negative reply %q does not carry this message's own error (%q)", histNames(alpha, hist), rp.String(), alt.MsgText)
				}
			}
		}
	}
	return nil
}

func discSegments(sent []byte, disc string, cmdStart int) [][]byte {
	switch {
	case disc == "pipelined":
		return h.OneSeg(sent)
	case disc == "octet":
		return h.PerOctet(sent)
	case strings.HasPrefix(disc, "split:"):
		var k int
		fmt.Sscanf(disc, "split:%d", &k)
		return h.SplitAt(sent, k)
	}
	return nil
}

func evalC04Disc(c C04Case) *h.Finding {
	alpha := Alphabet(c.PC)
	ls := runLockstep("c04", c.PC, alpha, c.Hist)
	if ls.Finding != nil {
		return ls.Finding
	}
	return compareDisc(c, alpha, ls)
}

func compareDisc(c C04Case, alpha []ref.Cmd, ls *histResult) *h.Finding {
	cfg, be := serverFor(c.PC)
	o := h.RunS(cfg, be, discSegments(ls.Sent, c.Disc, 0), h.TermEOF)
	desc := fmt.Sprintf("history [%s] sent as %s", histNames(alpha, c.Hist), c.Disc)
	if f := o.Sanity("c04", desc); f != nil {
		return f
	}
	if !bytes.Equal(o.Wire, ls.Wire) {
		return h.F("c04-discipline-differs", "%s: the server's output differs from the lock-step conversation.\n   lock-step: %q\n   %s: %q\n   octets sent: %q", desc, ls.Wire, c.Disc, o.Wire, ls.Sent)
	}
	return nil
}

func init() { h.RegisterReplayer("c04-disc", evalC04Disc) }

func C04(tier string) int {
	run := h.NewRun("C04", tier, "model_checking", "", 25*time.Minute)
	c04Seq(run, tier)
	c04Case(run)
	c04Long(run)
	c04Slow(run)
	c04Sched(run, tier)
	run.Rule += " (e) a transfer in plaintext (DATA, BDAT, both, none), STARTTLS with a real handshake, then a transfer via DATA / BDAT LAST inside TLS with NOOP and MAIL pipelined behind it, x 3 modes x 5 messages: every command inside TLS gets its one reply."
	// (e) a transfer in plaintext, STARTTLS (real handshake), a transfer inside TLS with commands pipelined behind it:
	// every command inside TLS gets its one reply (the family of C02, judged here for the replies)
	for _, mode := range []string{"smtp", "lmtp", "lmtp-rcpt"} {
		for _, first := range []string{"none", "data", "bdat", "data+bdat"} {
			for mi := range c02UpgradeMsgs {
				for _, via := range []string{"data", "bdat"} {
					c := C02UpgradeCase{Mode: mode, First: first, Msg: mi, Via: via}
					f := evalC02Upgrade(c)
					run.Eval(true)
					if f != nil {
						f.Sig = strings.Replace(f.Sig, "c02-", "c04-", 1)
						run.Violate("c02-upgrade", c, f, func() *h.Finding { return evalC02Upgrade(c) })
					}
				}
			}
		}
	}
	return run.Finish()
}

func c04Seq(run *h.Run, tier string) {
	var cfgs []ref.PConfig
	if tier == "quick" {
		cfgs = []ref.PConfig{
			{MaxRcpt: 2, MaxBytes: 40, AllowInsecureAuth: true, AuthBackend: true, LineMax: 120},
			{LMTP: true, LMTPBackend: true, MaxRcpt: 2, AllowInsecureAuth: true, AuthBackend: true},
		}
	} else {
		for _, pc := range protocolConfigs("thorough") {
			if !pc.TLSAvail {
				if len(cfgs)%2 == 0 {
					pc.LineMax = 120 // every line of the alphabet is shorter; histories are much longer
				}
				cfgs = append(cfgs, pc)
			}
		}
	}
	run.Rule = fmt.Sprintf("the C03 breadth-first search (same alphabet, %d configurations without TLS so that every history can be re-sent as raw octets; half of them with MaxLineLength 120 - longer than any line, far shorter than a history); every transition is executed lock-step against the reference model (reply count and order per command, incl. 354/334 intermediates, one final reply per recipient in LMTP, the closing 500) and then the exact octets the lock-step client sent are re-sent (a) in ONE segment (fully pipelined), (b) one octet per segment, (c) split in two at the boundaries of the last command +-1 and in its middle; the server's output must be octet-identical. Every reply is parsed by a strict RFC 5321/2034 parser (ref/reply.go) and must carry an enhanced code of its class (except greeting, HELO/EHLO/LHLO, 3xx); negative final replies must carry the text of that message's own error.", len(cfgs))
	run.Assumptions = []string{"replies to STARTTLS-upgraded conversations are judged lock-step only (C03/C10), since dropping pipelined plaintext is required there", "reply text for control octets echoed from arguments is outside the alphabet (printable ASCII)"}
	for _, pc := range cfgs {
		alpha := Alphabet(pc)
		st := exploreProtocol(run, "c04", pc, alpha, 0, func(c ref.Cmd) bool { return c.Op == "STARTTLS" && false }, func(hist []int, r *histResult) {
			run.Eval(true)
			cs := C04Case{PC: pc, Hist: hist, Names: histNames(alpha, hist)}
			if f := checkFormat(alpha, hist, r); f != nil {
				run.Violate("c04-disc", cs, f, nil)
				return
			}
			if f := checkVerdictText(alpha, hist, r); f != nil {
				run.Violate("c04-disc", cs, f, nil)
				return
			}
			if r.UsedTLS {
				return
			}
			discs := []string{"pipelined", "octet"}
			// 2-splits around the last command
			last := alpha[hist[len(hist)-1]]
			n := 0
			for _, s := range last.Steps {
				n += len(s)
			}
			start := len(r.Sent) - n
			if start < 0 {
				start = 0
			}
			seen := map[int]bool{}
			for _, k := range []int{start - 1, start, start + 1, start + 4, start + n/2, len(r.Sent) - 2, len(r.Sent) - 1} {
				if k > 0 && k < len(r.Sent) && !seen[k] {
					seen[k] = true
					discs = append(discs, fmt.Sprintf("split:%d", k))
				}
			}
			for _, d := range discs {
				c := cs
				c.Disc = d
				run.Eval(true)
				if f := compareDisc(c, alpha, r); f != nil {
					run.Violate("c04-disc", c, f, func() *h.Finding { return evalC04Disc(c) })
					run.Outcome("violation:" + f.Sig)
					return
				}
			}
			run.Outcome(last.Op + ":" + replyCodes(r.Steps[len(r.Steps)-1].Replies))
		})
		run.State(int64(st.States))
		fmt.Printf("  config %+v: states=%d transitions=%d depth=%d\n", pc, st.States, st.Transitions, st.MaxDepth)
	}
}

// ---- command words are case-insensitive ------------------------------------------------------------------

type C04CaseCase struct {
	Mode     string `json:"mode"`
	Spelling string `json:"spelling"` // lower | mixed
}

var c04Verbs = []string{"EHLO", "LHLO", "HELO", "MAIL FROM", "RCPT TO", "DATA", "BDAT", "LAST", "RSET", "NOOP", "VRFY", "HELP", "AUTH", "QUIT", "STARTTLS", "BODY", "SIZE"}

func respell(conv string, how string) string {
	for _, v := range c04Verbs {
		var r string
		switch how {
		case "lower":
			r = strings.ToLower(v)
		default:
			b := []byte(strings.ToLower(v))
			for i := 0; i < len(b); i += 2 {
				if b[i] >= 'a' && b[i] <= 'z' {
					b[i] -= 32
				}
			}
			r = string(b)
		}
		conv = strings.ReplaceAll(conv, "\n"+v, "\n"+r)
		conv = strings.ReplaceAll(conv, " "+v, " "+r)
	}
	return conv
}

// evalC04Case: the same conversation with every command word in another spelling must produce the same output.
func evalC04Case(c C04CaseCase) *h.Finding {
	pc := ref.PConfig{LMTP: strings.HasPrefix(c.Mode, "lmtp"), LMTPBackend: c.Mode == "lmtp-rcpt", AllowInsecureAuth: true, AuthBackend: true}
	hl := strings.TrimSuffix(hello(c.Mode), "\r\n")
	conv := "\n" + hl + "\r\nNOOP\r\nVRFY x\r\nHELP\r\nAUTH ONE Z29vZA==\r\nMAIL FROM:<ok@a.example> BODY=8BITMIME SIZE=10\r\nRCPT TO:<ok@b.example>\r\nDATA\r\nData line: DATA NOOP QUIT stay as they are\r\n.\r\n" +
		"MAIL FROM:<ok@a.example>\r\nRCPT TO:<ok@b.example>\r\nBDAT 4\r\nBDAT" + "BDAT 5 LAST\r\nlast!" + "RSET\r\n" + hl + "\r\nSTARTTLS\r\nFOOB\r\nQUIT\r\n"
	other := respell(conv, c.Spelling)
	// payload and message content must not have been respelled: restore them
	other = strings.Replace(other, strings.Replace(respell("\nData line: DATA NOOP QUIT stay as they are", c.Spelling), "\n", "", 1), "Data line: DATA NOOP QUIT stay as they are", 1)
	run1 := func(in string) *h.Obs {
		cfg, be := serverFor(pc)
		return h.RunS(cfg, be, h.OneSeg([]byte(in[1:])), h.TermEOF)
	}
	a, b := run1(conv), run1(other)
	desc := fmt.Sprintf("mode=%s spelling=%s", c.Mode, c.Spelling)
	if f := b.Sanity("c04", desc); f != nil {
		return f
	}
	if !bytes.Equal(a.Wire, b.Wire) {
		return h.F("c04-case-sensitive", "%s: the server answers differently when command words are not in upper case.\n   sent:      %q\n   upper:     %q\n   respelled: %q", desc, other[1:], a.Wire, b.Wire)
	}
	if h.Calls(a.Trace) != h.Calls(b.Trace) {
		return h.F("c04-case-sensitive", "%s: backend calls differ: %s vs %s", desc, h.Calls(a.Trace), h.Calls(b.Trace))
	}
	return nil
}

func init() { h.RegisterReplayer("c04-case", evalC04Case) }

// ---- one reply to an over-long line, wherever it arrives ------------------------------------------------------

type C04LongCase struct {
	Mode string `json:"mode"`
	Pos  string `json:"pos"` // command | auth-continuation | in-transaction
	Seg  string `json:"seg"` // one | split | octet
}

func evalC04Long(c C04LongCase) *h.Finding {
	pc := ref.PConfig{LMTP: strings.HasPrefix(c.Mode, "lmtp"), LMTPBackend: c.Mode == "lmtp-rcpt", AllowInsecureAuth: true, AuthBackend: true}
	cfg, be := serverFor(pc)
	cfg.MaxLineLength = 64
	pre := hello(c.Mode)
	nPre := 2
	switch c.Pos {
	case "auth-continuation":
		pre += "AUTH ONE\r\n"
		nPre = 3
	case "in-transaction":
		pre += "MAIL FROM:<ok@a.example>\r\nRCPT TO:<ok@b.example>\r\n"
		nPre = 4
	}
	long := []byte(strings.Repeat("x", 200) + "\r\nNOOP\r\nNOOP\r\n")
	segs := [][]byte{[]byte(pre)}
	switch c.Seg {
	case "one":
		segs = append(segs, long)
	case "split":
		segs = append(segs, long[:40], long[40:])
	default:
		segs = append(segs, h.PerOctet(long)...)
	}
	o := h.RunS(cfg, be, segs, h.TermEOF)
	desc := fmt.Sprintf("mode=%s: a line of 200 octets (limit 64) as %s, segmentation %s", c.Mode, c.Pos, c.Seg)
	if f := o.Sanity("c04", desc); f != nil {
		return f
	}
	if o.ParseErr != nil {
		return h.F("c04-bad-wire", "%s: %v", desc, o.ParseErr)
	}
	// the prologue's replies, then exactly ONE final reply for the over-long line (the connection is closed with it)
	if len(o.Replies) != nPre+1 || o.Replies[nPre].Class() != 5 {
		return h.F("c04-long-line-replies", "%s: replies %s, want %d replies to the prologue and exactly one 5xx for the line", desc, o.Codes(), nPre)
	}
	return nil
}

func c04Long(run *h.Run) {
	for _, mode := range corpusModes {
		for _, pos := range []string{"command", "auth-continuation", "in-transaction"} {
			for _, seg := range []string{"one", "split", "octet"} {
				c := C04LongCase{Mode: mode, Pos: pos, Seg: seg}
				f := evalC04Long(c)
				run.Eval(true)
				if f != nil {
					run.Violate("c04-long", c, f, func() *h.Finding { return evalC04Long(c) })
					run.Outcome("violation:" + f.Sig)
				}
			}
		}
	}
}

func init() { h.RegisterReplayer("c04-long", evalC04Long) }

// ---- a slow backend and a read timeout: segmentation still does not matter -------------------------------------------

type C04SlowCase struct {
	Mode string `json:"mode"`
	Cut  int    `json:"cut"` // the conversation arrives in two segments, cut here (0: one segment)
	// Variant "" : ReadTimeout = WriteTimeout = 1 min, Mail/Rcpt take 90 s.
	// Variant "data": ReadTimeout 1 min, WriteTimeout 10 s, Mail/Rcpt take 40 s, Data/LMTPData take 40 s before they read and
	// 40 s before they return; the conversation transfers two messages to two recipients.
	// Variant "fast": the same conversation as "data" with no timeout and no delay (the reference).
	Variant string `json:"variant,omitempty"`
}

const c04SlowDataConv = "MAIL FROM:<ok@a.example>\r\nRCPT TO:<ok@b.example>\r\nRCPT TO:<ok2@b.example>\r\nDATA\r\naccept-1\r\nline two\r\n.\r\nNOOP\r\nMAIL FROM:<ok3@a.example>\r\nRCPT TO:<ok4@b.example>\r\nRCPT TO:<ok5@b.example>\r\nBDAT 10\r\naccept-2\r\nBDAT 3 LAST\r\nxyzNOOP\r\nQUIT\r\n"

const c04SlowConv = "MAIL FROM:<ok@a.example> SIZE=10\r\nRCPT TO:<ok@b.example>\r\nRCPT TO:<ok2@b.example> NOTIFY=SUCCESS,FAILURE\r\nNOOP\r\nRSET\r\nMAIL FROM:<ok3@a.example>\r\nQUIT\r\n"

func c04SlowRun(c C04SlowCase) (*h.Obs, string) {
	pc := ref.PConfig{LMTP: strings.HasPrefix(c.Mode, "lmtp"), LMTPBackend: c.Mode == "lmtp-rcpt", AllowInsecureAuth: true, AuthBackend: true}
	cfg, be := serverFor(pc)
	cfg.ReadTO, cfg.WriteTO = time.Minute, time.Minute
	be.Delay = 90 * time.Second // every Mail/Rcpt callback takes longer than the read timeout
	in := []byte(hello(c.Mode) + c04SlowConv)
	switch c.Variant {
	case "data":
		cfg.WriteTO = 10 * time.Second
		be.Delay, be.DataDelay = 40*time.Second, 40*time.Second
		in = []byte(hello(c.Mode) + c04SlowDataConv)
	case "fast":
		cfg.ReadTO, cfg.WriteTO = 0, 0
		be.Delay = 0
		in = []byte(hello(c.Mode) + c04SlowDataConv)
	}
	segs := h.OneSeg(in)
	if c.Cut > 0 {
		segs = h.SplitAt(in, c.Cut)
	}
	o := h.RunS(cfg, be, segs, h.TermEOF)
	var sb strings.Builder
	for _, r := range o.Replies {
		sb.WriteString(r.String() + "|")
	}
	for _, e := range o.Trace {
		fmt.Fprintf(&sb, "%s(%s;%s)", e.Kind, e.Arg, e.Opts)
	}
	return o, sb.String()
}

func evalC04Slow(c C04SlowCase) *h.Finding {
	o, got := c04SlowRun(c)
	desc := fmt.Sprintf("mode=%s: ReadTimeout 1m, every Mail/Rcpt callback takes 90s, the conversation cut after octet %d", c.Mode, c.Cut)
	if c.Variant == "data" {
		desc = fmt.Sprintf("mode=%s: ReadTimeout 1m, WriteTimeout 10s, Mail/Rcpt take 40s, Data takes 40s before reading and 40s before returning, two messages, the conversation cut after octet %d", c.Mode, c.Cut)
	}
	if f := o.Sanity("c04", desc); f != nil {
		return f
	}
	base := C04SlowCase{Mode: c.Mode}
	if c.Variant == "data" {
		// no read ever waits (all input is there), every write is taken at once: a slow backend alone changes nothing
		base.Variant = "fast"
	}
	_, want := c04SlowRun(base)
	if got != want {
		return h.F("c04-discipline-differs", "%s: the outcome differs from the reference (one segment; variant data: no timeouts, prompt backend).\n   got:  %s\n   want: %s", desc, got, want)
	}
	return nil
}

func c04Slow(run *h.Run) {
	for _, mode := range corpusModes {
		n := len(hello(mode) + c04SlowConv)
		h.ParallelFor(n, func(k int) {
			c := C04SlowCase{Mode: mode, Cut: k}
			f := evalC04Slow(c)
			run.Eval(true)
			if f != nil {
				run.Violate("c04-slow", c, f, func() *h.Finding { return evalC04Slow(c) })
				run.Outcome("violation:" + f.Sig)
			}
		})
		n = len(hello(mode) + c04SlowDataConv)
		h.ParallelFor(n, func(k int) {
			c := C04SlowCase{Mode: mode, Cut: k, Variant: "data"}
			f := evalC04Slow(c)
			run.Eval(true)
			if f != nil {
				run.Violate("c04-slow", c, f, func() *h.Finding { return evalC04Slow(c) })
				run.Outcome("violation:" + f.Sig)
			}
		})
	}
}

func init() { h.RegisterReplayer("c04-slow", evalC04Slow) }

func c04Case(run *h.Run) {
	for _, mode := range corpusModes {
		for _, sp := range []string{"lower", "mixed"} {
			c := C04CaseCase{Mode: mode, Spelling: sp}
			f := evalC04Case(c)
			run.Eval(true)
			if f != nil {
				run.Violate("c04-case", c, f, func() *h.Finding { return evalC04Case(c) })
				run.Outcome("violation:" + f.Sig)
			} else {
				run.Outcome("case-insensitive-ok")
			}
		}
	}
}
