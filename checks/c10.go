package checks

import (
	"errors"
	"bufio"
	"bytes"
	"crypto/tls"
	"crypto/x509"
	"fmt"
	"io"
	"net"
	"strconv"
	"strings"
	"sync"
	"time"

	"github.com/emersion/go-sasl"
	smtp "github.com/emersion/go-smtp"
	"verif/h"
	"verif/ref"
)

// C10: STARTTLS discards all plaintext state and input, on server and client.

type C10ServerCase struct {
	PC      ref.PConfig `json:"config"`
	Hist    []int       `json:"history"` // pre-STARTTLS history (indices into Alphabet(PC))
	Names   string      `json:"names"`
	Inject  string      `json:"inject"`   // plaintext put behind the STARTTLS command
	SameSeg bool        `json:"same_seg"` // in the same segment as STARTTLS / in a segment of its own before the handshake
	// SlowAbort: the backend needs 20 virtual seconds to return from a delivery whose reader failed (a rollback)
	SlowAbort bool `json:"slow_abort,omitempty"`
	// Paced: ReadTimeout 60 s, no WriteTimeout, and the client lets 25 virtual seconds pass before every send: never
	// idle for a whole ReadTimeout, but the session inside TLS lasts many times that long
	Paced bool `json:"paced,omitempty"`
	// LogoutErr: the backend's Logout returns an error (the upgrade must go on all the same: the old session is gone)
	LogoutErr bool `json:"logout_err,omitempty"`
}

// c10Probes: what is tried inside the TLS session (names from Alphabet).
var c10Probes = []string{"MAIL ok", "RCPT a", "DATA accept-d1", "BDAT accept-c2 LAST", "AUTH ok", "EHLO c2", "STARTTLS", "AUTH ok", "AUTH ok",
	// first a chunked transaction (a finished DATA transaction would wipe whatever per-transfer state had leaked), then DATA
	"MAIL ok", "RCPT b", "BDAT accept-c1", "BDAT accept-c2 LAST", "MAIL ok", "RCPT a", "DATA accept-d1", "NOOP"}

func evalC10Server(c C10ServerCase) (*h.Finding, string) {
	alpha := Alphabet(c.PC)
	idx := map[string]int{}
	for i, a := range alpha {
		idx[a.Name] = i
	}
	// the STARTTLS command with the injected plaintext behind it
	st := ref.Cmd{Name: "STARTTLS+" + c.Inject, Op: "STARTTLS", Steps: [][]byte{line("STARTTLS")}}
	opts := &lockOpts{}
	if c.SlowAbort {
		opts.Backend = func(be *h.Backend) { be.SlowAbort = 20 * time.Second }
		opts.Patience = 30 * time.Second
	}
	if c.LogoutErr {
		opts.Backend = func(be *h.Backend) { be.LogoutErr = errors.New("logout failed") }
	}
	if c.Paced {
		opts.Cfg = func(cfg *h.Config) { cfg.ReadTO = 60 * time.Second }
		opts.Pace = 25 * time.Second // a DATA command and its message are two sends under ONE deadline: 50 s < 60 s
	}
	if c.Inject != "" {
		if c.SameSeg {
			st.Steps = [][]byte{append(line("STARTTLS"), c.Inject...)}
		} else {
			opts.BeforeHandshake = func(l *h.Live) {
				l.SendRaw([]byte(c.Inject))
				h.Wait()
			}
			opts.HandshakeMayFail = true
		}
	}
	alpha = append(alpha, st)
	hist := append(append([]int(nil), c.Hist...), len(alpha)-1)
	preLen := len(hist)
	for _, p := range c10Probes {
		n := p
		if c.PC.LMTP && n == "EHLO c2" {
			n = "LHLO c2"
		}
		hist = append(hist, idx[n])
	}
	var extra *h.Finding
	opts.Final = func(l *h.Live, be *h.Backend, st ref.PState) {
		tr := be.Trace()
		sawTLSSession := false
		for _, e := range tr {
			if e.Kind == "NewSession" && e.TLS {
				sawTLSSession = true
			}
			if strings.Contains(e.Arg, "inject") || strings.Contains(e.Helo, "evil") {
				if opts.HandshakeFailed {
					continue // no TLS session came into being; the octets were plaintext commands on a plaintext connection
				}
				extra = h.F("c10-injected-plaintext-executed", "plaintext injected behind STARTTLS was interpreted: backend saw %s(%s%s)", e.Kind, e.Arg, e.Helo)
			}
		}
		if !opts.HandshakeFailed && !sawTLSSession {
			extra = h.F("c10-no-tls-session", "no session that sees the TLS state was created after the upgrade: %s", h.Calls(tr))
		}
		// an open chunked delivery must have failed
		for _, e := range tr {
			if (e.Kind == "Data" || e.Kind == "LMTPData") && !e.TLS && e.Ended && e.ReadErr == "EOF" {
				_ = e
			}
		}
	}
	r := runLockstepOpt("c10", c.PC, alpha, hist, opts)
	if r.Finding != nil {
		if r.FailedAt < preLen-1 {
			return h.F("c10-prefix-diverged", "%s", r.Finding.What), ""
		}
		return r.Finding, ""
	}
	if extra != nil {
		extra.What = fmt.Sprintf("history [%s] then STARTTLS with %q (same segment: %t): %s", c.Names, c.Inject, c.SameSeg, extra.What)
		return extra, ""
	}
	if opts.HandshakeFailed {
		return nil, "handshake-failed"
	}
	return nil, "upgraded"
}

func init() {
	h.RegisterReplayer("c10-server", func(c C10ServerCase) *h.Finding { f, _ := evalC10Server(c); return f })
	h.RegisterReplayer("c10-client", evalC10Client)
}

// ---- client half -------------------------------------------------------------------------

type C10ClientCase struct {
	Entry    string `json:"entry"`    // NewClientStartTLS | DialStartTLS | SendMail
	Behavior string `json:"behavior"` // good | no-starttls | ehlo-refused | 454 | 220-garbage | 220-untrusted | 220-inject
	Auth     bool   `json:"auth"`     // SendMail with a SASL client
}

type fakeTLSServer struct {
	mu        sync.Mutex
	plain     []string // plaintext lines received (before a handshake completed)
	tlsLines  []string // lines received inside TLS
	handshake bool
	hsErr     error
	// octets received after the server answered STARTTLS with garbage
	afterGarbage []byte
}

// serve implements the scripted (mis)behaving server on conn.
func (s *fakeTLSServer) serve(conn net.Conn, behavior string) {
	defer conn.Close()
	conn.SetDeadline(time.Now().Add(90 * time.Second))
	io.WriteString(conn, "220 fake.example ESMTP\r\n")
	br := bufio.NewReader(conn)
	inTLS := false
	inData := false
	for {
		l, err := br.ReadString('\n')
		if err != nil {
			return
		}
		s.mu.Lock()
		if inTLS {
			s.tlsLines = append(s.tlsLines, l)
		} else {
			s.plain = append(s.plain, l)
		}
		s.mu.Unlock()
		if inData {
			if l == ".\r\n" {
				inData = false
				io.WriteString(conn, "250 2.0.0 queued\r\n")
			}
			continue
		}
		verb := strings.ToUpper(strings.TrimRight(strings.SplitN(l, " ", 2)[0], "\r\n"))
		switch verb {
		case "EHLO":
			switch {
			case inTLS && behavior == "tls-ehlo-refused":
				// inside TLS this server only speaks HELO: the client must end up with NO extensions,
				// not with the ones it heard in plaintext
				io.WriteString(conn, "502 5.5.1 EHLO not implemented here\r\n")
			case inTLS && strings.HasPrefix(behavior, "tls-ehlo-code:"):
				// inside TLS the EHLO is refused with some other code: whatever the client does next, it has no
				// capability list for this session
				io.WriteString(conn, strings.TrimPrefix(behavior, "tls-ehlo-code:")+" 5.0.0 Duplicate HELO/EHLO\r\n")
			case inTLS && behavior == "tls-ehlo-noauth":
				// extensions, but no AUTH line at all inside TLS
				io.WriteString(conn, "250-fake.example\r\n250-8BITMIME\r\n250 SIZE 4242\r\n")
			case inTLS && behavior == "tls-ehlo-bare":
				// inside TLS the server greets with a single line: it offers NO extension at all
				io.WriteString(conn, "250 fake.example\r\n")
			case inTLS:
				// the TLS capability list deliberately differs from anything said in plaintext
				io.WriteString(conn, "250-fake.example\r\n250-8BITMIME\r\n250-AUTH TLSONLY\r\n250 SIZE 4242\r\n")
			case behavior == "ehlo-refused":
				io.WriteString(conn, "502 5.5.1 EHLO not implemented\r\n")
			case behavior == "no-starttls":
				io.WriteString(conn, "250-fake.example\r\n250-AUTH PLAINTEXTMECH\r\n250 SIZE 1111\r\n")
			default:
				io.WriteString(conn, "250-fake.example\r\n250-STARTTLS\r\n250-AUTH PLAINTEXTMECH\r\n250 SIZE 1111\r\n")
			}
		case "HELO":
			io.WriteString(conn, "250 fake.example\r\n")
		case "STARTTLS":
			switch behavior {
			case "454":
				io.WriteString(conn, "454 4.7.0 TLS not available\r\n")
				continue
			case "220-garbage":
				io.WriteString(conn, "220 2.0.0 ready\r\n")
				// wait for the first octet of the client's handshake, then talk nonsense
				first := make([]byte, 1)
				io.ReadFull(br, first)
				io.WriteString(conn, "this is not a TLS record at all, sorry\r\n250 ok\r\n")
				// whatever else arrives is the client's TLS handshake attempt (binary records), not SMTP:
				// keep it apart, it is only searched for the secrets
				rest, _ := io.ReadAll(br)
				s.mu.Lock()
				s.afterGarbage = append(first, rest...)
				s.mu.Unlock()
				return
			}
			cfg := h.ServerTLSConfig()
			if behavior == "220-untrusted" {
				cfg = h.UntrustedServerTLSConfig()
			}
			if strings.HasPrefix(behavior, "220-inject-long:") {
				// a long run of octets WITHOUT a line end right behind the 220, in the same write: not even their
				// number may matter inside the TLS session
				n, _ := strconv.Atoi(strings.TrimPrefix(behavior, "220-inject-long:"))
				io.WriteString(conn, "220 2.0.0 ready\r\n"+strings.Repeat("j", n))
			} else if behavior == "220-inject" {
				// injected plaintext replies right behind the 220, in the same write
				io.WriteString(conn, "220 2.0.0 ready\r\n250-fake.example\r\n250-AUTH INJECTED\r\n250 SIZE 9999\r\n")
			} else {
				io.WriteString(conn, "220 2.0.0 ready\r\n")
			}
			tc := tls.Server(conn, cfg)
			err := tc.Handshake()
			s.mu.Lock()
			s.hsErr = err
			s.handshake = err == nil
			s.mu.Unlock()
			if err != nil {
				return
			}
			conn = tc
			br = bufio.NewReader(conn)
			inTLS = true
		case "AUTH":
			io.WriteString(conn, "235 2.7.0 ok\r\n")
		case "DATA":
			inData = true
			io.WriteString(conn, "354 go\r\n")
		case "QUIT":
			io.WriteString(conn, "221 2.0.0 bye\r\n")
			return
		default:
			io.WriteString(conn, "250 2.0.0 ok\r\n")
		}
	}
}

type plainSASL struct{}

func (plainSASL) Start() (string, []byte, error) { return "TLSONLY", []byte("secret-credentials"), nil }
func (plainSASL) Next([]byte) ([]byte, error)    { return nil, nil }

var _ sasl.Client = plainSASL{}

var c10HookOnce sync.Once

// trustHarnessCA makes the TLS configuration that the package-level entry points (SendMail, DialStartTLS with a nil
// configuration) build for themselves trust the harness's certificate (hook in /repo/verif_hooks.go).
func trustHarnessCA() {
	c10HookOnce.Do(func() {
		smtp.VerifSetStartTLSHook(func(cfg *tls.Config) {
			if cfg.RootCAs == nil {
				pool := x509.NewCertPool()
				pool.AddCert(h.ServerTLSConfig().Certificates[0].Leaf)
				cfg.RootCAs = pool
			}
			cfg.ServerName = "srv.example"
		})
	})
}

func evalC10Client(c C10ClientCase) (f *h.Finding) {
	desc := fmt.Sprintf("%+v", c)
	defer func() {
		if p := recover(); p != nil {
			f = h.F("c10-client-panic", "%s: the client panicked: %v", desc, p)
		}
	}()
	trustHarnessCA()
	srv := &fakeTLSServer{}
	var callErr error
	var authCaps string
	var sizeSeen int
	var haveClient, plainMechTrusted bool
	done := make(chan struct{})
	useClient := func(cl *smtp.Client) {
		// what a careful caller does next: look at the capabilities, authenticate, send
		haveClient = true
		if ok, v := cl.Extension("AUTH"); ok {
			authCaps = v
		}
		sizeSeen, _ = cl.MaxMessageSize()
		// every accessor answers from the hello inside TLS: a mechanism only the plaintext hello named is not supported
		if cl.SupportsAuth("PLAINTEXTMECH") || cl.SupportsAuth("INJECTED") {
			plainMechTrusted = true
		}
		if c.Auth {
			// as the package-level SendMail does: authenticate only if the (renegotiated) hello offers AUTH
			if ok, _ := cl.Extension("AUTH"); !ok {
				callErr = fmt.Errorf("harness: server does not offer AUTH")
			} else if err := cl.Auth(plainSASL{}); err != nil && callErr == nil {
				callErr = err
			}
		}
		if callErr == nil {
			callErr = cl.SendMail("secret-sender@a.example", []string{"secret-rcpt@b.example"}, strings.NewReader("Subject: secret-content\r\n\r\nbody\r\n"))
		}
		cl.Close()
	}
	switch c.Entry {
	case "NewClientStartTLS":
		cEnd, sEnd := h.NewDuplex() // unbounded queues: a close_notify nobody reads cannot block
		go func() { srv.serve(sEnd, c.Behavior); close(done) }()
		cl, err := smtp.NewClientStartTLS(cEnd, h.ClientTLSConfig())
		if err != nil {
			callErr = err
			cEnd.Close()
		} else {
			useClient(cl)
		}
	case "DialStartTLS", "SendMail":
		ln, err := net.Listen("tcp", "127.0.0.1:0")
		if err != nil {
			return h.F("harness-error", "listen: %v", err)
		}
		defer ln.Close()
		go func() {
			conn, err := ln.Accept()
			if err == nil {
				srv.serve(conn, c.Behavior)
			}
			close(done)
		}()
		if c.Entry == "DialStartTLS" {
			cl, err := smtp.DialStartTLS(ln.Addr().String(), h.ClientTLSConfig())
			if err != nil {
				callErr = err
			} else {
				useClient(cl)
			}
		} else {
			var a sasl.Client
			if c.Auth {
				a = plainSASL{}
			}
			callErr = smtp.SendMail(ln.Addr().String(), a, "secret-sender@a.example", []string{"secret-rcpt@b.example"}, strings.NewReader("Subject: secret-content\r\n\r\nbody\r\n"))
		}
		ln.Close()
	}
	select {
	case <-done:
	case <-time.After(180 * time.Second):
		return h.F("c10-client-hang", "%s: the scripted server did not finish", desc)
	}
	srv.mu.Lock()
	defer srv.mu.Unlock()
	// nothing but EHLO/HELO/STARTTLS/QUIT/NOOP/RSET in plaintext, ever
	for _, l := range srv.plain {
		verb := strings.ToUpper(strings.TrimRight(strings.SplitN(l, " ", 2)[0], "\r\n"))
		switch verb {
		case "EHLO", "HELO", "STARTTLS", "QUIT", "NOOP", "RSET":
		default:
			return h.F("c10-plaintext-leak", "%s: the client sent %q in plaintext (all plaintext lines: %q)", desc, l, srv.plain)
		}
		if strings.Contains(l, "secret") {
			return h.F("c10-plaintext-leak", "%s: the client sent %q in plaintext", desc, l)
		}
	}
	if bytes.Contains(srv.afterGarbage, []byte("secret")) || bytes.Contains(srv.afterGarbage, []byte("MAIL FROM")) {
		return h.F("c10-plaintext-leak", "%s: after a garbled handshake the client sent %q in the clear", desc, srv.afterGarbage)
	}
	if plainMechTrusted {
		return h.F("c10-plaintext-capabilities-trusted", "%s: after the upgrade SupportsAuth still reports a mechanism that only the plaintext hello (or an injected reply) named", desc)
	}
	if c.Behavior == "tls-ehlo-noauth" {
		// the hello inside TLS offers 8BITMIME and SIZE 4242 but no AUTH
		joined := strings.Join(srv.tlsLines, "")
		if haveClient && (authCaps != "" || sizeSeen != 4242) {
			return h.F("c10-plaintext-capabilities-trusted", "%s: the hello inside TLS offered SIZE 4242 and no AUTH, yet the client reports AUTH %q and SIZE %d", desc, authCaps, sizeSeen)
		}
		if strings.Contains(joined, "AUTH ") {
			return h.F("c10-plaintext-capabilities-trusted", "%s: the client used AUTH, which only the plaintext hello offered: %q", desc, srv.tlsLines)
		}
		if c.Auth && callErr == nil {
			return h.F("c10-plaintext-capabilities-trusted", "%s: AUTH was requested, the TLS session offers none, but the call chain returned nil", desc)
		}
		return nil
	}
	if strings.HasPrefix(c.Behavior, "tls-ehlo-code:") {
		joined := strings.Join(srv.tlsLines, "")
		if haveClient && (authCaps != "" || sizeSeen != 0) {
			return h.F("c10-plaintext-capabilities-trusted", "%s: inside TLS the EHLO was refused, yet the client reports AUTH %q and SIZE %d (heard in plaintext)", desc, authCaps, sizeSeen)
		}
		if strings.Contains(joined, "AUTH ") || strings.Contains(joined, "BODY=") || strings.Contains(joined, "SIZE=") {
			return h.F("c10-plaintext-capabilities-trusted", "%s: the client used extensions it only heard about in plaintext: %q", desc, srv.tlsLines)
		}
		if c.Auth && callErr == nil {
			return h.F("c10-plaintext-capabilities-trusted", "%s: AUTH was requested, the TLS session offers none, but the call chain returned nil", desc)
		}
		return nil
	}
	if c.Behavior == "tls-ehlo-refused" || c.Behavior == "tls-ehlo-bare" {
		// the upgrade works, the renegotiated hello falls back to HELO: no capability may survive
		joined := strings.Join(srv.tlsLines, "")
		if haveClient && (authCaps != "" || sizeSeen != 0) {
			return h.F("c10-plaintext-capabilities-trusted", "%s: inside TLS the server offered no extension (HELO only / a bare 250), yet the client reports AUTH %q and SIZE %d (heard in plaintext)", desc, authCaps, sizeSeen)
		}
		if strings.Contains(joined, "AUTH ") || strings.Contains(joined, "BODY=") || strings.Contains(joined, "SIZE=") {
			return h.F("c10-plaintext-capabilities-trusted", "%s: the client used extensions it only heard about in plaintext: %q", desc, srv.tlsLines)
		}
		if c.Auth && callErr == nil {
			return h.F("c10-plaintext-capabilities-trusted", "%s: AUTH was requested, the TLS session offers none, but the call chain returned nil", desc)
		}
		if len(srv.tlsLines) == 0 || !strings.HasPrefix(strings.ToUpper(srv.tlsLines[0]), "EHLO") {
			return h.F("c10-no-renegotiation", "%s: the first line inside TLS is not EHLO: %q", desc, srv.tlsLines)
		}
		return nil
	}
	injected := c.Behavior == "220-inject" || strings.HasPrefix(c.Behavior, "220-inject-long:")
	if injected && callErr != nil && len(srv.tlsLines) == 0 {
		return nil // the client noticed the extra plaintext and gave up before it said anything inside TLS: fine
	}
	good := c.Behavior == "good" || injected
	if !good {
		if callErr == nil {
			return h.F("c10-no-error", "%s: the upgrade cannot have worked but the call chain returned nil", desc)
		}
		if len(srv.tlsLines) > 0 {
			return h.F("c10-harness", "%s: lines inside TLS although the handshake cannot have worked: %q", desc, srv.tlsLines)
		}
		return nil
	}
	if callErr != nil {
		return h.F("c10-good-failed", "%s: a correct upgrade failed: %v (handshake error on the server: %v)", desc, callErr, srv.hsErr)
	}
	if len(srv.tlsLines) == 0 || !strings.HasPrefix(strings.ToUpper(srv.tlsLines[0]), "EHLO") {
		return h.F("c10-no-renegotiation", "%s: the first line inside TLS is not EHLO: %q", desc, srv.tlsLines)
	}
	if haveClient {
		if authCaps != "TLSONLY" || sizeSeen != 4242 {
			return h.F("c10-plaintext-capabilities-trusted", "%s: after the upgrade the client reports AUTH %q and SIZE %d; the TLS session advertised AUTH TLSONLY and SIZE 4242", desc, authCaps, sizeSeen)
		}
	}
	joined := strings.Join(srv.tlsLines, "")
	if !strings.Contains(joined, "secret-sender") || !strings.Contains(joined, "secret-content") {
		return h.F("c10-harness", "%s: the message did not arrive inside TLS: %q", desc, srv.tlsLines)
	}
	if c.Auth && !strings.Contains(joined, "AUTH TLSONLY") {
		return h.F("c10-harness", "%s: AUTH did not happen inside TLS: %q", desc, srv.tlsLines)
	}
	return nil
}

func C10(tier string) int {
	run := h.NewRun("C10", tier, "model_checking", "", 25*time.Minute)
	var cfgs []ref.PConfig
	cfgs = append(cfgs, ref.PConfig{MaxRcpt: 2, MaxBytes: 40, TLSAvail: true, AllowInsecureAuth: true, AuthBackend: true})
	if tier == "thorough" {
		cfgs = append(cfgs, ref.PConfig{LMTP: true, LMTPBackend: true, MaxRcpt: 2, TLSAvail: true, AllowInsecureAuth: true, AuthBackend: true},
			ref.PConfig{TLSAvail: true, AllowInsecureAuth: false, AuthBackend: true}, ref.PConfig{LMTP: true, TLSAvail: true, AllowInsecureAuth: true, AuthBackend: true})
	}
	injects := []string{"", "MAIL FROM:<okinject@x.example>\r\n", "RCPT TO:<okinject@x.example>\r\n", "EHLO evil.example\r\nMAIL FROM:<okinject@x.example>\r\nRCPT TO:<okinject@y.example>\r\n", "RSET\r\nNOOP\r\n", "BDAT 5 LAST\r\ninject",
		// no line break at all, just under the line limit: not even the line COUNTER may cross into the TLS session
		strings.Repeat("i", 1985)}
	run.Rule = fmt.Sprintf("SERVER: phase 1 - the C03 breadth-first search (alphabet without STARTTLS) collects one shortest history for EVERY reachable pre-STARTTLS state (greeted, authenticated, mid-transaction, mid-BDAT, after errors ...) of %d configuration(s); phase 2 - for every such state x injected plaintext %q x {same segment as STARTTLS, own segment before the ClientHello}: STARTTLS, real TLS handshake, then %d probe commands inside TLS (MAIL/RCPT/DATA/BDAT/AUTH before the new EHLO, EHLO, STARTTLS again, AUTH twice, a full transaction), every step compared with the reference model (old session: Logout and no Reset; nothing remembered; NewSession of the new EHLO sees TLS and the new name; AUTH state gone; envelope gone) plus: no injected command is ever executed once TLS is up; every state once more with a backend that needs 20 virtual seconds to abandon an open delivery (the old session is logged out only after its Data call has returned), once more with a backend whose Logout returns an error, five longer pre-histories (messages transferred, authenticated, transfer abandoned - what the state key cannot tell from a fresh connection), and once more with ReadTimeout 60 s and a client that lets 25 virtual seconds pass before every send (no deadline armed for the handshake may outlive it). CLIENT: entry points {NewClientStartTLS (in-memory), DialStartTLS, SendMail (loopback)} x scripted server behaviours {good, no STARTTLS keyword, EHLO refused -> HELO fallback, 454, 220 then garbage, 220 with an untrusted certificate, 220 with injected plaintext replies behind it then a good handshake, good handshake after which EHLO is refused and only HELO accepted, good handshake after which EHLO is answered by a bare 250 line, 220 followed in the same write by 1..1997 octets without a line end (not even their NUMBER may matter inside TLS: the upgrade works, or the client gives up before it says anything inside TLS), good handshake after which EHLO is answered 421/451/501/503/504/550/554 (no capability heard in plaintext may be reported or used)} x {with, without SASL client}: raw octets before the handshake contain only EHLO/HELO/STARTTLS/QUIT, the first line inside TLS is EHLO and ITS capability list is used, every bad case returns an error. states = pre-STARTTLS states; transitions = conversations.", len(cfgs), injects, len(c10Probes))
	run.Assumptions = []string{"plaintext put on the wire between the 220 reply and the ClientHello makes the handshake fail (no TLS session exists); what the server does with a failed handshake is not judged", "loopback TCP is used for DialStartTLS/SendMail (they insist on dialling), outside synctest bubbles"}
	t0 := time.Now()
	for _, pc := range cfgs {
		alpha := Alphabet(pc)
		var mu sync.Mutex
		states := map[string][]int{"": nil}
		st := exploreProtocol(run, "c10", pc, alpha, 0, func(c ref.Cmd) bool { return c.Op == "STARTTLS" }, func(hist []int, r *histResult) {
			if r.Closed {
				return
			}
			mu.Lock()
			if old, ok := states[r.Key]; !ok || len(hist) < len(old) {
				states[r.Key] = append([]int(nil), hist...)
			}
			mu.Unlock()
		})
		run.State(int64(st.States))
		fmt.Printf("  phase 1 done after %.1fs\n", time.Since(t0).Seconds())
		var cases []C10ServerCase
		// Longer pre-histories as well: the state key cannot distinguish a connection that has ALREADY transferred
		// messages, authenticated or abandoned a transfer from a fresh one (that is what the key is for), so whatever
		// a change keeps in a field the key does not contain would stay behind the shortest history.
		idx := map[string]int{}
		for i, a := range alpha {
			idx[a.Name] = i
		}
		hello := "EHLO c1"
		if pc.LMTP {
			hello = "LHLO c1"
		}
		for n, names := range [][]string{
			{hello, "MAIL ok", "RCPT a", "DATA accept-d1"},
			{hello, "MAIL ok", "RCPT a", "RCPT b", "BDAT accept-c1", "BDAT accept-c2 LAST"},
			{hello, "MAIL ok", "RCPT a", "DATA accept-d1", "MAIL ok", "RCPT b", "BDAT accept-c1", "RSET"},
			{hello, "AUTH ok", "MAIL ok", "RCPT a", "DATA reject-d2", "MAIL ok", "RCPT a"},
			{hello, "MAIL ok", "RCPT a", "BDAT accept-c1", "BDAT accept-c2 LAST", "MAIL ok", "RCPT b", "BDAT accept-c1"},
		} {
			var hist []int
			ok := true
			for _, nm := range names {
				i, found := idx[nm]
				ok = ok && found
				hist = append(hist, i)
			}
			if !ok {
				run.NotExhaustive(fmt.Sprintf("C10: a name of long pre-history %d is not in the alphabet", n))
				continue
			}
			states[fmt.Sprintf("long pre-history %d", n)] = hist
		}
		for _, hist := range states {
			for _, inj := range injects {
				for _, same := range []bool{true, false} {
					if inj == "" && !same {
						continue
					}
					cases = append(cases, C10ServerCase{PC: pc, Hist: hist, Names: histNames(alpha, hist), Inject: inj, SameSeg: same})
				}
			}
			// the same upgrade with a backend that takes 20 s to abandon an open delivery
			cases = append(cases, C10ServerCase{PC: pc, Hist: hist, Names: histNames(alpha, hist), SameSeg: true, SlowAbort: true})
			// and with a read timeout and a steady, slow client
			cases = append(cases, C10ServerCase{PC: pc, Hist: hist, Names: histNames(alpha, hist), SameSeg: true, Paced: true})
			// and with a backend whose Logout reports an error
			cases = append(cases, C10ServerCase{PC: pc, Hist: hist, Names: histNames(alpha, hist), SameSeg: true, LogoutErr: true})
		}
		h.ParallelFor(len(cases), func(i int) {
			if run.Expired() {
				return
			}
			c := cases[i]
			f, out := evalC10Server(c)
			run.Eval(true)
			run.Transition(1)
			run.Trace(1)
			if f != nil {
				run.Violate("c10-server", c, f, func() *h.Finding { g, _ := evalC10Server(c); return g })
				run.Outcome("violation:" + f.Sig)
			} else {
				run.Outcome("server:" + out)
			}
			if i%1201 == 5 {
				run.Sample("server-case", 4, map[string]interface{}{"history": c.Names, "inject": c.Inject, "same_segment": c.SameSeg})
			}
		})
		fmt.Printf("  config %+v: pre-STARTTLS states=%d, injection cases=%d (%.1fs)\n", pc, len(states), len(cases), time.Since(t0).Seconds())
	}
	// client half
	var ccases []C10ClientCase
	for _, e := range []string{"NewClientStartTLS", "DialStartTLS", "SendMail"} {
		for _, b := range []string{"good", "no-starttls", "ehlo-refused", "454", "220-garbage", "220-untrusted", "220-inject", "tls-ehlo-refused", "tls-ehlo-bare", "tls-ehlo-noauth",
			"220-inject-long:1", "220-inject-long:700", "220-inject-long:1900", "220-inject-long:1970", "220-inject-long:1990", "220-inject-long:1997",
			"tls-ehlo-code:421", "tls-ehlo-code:451", "tls-ehlo-code:501", "tls-ehlo-code:503", "tls-ehlo-code:504", "tls-ehlo-code:550", "tls-ehlo-code:554"} {
			for _, a := range []bool{false, true} {
				ccases = append(ccases, C10ClientCase{Entry: e, Behavior: b, Auth: a})
			}
		}
	}
	h.ParallelFor(len(ccases), func(i int) {
		c := ccases[i]
		tc := time.Now()
		f := evalC10Client(c)
		if d := time.Since(tc); d > 2*time.Second {
			fmt.Printf("  slow client case %+v: %.1fs\n", c, d.Seconds())
		}
		run.Eval(true)
		run.Transition(1)
		run.Trace(1)
		if f != nil {
			run.Violate("c10-client", c, f, func() *h.Finding { return evalC10Client(c) })
			run.Outcome("violation:" + f.Sig)
		} else {
			run.Outcome("client:" + c.Behavior)
		}
		run.Sample("client-case", 3, c)
	})
	_ = bytes.Equal
	return run.Finish()
}
