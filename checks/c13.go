package checks

import (
	"fmt"
	"io"
	"strings"
	"time"

	smtp "github.com/emersion/go-smtp"
	"verif/h"
	"verif/ref"
)

// C13: LMTP returns one status per accepted recipient, in order, correctly attributed.

type C13Case struct {
	Rcpts    string   `json:"rcpts"`    // e.g. "aba": recipient list over {a,b}
	Calls    string   `json:"calls"`    // status calls in order, e.g. "ab": SetStatus(a, status-0), SetStatus(b, status-1)
	Before   int      `json:"before"`   // how many of them happen before the message is read
	Ret      string   `json:"ret"`      // nil | err | panic
	Transfer string   `json:"transfer"` // data | bdat1 | bdat2
	Plain    bool     `json:"plain"`    // backend without per-recipient support
	// Limit, Buf (used by C06): the server's MaxMessageBytes and the backend's read size. With a limit below the size of
	// the message only the limit is judged: the reader yields at most Limit octets and never ends with EOF, whatever the
	// order of status calls, reads and reply writes
	Limit int64 `json:"limit,omitempty"`
	Buf   int   `json:"buf,omitempty"`
	Schedule []string `json:"schedule,omitempty"`
}

const c13Msg = "Subject: x\r\n\r\nbody line\r\n"

var c13Codes = []int{451, 550, 452, 551, 450, 553}

// The two recipients differ in the case of one letter only: local parts are case-sensitive (RFC 5321 2.4), they are
// two recipients with two statuses.
func c13Addr(ch byte) string {
	if ch == 'b' {
		return "okA%d@X.Example" // (the domain's case differs too: the key of a recipient is the address as given in RCPT)
	}
	return fmt.Sprintf("ok%c%%d@x.example", ch) // (a '%' in the address: it is data, never a format)
}

func c13StatusErr(k int) error {
	if k%3 == 2 {
		return nil // some statuses are plain success
	}
	code := c13Codes[k%len(c13Codes)]
	return &smtp.SMTPError{Code: code, EnhancedCode: smtp.EnhancedCode{code / 100, 9, k}, Message: fmt.Sprintf("status-%d", k)}
}

// c13Expected: the reply (code, text fragment) each recipient must get; ok=false when the
// backend breaks its contract (unknown recipient / too many statuses).
func c13Expected(c C13Case) (codes []int, frags []string, contractOK bool) {
	contractOK = true
	mult := map[byte]int{}
	for i := 0; i < len(c.Rcpts); i++ {
		mult[c.Rcpts[i]]++
	}
	per := map[byte][]int{} // addr -> indices of status calls
	for k := 0; k < len(c.Calls); k++ {
		a := c.Calls[k]
		if mult[a] == 0 || len(per[a]) >= mult[a] {
			contractOK = false
		}
		per[a] = append(per[a], k)
	}
	used := map[byte]int{}
	for i := 0; i < len(c.Rcpts); i++ {
		a := c.Rcpts[i]
		var err error
		frag := ""
		switch {
		case c.Plain:
			if c.Ret == "err" || c.Ret == "early" {
				err = &smtp.SMTPError{Code: 554, Message: "ret-error"}
				frag = "ret-error"
			} else if c.Ret == "panic" {
				err = &smtp.SMTPError{Code: 421}
			}
		case used[a] < len(per[a]):
			k := per[a][used[a]]
			used[a]++
			err = c13StatusErr(k)
			if err != nil {
				frag = fmt.Sprintf("status-%d", k)
			}
		case c.Ret == "err" || c.Ret == "early":
			err = &smtp.SMTPError{Code: 554, Message: "ret-error"}
			frag = "ret-error"
		case c.Ret == "panic":
			err = &smtp.SMTPError{Code: 421}
		}
		code := 250
		if err != nil {
			code = err.(*smtp.SMTPError).Code
		}
		codes = append(codes, code)
		frags = append(frags, frag)
	}
	return
}

type c13World struct {
	c      C13Case
	x      *h.Exec
	be     *h.Backend
	log    *h.LogBuf
	client *h.End
	server *h.End
	done   bool
	segs   [][]byte
	next   int
	pre    int // replies before the transfer
	wire   []byte
	third  []byte
}

func (w *c13World) Start(x *h.Exec) {
	w.x = x
	c := w.c
	w.be = &h.Backend{LMTPSess: !c.Plain}
	var retErr error
	if c.Ret == "err" || c.Ret == "early" {
		retErr = &smtp.SMTPError{Code: 554, EnhancedCode: smtp.EnhancedCode{5, 0, 0}, Message: "ret-error"}
	}
	plan := h.DataPlan{Max: -1, Verdict: retErr, Panic: c.Ret == "panic", KeepErr: false, Buf: c.Buf}
	if c.Ret == "early" {
		plan.Max = 0 // give up without reading the message
	}
	if !c.Plain {
		for k := 0; k < len(c.Calls); k++ {
			plan.Status = append(plan.Status, h.StatusCall{Rcpt: c13Addr(c.Calls[k]), Err: c13StatusErr(k), AfterRead: k >= c.Before})
		}
	}
	w.be.Plan = func(idx int) h.DataPlan {
		if idx == 0 {
			return plan
		}
		if idx == 1 {
			// the transaction right behind the first: the recipients of the FIRST one again, each with a status of its own
			p3 := h.DataPlan{Max: -1}
			if !c.Plain {
				for i := 0; i < len(c.Rcpts); i++ {
					p3.Status = append(p3.Status, h.StatusCall{Rcpt: c13Addr(c.Rcpts[i]), Err: &smtp.SMTPError{Code: 460 + i, EnhancedCode: smtp.EnhancedCode{4, 7, i}, Message: fmt.Sprintf("third-%d", i)}})
				}
			}
			return p3
		}
		// the follow-up transaction (recipients b, a, a): every recipient gets a status that names it
		p2 := h.DataPlan{Max: -1}
		if !c.Plain {
			for i, ch := range []byte("baa") {
				n := c13Addr(ch)
				p2.Status = append(p2.Status, h.StatusCall{Rcpt: n, Err: &smtp.SMTPError{Code: 450 + i, EnhancedCode: smtp.EnhancedCode{4, 8, i}, Message: fmt.Sprintf("second-%d-for-%c", i, ch)}})
			}
		}
		return p2
	}
	armed := false
	w.be.Gate = func(step string) {
		if armed {
			x.Point("be:" + step)
		}
	}
	w.log = &h.LogBuf{}
	srv := h.Config{LMTP: true, MaxMessageBytes: c.Limit}.NewServer(w.be, w.log)
	w.client, w.server = h.NewDuplex()
	gated := &h.GatedEnd{End: w.server, X: x, Name: "srv"}
	x.Filter = func(name string) bool { return armed }
	go func() {
		srv.VerifServeConn(gated, nil)
		w.done = true
	}()
	// the envelope is not part of the exploration
	var pre strings.Builder
	pre.WriteString("LHLO c.example\r\nMAIL FROM:<ok@a.example>\r\n")
	// lists that begin with recipient b are preceded by a recipient the backend REFUSES at RCPT time (550): it is not
	// an accepted recipient and gets no status
	w.pre = 3 + len(c.Rcpts)
	if c.Rcpts[0] == 'b' {
		pre.WriteString("RCPT TO:<rejfirst@x.example>\r\n")
		w.pre++
	}
	for i := 0; i < len(c.Rcpts); i++ {
		fmt.Fprintf(&pre, "RCPT TO:<%s>\r\n", c13Addr(c.Rcpts[i]))
	}
	w.client.Write([]byte(pre.String()))
	h.Wait()
	w.wire = append(w.wire, w.client.In.Drain()...)
	msg := c13Msg
	switch c.Transfer {
	case "data":
		w.segs = [][]byte{[]byte("DATA\r\n"), []byte(msg + ".\r\n")}
	case "bdat1":
		w.segs = [][]byte{[]byte(fmt.Sprintf("BDAT %d LAST\r\n%s", len(msg), msg))}
	case "bdat2":
		w.segs = [][]byte{[]byte(fmt.Sprintf("BDAT 10\r\n%s", msg[:10])), []byte(fmt.Sprintf("BDAT %d LAST\r\n%s", len(msg)-10, msg[10:]))}
	}
	armed = true
}

func (w *c13World) Events() []h.SchedEvent {
	if w.next < len(w.segs) && w.client.Out.Pending() == 0 {
		k := w.next
		return []h.SchedEvent{{Name: fmt.Sprintf("client:seg%d", k), Do: func() {
			w.next++
			w.client.Write(w.segs[k])
		}}}
	}
	return nil
}

func (w *c13World) Finish(x *h.Exec) *h.Finding {
	x.Drain()
	h.Wait()
	w.wire = append(w.wire, w.client.In.Drain()...)
	// a NOOP must still be answered in step (unless the server closed after a panic)
	w.client.Write([]byte("NOOP\r\n"))
	h.Wait()
	tail := w.client.In.Drain()
	// a second, chunked transaction on the same connection with another recipient list (b, a, a):
	// nothing of the first transaction's status bookkeeping may survive
	var second []byte
	if w.c.Ret != "panic" {
		// right behind it a transaction with exactly the recipient list of the first (whatever was kept of the first transfer -
		// statuses set early, a collector, a result - must not meet its own recipients again)
		var env3 strings.Builder
		env3.WriteString("MAIL FROM:<ok@a3.example>\r\n")
		for i := 0; i < len(w.c.Rcpts); i++ {
			fmt.Fprintf(&env3, "RCPT TO:<%s>\r\n", c13Addr(w.c.Rcpts[i]))
		}
		w.client.Write([]byte(env3.String() + "BDAT 6 LAST\r\nthird\n"))
		h.Wait()
		w.third = w.client.In.Drain()
		env := "MAIL FROM:<ok@a2.example>\r\n" + fmt.Sprintf("RCPT TO:<%s>\r\nRCPT TO:<rejmiddle@x.example>\r\nRCPT TO:<%s>\r\nRCPT TO:<%s>\r\n", c13Addr('b'), c13Addr('a'), c13Addr('a'))
		// always chunked: BDAT keeps per-transaction state on the connection between commands
		w.client.Write([]byte(env + "BDAT 8 LAST\r\nsecond\r\n"))
		h.Wait()
		second = w.client.In.Drain()
	}
	w.client.Out.End(io.EOF)
	h.Wait()
	c := w.c
	desc := fmt.Sprintf("rcpts=%s calls=%s before=%d ret=%s transfer=%s plain=%t schedule=%v", c.Rcpts, c.Calls, c.Before, c.Ret, c.Transfer, c.Plain, x.Schedule)
	if a := w.be.FirstAnomaly(); a != "" {
		return h.F("c13-backend-anomaly", "%s: %s", desc, a)
	}
	if c.Limit > 0 && int64(len(c13Msg)) > c.Limit {
		for _, e := range w.be.Trace() {
			if (e.Kind == "Data" || e.Kind == "LMTPData") && e.Arg == "0" {
				if int64(len(e.Body)) > c.Limit {
					return h.F("c06-backend-read-too-much", "%s limit=%d buf=%d: the backend read %d octets of a message of %d", desc, c.Limit, c.Buf, len(e.Body), len(c13Msg))
				}
				if e.ReadErr == "EOF" || e.ReadErr == "stopped" {
					return h.F("c06-over-limit-eof", "%s limit=%d buf=%d: the reader of a message above the limit ended with %s after %q", desc, c.Limit, c.Buf, e.ReadErr, e.Body)
				}
			}
		}
		return nil
	}
	rs, err := ref.ParseReplies(w.wire)
	if err != nil {
		return h.F("c13-bad-wire", "%s: %v", desc, err)
	}
	if len(rs) < w.pre {
		return h.F("c13-prefix", "%s: envelope replies missing: %d", desc, len(rs))
	}
	final := rs[w.pre:]
	codes, frags, contractOK := c13Expected(c)
	if !contractOK {
		// the backend broke its contract (status for an unknown recipient / too many): only
		// "no deadlock, no crash, well-formed replies" is judged - all established by now
		return nil
	}
	// what the backend read: the whole message, then EOF (unless it gave up without reading)
	if c.Ret != "early" {
		for _, e := range w.be.Trace() {
			if (e.Kind == "Data" || e.Kind == "LMTPData") && e.Arg == "0" {
				if string(e.Body) != c13Msg || e.ReadErr != "EOF" {
					return h.F("c13-body-differs", "%s: the backend read %q ending with %q, want the whole message %q then EOF", desc, e.Body, e.ReadErr, c13Msg)
				}
			}
		}
	}
	// intermediate replies: 354 for DATA, 250 for the first of two chunks
	switch c.Transfer {
	case "data":
		if len(final) == 0 || final[0].Code != 354 {
			return h.F("c13-no-354", "%s: no 354", desc)
		}
		final = final[1:]
	case "bdat2":
		if c.Ret == "early" {
			// the backend gives up during the first chunk: that chunk is answered with its error,
			// the transaction is over and the LAST chunk is refused
			if len(final) != 2 || final[0].Code != 554 || final[1].Class() != 5 {
				return h.F("c13-early-chunk", "%s: want 554 for the failed chunk and 5xx for the next, got %v", desc, final)
			}
			// no per-recipient replies in this transaction; the transactions behind it are judged like all others
			trs, terr := ref.ParseReplies(tail)
			if terr != nil || len(trs) != 1 || trs[0].Code != 250 {
				return h.F("c13-out-of-step", "%s: a NOOP after the transfer was answered %q", desc, tail)
			}
			if f := c13ThirdTransaction(desc, c, w.third); f != nil {
				return f
			}
			return c13SecondTransaction(desc, c, second)
		}
		if len(final) == 0 || final[0].Code != 250 {
			return h.F("c13-chunk-reply", "%s: first chunk not answered 250", desc)
		}
		final = final[1:]
	}
	render := func() string {
		var p []string
		for _, r := range final {
			p = append(p, r.String())
		}
		return strings.Join(p, " | ")
	}
	if c.Ret == "panic" && c.Plain && len(final) == 1 && final[0].Code == 421 {
		return nil // one 421 and a closed connection also says "nothing delivered"
	}
	if len(final) != len(codes) {
		return h.F("c13-reply-count", "%s: %d final replies for %d accepted recipients: [%s]", desc, len(final), len(codes), render())
	}
	for i, r := range final {
		rcpt := c13Addr(c.Rcpts[i])
		text := strings.Join(r.Text, "\n")
		if !strings.HasPrefix(text, "<"+rcpt+">") {
			return h.F("c13-not-attributed", "%s: reply %d does not name recipient %s: %s", desc, i, rcpt, r.String())
		}
		if strings.Count(text, "<ok") != 1 {
			return h.F("c13-not-attributed", "%s: reply %d for %s names a recipient more than once or names another one as well: %s", desc, i, rcpt, r.String())
		}
		if r.Code != codes[i] || (frags[i] != "" && !strings.Contains(text, frags[i])) {
			return h.F("c13-wrong-status", "%s: reply %d for %s is %s, want code %d %q; all: [%s]", desc, i, rcpt, r.String(), codes[i], frags[i], render())
		}
	}
	if c.Ret != "panic" {
		trs, terr := ref.ParseReplies(tail)
		if terr != nil || len(trs) != 1 || trs[0].Code != 250 {
			return h.F("c13-out-of-step", "%s: a NOOP after the transfer was answered %q", desc, tail)
		}
		if f := c13SecondTransaction(desc, c, second); f != nil {
			return f
		}
		if f := c13ThirdTransaction(desc, c, w.third); f != nil {
			return f
		}
	}
	if c.Ret != "panic" && strings.Contains(w.log.String(), "panic") {
		return h.F("c13-recovered-panic", "%s: recovered panic: %s", desc, firstLogLine(w.log.String()))
	}
	return nil
}

func evalC13Schedule(c C13Case) *h.Finding {
	_, f, leak := h.ReplaySchedule(func() h.World { return &c13World{c: c} }, c.Schedule, nil)
	if f == nil && leak != "" {
		f = h.F("c13-deadlock", "%+v: goroutines blocked forever: %.300s", c, leak)
	}
	return f
}

func init() { h.RegisterReplayer("c13", evalC13Schedule) }

// ---- very many occurrences of one recipient -----------------------------------------------------------------------

type C13BigCase struct {
	Copies int    `json:"copies"`
	Via    string `json:"via"`  // data | bdat
	Plan   string `json:"plan"` // return-value (no status set, LMTPData returns an error) | plain (backend without LMTPData)
}

func evalC13Big(c C13BigCase) *h.Finding {
	mode := "lmtp-rcpt"
	if c.Plan == "plain" {
		mode = "lmtp"
	}
	cfg, be := modeConfig(mode)
	be.Plan = func(int) h.DataPlan { return h.DataPlan{Max: -1, Verdict: h.RejErr("message")} }
	var in strings.Builder
	in.WriteString("LHLO c.example\r\nMAIL FROM:<ok@a.example>\r\n")
	var rcpts []string
	for i := 0; i < c.Copies; i++ {
		rcpts = append(rcpts, "okmany@x.example")
	}
	rcpts = append(rcpts, "okother@x.example")
	for _, r := range rcpts {
		fmt.Fprintf(&in, "RCPT TO:<%s>\r\n", r)
	}
	nPre := 3 + len(rcpts)
	if c.Via == "data" {
		in.WriteString("DATA\r\nhello\r\n.\r\n")
		nPre++
	} else {
		in.WriteString("BDAT 7 LAST\r\nhello\r\n")
	}
	in.WriteString("NOOP\r\n")
	o := h.RunS(cfg, be, h.OneSeg([]byte(in.String())), h.TermEOF)
	desc := fmt.Sprintf("%d occurrences of one recipient plus one other, via %s, backend %s", c.Copies, c.Via, c.Plan)
	if f := o.Sanity("c13", desc); f != nil {
		return f
	}
	if o.ParseErr != nil || len(o.Replies) != nPre+len(rcpts)+1 {
		return h.F("c13-reply-count", "%s: %d replies (%v), want %d before the message, one per RCPT (%d) and the NOOP's", desc, len(o.Replies), o.ParseErr, nPre, len(rcpts))
	}
	for i, r := range rcpts {
		rep := o.Replies[nPre+i]
		if !strings.HasPrefix(strings.Join(rep.Text, "\n"), "<"+r+">") || rep.Class() != 5 {
			return h.F("c13-not-attributed", "%s: final reply %d is %s, want the backend's refusal naming %s", desc, i, rep.String(), r)
		}
	}
	return nil
}

func init() { h.RegisterReplayer("c13-big", evalC13Big) }

func C13(tier string) int {
	run := h.NewRun("C13", tier, "model_checking", "", 25*time.Minute)
	maxR := 3
	fullUpTo := 2
	bound := 1
	if tier == "thorough" {
		maxR, fullUpTo, bound = 4, 3, 2
	}
	var lists []string
	enumStrings([]byte("ab"), maxR, func(s []byte) {
		if len(s) > 0 {
			lists = append(lists, string(s))
		}
	})
	var cases []C13Case
	for _, l := range lists {
		ma, mb := strings.Count(l, "a"), strings.Count(l, "b")
		var callSeqs []string
		enumStrings([]byte("ab"), len(l)+1, func(s []byte) {
			ca, cb := strings.Count(string(s), "a"), strings.Count(string(s), "b")
			if ca <= ma+1 && cb <= mb+1 && (ca <= ma && cb <= mb || len(s) <= len(l)+1) {
				// at most one call too many / for an unknown recipient
				over := 0
				if ca > ma {
					over += ca - ma
				}
				if cb > mb {
					over += cb - mb
				}
				if over <= 1 {
					callSeqs = append(callSeqs, string(s))
				}
			}
		})
		for _, calls := range callSeqs {
			for before := 0; before <= len(calls); before++ {
				for _, ret := range []string{"nil", "err", "panic", "early"} {
					for _, tr := range []string{"data", "bdat1", "bdat2"} {
						cases = append(cases, C13Case{Rcpts: l, Calls: calls, Before: before, Ret: ret, Transfer: tr})
					}
				}
			}
		}
		for _, ret := range []string{"nil", "err", "panic", "early"} {
			for _, tr := range []string{"data", "bdat1", "bdat2"} {
				cases = append(cases, C13Case{Rcpts: l, Ret: ret, Transfer: tr, Plain: true})
			}
		}
	}
	run.Rule = fmt.Sprintf("scenarios: recipient lists of 1..%d entries over {a,b} (%d lists, duplicates included) x every sequence of status calls with at most one call too many / for a recipient not in the list (the k-th call carries its own code and text 'status-k', every third is plain success) x every split of the calls into before/after the message is read x return {nil, error, panic, error-without-reading} x {DATA, BDAT one chunk, BDAT two chunks} + a backend without per-recipient support. For every scenario the schedule explorer (testing/synctest) enumerates the orders of: backend steps (enter, each SetStatus, each Read, return), the handler's reply writes, and the client's segments - ALL interleavings for lists of <=%d recipients, deviation bound %d above. states = scenarios; transitions = scheduling decisions; traces validated = executions on the real server. Lists beginning with b are preceded by a recipient the backend refuses at RCPT time, and every scenario is followed directly by a (chunked) transaction with the recipient list of the first, every recipient with a status of its own, and then by a (chunked) transaction b, <refused>, a, a. Plus: a chunked transfer abandoned (RSET / LHLO) while its delivery is slow to return, followed by a chunked transfer to the same recipients - the orders of the old delivery's steps, the new delivery's steps, reply writes and client segments (deviation-bounded): the second transfer's replies carry its own statuses. Oracle: exactly one reply per accepted RCPT, in order, '<rcpt>' prefix, k-th status of an address for its k-th occurrence, otherwise the return value (421 after a panic); never a deadlock (runtime-detected) and a following NOOP is in step; contract-breaking scripts only need to stay deadlock-free and well-formed.", maxR, len(lists), fullUpTo, bound)
	run.Assumptions = []string{"SetStatus after LMTPData has returned is not generated (the interface forbids it)", "a panicking plain backend may be answered by one 421 and a closed connection"}
	h.ParallelFor(len(cases), func(i int) {
		if run.Expired() {
			return
		}
		c := cases[i]
		b := bound
		if len(c.Rcpts) <= fullUpTo {
			b = -1
		}
		st := h.Explore(func() h.World { return &c13World{c: c} }, h.ExploreOpts{Bound: b, Expired: run.Expired}, func(x *h.Exec, f *h.Finding, leak string) {
			run.Eval(true)
			run.Trace(1)
			if f == nil && leak != "" {
				f = h.F("c13-deadlock", "rcpts=%s calls=%s before=%d ret=%s transfer=%s plain=%t schedule=%v: goroutines blocked forever: %.300s", c.Rcpts, c.Calls, c.Before, c.Ret, c.Transfer, c.Plain, x.Schedule, leak)
			}
			if f != nil {
				cc := c
				cc.Schedule = append([]string(nil), x.Schedule...)
				run.Violate("c13", cc, f, func() *h.Finding { return evalC13Schedule(cc) })
				run.Outcome("violation:" + f.Sig)
			}
		})
		run.State(1)
		run.Transition(st.ChoicePts)
		if st.Truncated && b < 0 {
			run.NotExhaustive("an exploration was cut short")
		}
		run.Outcome(fmt.Sprintf("ok n=%d", len(c.Rcpts)))
		if i%701 == 3 {
			run.Sample("scenario", 5, map[string]interface{}{"case": c, "executions": st.Executions, "max_depth": st.MaxDepth})
		}
	})
	// a chunked transfer abandoned while its delivery is slow to return, and the chunked transfer behind it: every order
	// (deviation bound) of the old delivery's steps, the new delivery's status calls and reads, the reply writes and
	// the client's segments
	c13AbortFamily(run, bound+1)
	for _, n := range []int{2, 255, 256, 300, 1000} {
		for _, via := range []string{"data", "bdat"} {
			for _, plan := range []string{"return-value", "plain"} {
				c := C13BigCase{Copies: n, Via: via, Plan: plan}
				f := evalC13Big(c)
				run.Eval(true)
				if f != nil {
					run.Violate("c13-big", c, f, func() *h.Finding { return evalC13Big(c) })
				}
			}
		}
	}
	return run.Finish()
}

// c13SecondTransaction judges the follow-up transaction (recipients b, a, a).
func c13SecondTransaction(desc string, c C13Case, wire []byte) *h.Finding {
	rs, err := ref.ParseReplies(wire)
	if err != nil {
		return h.F("c13-second-bad-wire", "%s: second transaction: %v (%q)", desc, err, wire)
	}
	// MAIL, 4x RCPT (the second one refused by the backend), 3 final replies
	want := 5 + 3
	if len(rs) != want {
		return h.F("c13-second-reply-count", "%s: the second transaction (recipients b, one refused at RCPT, a, a) got %d replies, want %d (one final reply per ACCEPTED recipient): %q", desc, len(rs), want, wire)
	}
	if rs[2].Code != 550 {
		return h.F("c13-second-refused-rcpt", "%s: second transaction: the recipient the backend refuses was answered %s", desc, rs[2].String())
	}
	final := rs[len(rs)-3:]
	for i, ch := range []byte("baa") {
		text := strings.Join(final[i].Text, " ")
		if !strings.HasPrefix(text, "<"+c13Addr(ch)+">") {
			return h.F("c13-second-not-attributed", "%s: second transaction: reply %d does not name %s: %s", desc, i, c13Addr(ch), final[i].String())
		}
		if c.Plain {
			if final[i].Code != 250 {
				return h.F("c13-second-wrong-status", "%s: second transaction: reply %d is %s, want 250", desc, i, final[i].String())
			}
			continue
		}
		if final[i].Code != 450+i || !strings.Contains(text, fmt.Sprintf("second-%d-for-%c", i, ch)) {
			return h.F("c13-second-wrong-status", "%s: second transaction: reply %d for %s is %s, want %d second-%d-for-%c", desc, i, c13Addr(ch), final[i].String(), 450+i, i, ch)
		}
	}
	return nil
}

// c13ThirdTransaction judges the third transaction (the recipient list of the first one again, chunked).
func c13ThirdTransaction(desc string, c C13Case, wire []byte) *h.Finding {
	rs, err := ref.ParseReplies(wire)
	if err != nil {
		return h.F("c13-third-bad-wire", "%s: third transaction: %v (%q)", desc, err, wire)
	}
	n := len(c.Rcpts)
	if len(rs) != 1+2*n {
		return h.F("c13-third-reply-count", "%s: the third transaction (the recipients of the first one again) got %d replies, want %d: %q", desc, len(rs), 1+2*n, wire)
	}
	for i := 0; i < n; i++ {
		r := rs[1+n+i]
		text := strings.Join(r.Text, " ")
		if !strings.HasPrefix(text, "<"+c13Addr(c.Rcpts[i])+">") {
			return h.F("c13-third-not-attributed", "%s: third transaction: reply %d does not name %s: %s", desc, i, c13Addr(c.Rcpts[i]), r.String())
		}
		if c.Plain {
			if r.Code != 250 {
				return h.F("c13-third-wrong-status", "%s: third transaction: reply %d is %s, want 250", desc, i, r.String())
			}
			continue
		}
		if r.Code != 460+i || !strings.Contains(text, fmt.Sprintf("third-%d", i)) {
			return h.F("c13-third-wrong-status", "%s: third transaction: reply %d for %s is %s, want %d third-%d", desc, i, c13Addr(c.Rcpts[i]), r.String(), 460+i, i)
		}
	}
	return nil
}

// ---- an aborted chunked transfer whose delivery is slow to return, and the transfer behind it ---------------------------

type C13AbortCase struct {
	Abort    string   `json:"abort"` // RSET | LHLO c2.example | MAIL FROM:<ok@x.example>
	Plain    bool     `json:"plain"` // backend without per-recipient support
	// Panics: the first delivery panics when its reader fails (the abort), and the server's ErrorLog - application code -
	// is a scheduling point: the recovery may still be busy reporting while the connection goes on
	Panics   bool     `json:"panics,omitempty"`
	Schedule []string `json:"schedule,omitempty"`
}

type c13AbortWorld struct {
	c      C13AbortCase
	be     *h.Backend
	log    *h.LogBuf
	client *h.End
	segs   [][]byte
	next   int
	wire   []byte
}

func (w *c13AbortWorld) Start(x *h.Exec) {
	c := w.c
	w.be = &h.Backend{LMTPSess: !c.Plain}
	ra, rb := c13Addr('a'), c13Addr('b')
	w.be.Plan = func(idx int) h.DataPlan {
		if idx == 0 {
			return h.DataPlan{Max: -1, Panic: c.Panics, KeepErr: c.Panics} // reads until its reader fails, returns that error (or panics)
		}
		p := h.DataPlan{Max: -1}
		if !c.Plain {
			p.Status = []h.StatusCall{{Rcpt: ra, Err: nil}, {Rcpt: rb, Err: &smtp.SMTPError{Code: 550, EnhancedCode: smtp.EnhancedCode{5, 8, 1}, Message: "second-b"}, AfterRead: true}}
		}
		return p
	}
	armed := false
	w.be.Gate = func(step string) {
		if armed {
			x.Point("be:" + step)
		}
	}
	w.log = &h.LogBuf{}
	if c.Panics {
		w.log.Gate = func() {
			if armed {
				// (the name sorts behind every other gate: by default the logger is the slowest actor, and opening it
				// earlier is ONE deviation wherever that happens)
				x.Point("~log:write")
			}
		}
	}
	srv := h.Config{LMTP: true}.NewServer(w.be, w.log)
	var server *h.End
	w.client, server = h.NewDuplex()
	x.Filter = func(name string) bool { return armed }
	go srv.VerifServeConn(&h.GatedEnd{End: server, X: x, Name: "srv"}, nil)
	w.client.Write([]byte(fmt.Sprintf("LHLO c.example\r\nMAIL FROM:<ok@a.example>\r\nRCPT TO:<%s>\r\nRCPT TO:<%s>\r\n", ra, rb)))
	h.Wait()
	w.wire = append(w.wire, w.client.In.Drain()...)
	w.segs = [][]byte{[]byte("BDAT 5\r\nhello"), []byte(c.Abort + "\r\n"),
		[]byte(fmt.Sprintf("MAIL FROM:<ok@a2.example>\r\nRCPT TO:<%s>\r\nRCPT TO:<%s>\r\n", ra, rb)), []byte("BDAT 7 LAST\r\nsecond\n"), []byte("NOOP\r\n")}
	armed = true
}

func (w *c13AbortWorld) Events() []h.SchedEvent {
	if w.next < len(w.segs) && w.client.Out.Pending() == 0 {
		k := w.next
		return []h.SchedEvent{{Name: fmt.Sprintf("client:seg%d", k), Do: func() {
			w.next++
			w.client.Write(w.segs[k])
		}}}
	}
	return nil
}

func (w *c13AbortWorld) Finish(x *h.Exec) *h.Finding {
	x.Drain()
	h.Wait()
	w.wire = append(w.wire, w.client.In.Drain()...)
	w.client.Out.End(io.EOF)
	h.Wait()
	c := w.c
	desc := fmt.Sprintf("LMTP, chunked transfer abandoned by %q while its delivery is slow to return (panics when aborted: %t), then a chunked message to the same recipients (plain backend=%t), schedule=%v", c.Abort, c.Panics, c.Plain, x.Schedule)
	if a := w.be.FirstAnomaly(); a != "" {
		return h.F("c13-backend-anomaly", "%s: %s", desc, a)
	}
	if !c.Panics && strings.Contains(w.log.String(), "panic") {
		return h.F("c13-recovered-panic", "%s: recovered panic: %s", desc, firstLogLine(w.log.String()))
	}
	rs, err := ref.ParseReplies(w.wire)
	if err != nil {
		return h.F("c13-bad-wire", "%s: %v", desc, err)
	}
	// 220 250 250 250 250 | 250 (chunk) | abort reply | MAIL RCPT RCPT | two finals | NOOP
	nAbort := 1
	skipMail := strings.HasPrefix(c.Abort, "MAIL") // a MAIL inside the open transfer is refused; the transfer goes on: not used here
	_ = skipMail
	want := 5 + 1 + nAbort + 3 + 2 + 1
	if len(rs) != want {
		return h.F("c13-abort-reply-count", "%s: %d replies, want %d: %q", desc, len(rs), want, w.wire)
	}
	f1, f2 := rs[want-3], rs[want-2]
	ra, rb := c13Addr('a'), c13Addr('b')
	t1, t2 := strings.Join(f1.Text, " "), strings.Join(f2.Text, " ")
	if !strings.HasPrefix(t1, "<"+ra+">") || !strings.HasPrefix(t2, "<"+rb+">") {
		return h.F("c13-not-attributed", "%s: the final replies of the second transfer do not name its recipients in order: %s | %s", desc, f1.String(), f2.String())
	}
	if c.Plain {
		if f1.Code != 250 || f2.Code != 250 {
			return h.F("c13-abort-wrong-status", "%s: the backend accepted the second message; its recipients were answered %s | %s", desc, f1.String(), f2.String())
		}
	} else if f1.Code != 250 || f2.Code != 550 || !strings.Contains(t2, "second-b") {
		return h.F("c13-abort-wrong-status", "%s: the second transfer's statuses are 250 for a and 550 second-b for b; the replies are %s | %s", desc, f1.String(), f2.String())
	}
	if rs[want-1].Code != 250 {
		return h.F("c13-out-of-step", "%s: the NOOP behind the transfer was answered %s", desc, rs[want-1].String())
	}
	return nil
}

func evalC13Abort(c C13AbortCase) *h.Finding {
	_, f, leak := h.ReplaySchedule(func() h.World { return &c13AbortWorld{c: c} }, c.Schedule, nil)
	if f == nil && leak != "" {
		f = h.F("c13-deadlock", "%+v: goroutines blocked forever: %.300s", c, leak)
	}
	return f
}

func init() { h.RegisterReplayer("c13-abort", evalC13Abort) }

func c13AbortFamily(run *h.Run, bound int) {
	for _, abort := range []string{"RSET", "LHLO c2.example"} {
		for _, variant := range []int{0, 1, 2} {
			c := C13AbortCase{Abort: abort, Plain: variant == 1, Panics: variant == 2}
			st := h.Explore(func() h.World { return &c13AbortWorld{c: c} }, h.ExploreOpts{Bound: bound, Expired: run.Expired}, func(x *h.Exec, f *h.Finding, leak string) {
				run.Eval(true)
				run.Trace(1)
				if f == nil && leak != "" {
					f = h.F("c13-deadlock", "%+v schedule=%v: goroutines blocked forever: %.300s", c, x.Schedule, leak)
				}
				if f != nil {
					cc := c
					cc.Schedule = append([]string(nil), x.Schedule...)
					run.Violate("c13-abort", cc, f, func() *h.Finding { return evalC13Abort(cc) })
					run.Outcome("violation:" + f.Sig)
				}
			})
			run.State(1)
			run.Transition(st.ChoicePts)
			run.Counter("abort_then_transfer_executions", int64(st.Executions))
		}
	}
	run.Outcome("abort-then-transfer-ok")
}
