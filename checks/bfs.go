package checks

import (
	"bytes"
	"encoding/base64"
	"fmt"
	"regexp"
	"sort"
	"strconv"
	"strings"
	"sync"
	"sync/atomic"
	"time"

	"github.com/emersion/go-sasl"
	smtp "github.com/emersion/go-smtp"
	"verif/h"
	"verif/ref"
)

// ---- abstract command alphabet --------------------------------------------

func line(s string) []byte { return []byte(s + "\r\n") }

// Alphabet returns the abstract commands explored for configuration pc.
func Alphabet(pc ref.PConfig) []ref.Cmd {
	var a []ref.Cmd
	add := func(c ref.Cmd) { a = append(a, c) }
	verb := "EHLO"
	wrong := "LHLO"
	if pc.LMTP {
		verb, wrong = "LHLO", "EHLO"
	}
	add(ref.Cmd{Name: verb + " c1", Op: "HELLO", Verb: verb, Arg: "c1.example", Steps: [][]byte{line(verb + " c1.example")}})
	add(ref.Cmd{Name: verb + " c2", Op: "HELLO", Verb: verb, Arg: "c2.example", Steps: [][]byte{line(verb + " c2.example")}})
	add(ref.Cmd{Name: "HELO c3", Op: "HELLO", Verb: "HELO", Arg: "c3.example", Steps: [][]byte{line("HELO c3.example")}})
	add(ref.Cmd{Name: verb + " (no arg)", Op: "HELLO", Verb: verb, Bad: "noarg", Steps: [][]byte{line(verb)}})
	add(ref.Cmd{Name: wrong + " (wrong flavour)", Op: "HELLO", Verb: wrong, Arg: "c1.example", Steps: [][]byte{line(wrong + " c1.example")}})
	add(ref.Cmd{Name: verb + " fail", Op: "HELLO", Verb: verb, Arg: "fail.example", Steps: [][]byte{line(verb + " fail.example")}})

	add(ref.Cmd{Name: "MAIL ok", Op: "MAIL", Arg: "ok1@a.example", Steps: [][]byte{line("MAIL FROM:<ok1@a.example>")}})
	add(ref.Cmd{Name: "MAIL rej", Op: "MAIL", Arg: "rej@a.example", Steps: [][]byte{line("mail from:<rej@a.example>")}})
	add(ref.Cmd{Name: "MAIL rej multi-line", Op: "MAIL", Arg: "rejml@a.example", Steps: [][]byte{line("MAIL FROM:<rejml@a.example>")}})
	add(ref.Cmd{Name: "MAIL rej without enhanced code", Op: "MAIL", Arg: "rejne@a.example", Steps: [][]byte{line("MAIL FROM:<rejne@a.example>")}})
	add(ref.Cmd{Name: "MAIL tmp", Op: "MAIL", Arg: "tmp@a.example", Steps: [][]byte{line("MAIL FROM:<tmp@a.example>")}})
	add(ref.Cmd{Name: "MAIL syntax", Op: "MAIL", Bad: "syntax", Steps: [][]byte{line("MAIL FROM:<nobody")}})
	add(ref.Cmd{Name: "MAIL size over", Op: "MAIL", Arg: "ok1@a.example", Bad: "sizeover", Steps: [][]byte{line("MAIL FROM:<ok1@a.example> SIZE=99999")}})
	if pc.MaxBytes > 0 {
		// a declared size of exactly the limit is acceptable in every state in which MAIL is
		add(ref.Cmd{Name: "MAIL size at the limit", Op: "MAIL", Arg: "ok1@a.example", Steps: [][]byte{line(fmt.Sprintf("MAIL FROM:<ok1@a.example> SIZE=%d", pc.MaxBytes))}})
	}
	add(ref.Cmd{Name: "MAIL binarymime", Op: "MAIL", Arg: "ok1@a.example", Binmime: true, Steps: [][]byte{line("MAIL FROM:<ok1@a.example> BODY=BINARYMIME")}})
	add(ref.Cmd{Name: "MAIL unknown param", Op: "MAIL", Bad: "unknownparam", Steps: [][]byte{line("MAIL FROM:<ok1@a.example> FOO=bar")}})
	add(ref.Cmd{Name: "MAIL panic", Op: "MAIL", Arg: "panic@a.example", Steps: [][]byte{line("MAIL FROM:<panic@a.example>")}})

	add(ref.Cmd{Name: "RCPT a", Op: "RCPT", Arg: "oka@b.example", Steps: [][]byte{line("RCPT TO:<oka@b.example>")}})
	add(ref.Cmd{Name: "RCPT b", Op: "RCPT", Arg: "okb@b.example", Steps: [][]byte{line("Rcpt To:<okb@b.example>")}})
	add(ref.Cmd{Name: "RCPT rej", Op: "RCPT", Arg: "rej@b.example", Steps: [][]byte{line("RCPT TO:<rej@b.example>")}})
	add(ref.Cmd{Name: "RCPT rej without enhanced code", Op: "RCPT", Arg: "rejne@b.example", Steps: [][]byte{line("RCPT TO:<rejne@b.example>")}})
	add(ref.Cmd{Name: "RCPT syntax", Op: "RCPT", Bad: "syntax", Steps: [][]byte{line("RCPT TO:<@>")}})

	msg := func(first string) ([]byte, []byte) {
		body := []byte(first + "\r\n.dot line\r\nlast\r\n")
		wire := []byte(first + "\r\n..dot line\r\nlast\r\n.\r\n")
		return body, wire
	}
	for _, d := range []string{"accept-d1", "reject-d2", "early-d3", "panic-d4", "rejectne-d5"} {
		body, wire := msg(d)
		add(ref.Cmd{Name: "DATA " + d, Op: "DATA", Body: body, Steps: [][]byte{line(map[bool]string{true: "data", false: "DATA"}[d == "reject-d2"]), wire}})
	}
	add(ref.Cmd{Name: "DATA with argument", Op: "DATA", Bad: "arg", Steps: [][]byte{line("DATA now")}})

	// command words and keywords are case-insensitive (RFC 5321 2.4): some entries are spelled in lower or mixed case
	spell := map[string][2]string{"BDAT accept-c2 LAST": {"bdat", "last"}, "BDAT early-c5 LAST (fails inside the chunk)": {"Bdat", "Last"}, "BDAT accept-c1": {"bDAT", ""}}
	chunk := func(name, payload string, last bool) {
		verb, lastWord := "BDAT", "LAST"
		if sp, ok := spell[name]; ok {
			verb, lastWord = sp[0], sp[1]
		}
		l := fmt.Sprintf("%s %d", verb, len(payload))
		if last {
			l += " " + lastWord
		}
		add(ref.Cmd{Name: name, Op: "BDAT", Size: len(payload), Last: last, Payload: []byte(payload),
			Steps: [][]byte{append(line(l), payload...)}})
	}
	chunk("BDAT accept-c1", "accept-c1\r\n", false)
	chunk("BDAT accept-c2 LAST", "accept-c2\r\n.\r\n", true)
	chunk("BDAT reject-c3 LAST", "reject-c3\r\nx", true)
	chunk("BDAT rejectne-c6 LAST", "rejectne-c6\r\nx", true)
	chunk("BDAT panic-c7 LAST (backend panics)", "panic-c7\r\nx", true)
	chunk("BDAT earlypanic-c8 (backend panics inside the chunk)", "earlypanic-c8\r\nrest of chunk", false)
	chunk("BDAT earlypanic-c9 LAST (backend panics inside the chunk)", "earlypanic-c9\r\nrest", true)
	chunk("BDAT early-c10 (backend gives up right behind this chunk)", "early-c10\r\n", false)
	chunk("BDAT 0 LAST", "", true)
	chunk("BDAT early-c4 (fails inside the chunk)", "early-c4\r\nrest of chunk", false)
	chunk("BDAT early-c5 LAST (fails inside the chunk)", "early-c5\r\nrest", true)
	add(ref.Cmd{Name: "BDAT malformed size", Op: "BDAT", Bad: "badsize", Steps: [][]byte{line("BDAT x")}})
	add(ref.Cmd{Name: "BDAT bad LAST token", Op: "BDAT", Bad: "badlast", Size: 3, Steps: [][]byte{append(line("BDAT 3 LSAT"), "abc"...)}})
	add(ref.Cmd{Name: "BDAT too many args", Op: "BDAT", Bad: "toomany", Steps: [][]byte{line("BDAT 3 LAST X")}})
	if pc.MaxBytes > 0 {
		big := strings.Repeat("y", int(pc.MaxBytes)+1)
		add(ref.Cmd{Name: "BDAT over limit", Op: "BDAT", Size: len(big), Last: true, Payload: []byte(big), Steps: [][]byte{append(line(fmt.Sprintf("BDAT %d LAST", len(big))), big...)}})
	}

	add(ref.Cmd{Name: "RSET", Op: "RSET", Steps: [][]byte{line("RSET")}})
	add(ref.Cmd{Name: "NOOP", Op: "NOOP", Steps: [][]byte{line("NOOP")}})
	add(ref.Cmd{Name: "VRFY", Op: "VRFY", Steps: [][]byte{line("VRFY someone")}})
	add(ref.Cmd{Name: "HELP", Op: "HELP", Steps: [][]byte{line("HELP")}})
	add(ref.Cmd{Name: "unknown verb", Op: "BAD", Steps: [][]byte{line("FOOB bar")}})
	add(ref.Cmd{Name: "empty line", Op: "BAD", Steps: [][]byte{line("")}})
	add(ref.Cmd{Name: "mangled", Op: "BAD", Steps: [][]byte{line("NOOPX")}})

	for _, sc := range []struct {
		name string
		s    *ref.AuthScript
	}{
		{"AUTH ok", &ref.AuthScript{Mech: "ONE", N: 1, IR: octets("good")}},
		{"AUTH fail", &ref.AuthScript{Mech: "ONE", N: 1, IR: octets("bad")}},
		{"AUTH cancel", &ref.AuthScript{Mech: "ONE", N: 1, IR: ref.AuthResp{Absent: true}, Resps: []ref.AuthResp{{Wire: "*", Cancel: true}}}},
		{"AUTH bad base64", &ref.AuthScript{Mech: "ONE", N: 1, IR: ref.AuthResp{Wire: "!!!", Bad: true}}},
		{"AUTH empty initial response (=)", &ref.AuthScript{Mech: "ONE", N: 1, IR: octets("")}},
	} {
		add(AuthCmd(sc.name, sc.s))
	}
	add(ref.Cmd{Name: "AUTH no argument", Op: "AUTH", Steps: [][]byte{line("AUTH")}})

	add(ref.Cmd{Name: "STARTTLS", Op: "STARTTLS", Steps: [][]byte{line("STARTTLS")}})
	// STARTTLS answered 220, then the client sends something that is not a TLS handshake: the connection stays
	// plaintext in every respect and keeps its state
	add(ref.Cmd{Name: "STARTTLS + failed handshake", Op: "STARTTLSFAIL", Steps: [][]byte{line("STARTTLS"), line("hello, not a handshake")}})
	add(ref.Cmd{Name: "QUIT", Op: "QUIT", Steps: [][]byte{line("QUIT")}})
	return a
}

func octets(v string) ref.AuthResp {
	if v == "" {
		return ref.AuthResp{Wire: "=", Decoded: []byte{}}
	}
	return ref.AuthResp{Wire: base64.StdEncoding.EncodeToString([]byte(v)), Decoded: []byte(v)}
}

// AuthCmd builds the abstract command for a scripted AUTH exchange.
func AuthCmd(name string, a *ref.AuthScript) ref.Cmd {
	first := "AUTH " + a.Mech
	if !a.IR.Absent {
		first += " " + a.IR.Wire
	}
	steps := [][]byte{line(first)}
	for _, r := range a.Resps {
		steps = append(steps, line(r.Wire))
	}
	return ref.Cmd{Name: name, Op: "AUTH", Arg: a.Mech, AuthS: a, Steps: steps}
}

// ---- scripted SASL server ----------------------------------------------------

// stepSASL is a server mechanism with n rounds: it asks for a response with
// challenges "chal<i>" until it has n responses; the last one must be "good".
type stepSASL struct {
	b    *h.Backend
	sess int
	n, i int
	chal func(i int) []byte
}

func (s *stepSASL) Next(resp []byte) ([]byte, bool, error) {
	s.b.RecordNext(s.sess, resp)
	if resp == nil && s.i == 0 {
		return s.challenge(0), false, nil
	}
	s.i++
	if s.i < s.n {
		return s.challenge(s.i), false, nil
	}
	if string(resp) != "good" {
		return nil, false, smtp.ErrAuthFailed
	}
	return nil, true, nil
}

func (s *stepSASL) challenge(i int) []byte {
	if s.chal != nil {
		return s.chal(i)
	}
	return []byte(fmt.Sprintf("chal%d", i))
}

func newSASL(b *h.Backend, sess int, mech string) (sasl.Server, error) {
	switch mech {
	case "ONE":
		return &stepSASL{b: b, sess: sess, n: 1}, nil
	case "TWO":
		return &stepSASL{b: b, sess: sess, n: 2}, nil
	case "THREE":
		return &stepSASL{b: b, sess: sess, n: 3}, nil
	case "EMPTYCHAL":
		return &stepSASL{b: b, sess: sess, n: 2, chal: func(int) []byte { return []byte{} }}, nil
	case "BINCHAL":
		return &stepSASL{b: b, sess: sess, n: 2, chal: func(int) []byte { return []byte{0, 0xff, 0xfe, '\r', '\n'} }}, nil
	}
	return nil, smtp.ErrAuthUnknownMechanism
}

var saslMechs = []string{"ONE", "TWO", "THREE", "EMPTYCHAL", "BINCHAL"}

// serverFor maps a model configuration to the real server configuration and
// a fresh stateless backend.
func serverFor(pc ref.PConfig) (h.Config, *h.Backend) {
	cfg := h.Config{LMTP: pc.LMTP, MaxRecipients: pc.MaxRcpt, MaxMessageBytes: pc.MaxBytes, TLSAvailable: pc.TLSAvail,
		AllowInsecureAuth: pc.AllowInsecureAuth, BinaryMIME: true, UTF8: true, DSN: true, MaxLineLength: pc.LineMax}
	be := &h.Backend{ByContent: true, Auth: pc.AuthBackend, LMTPSess: pc.LMTPBackend, Mechs: saslMechs, NewSASL: newSASL}
	return cfg, be
}

// ---- lock-step execution of a history against the model ------------------------

type stepObs struct {
	Cmd     int         `json:"cmd"`
	Step    int         `json:"step"`
	Replies []ref.Reply `json:"replies"`
	Events  []h.Event   `json:"events"`
	Raw     []byte      `json:"raw"`
}

type histResult struct {
	Finding  *h.Finding
	FailedAt int // index into the history of the command whose step failed (-1: none)
	Key      string
	Model    ref.PState
	Closed   bool
	Sent     []byte
	Wire     []byte
	Steps    []stepObs
	UsedTLS  bool
	Leak     string
	Alts     []ref.Alt // the alternative chosen for each step (for C04's verdict oracle)
}

var reRcpts = regexp.MustCompile(`rcpts=(\d+)`)
var reBytes = regexp.MustCompile(`bytes=(\d+)`)
var reCurLine = regexp.MustCompile(`curline=(\d+)`)

const rcptCap = 3

// canonImplState caps the unbounded counters of the private-state dump: the
// code compares len(recipients) only with 0 and MaxRecipients (<= 2 here) and
// bytesReceived only with MaxMessageBytes.
func canonImplState(pc ref.PConfig, s string) string {
	s = reRcpts.ReplaceAllStringFunc(s, func(m string) string {
		n, _ := strconv.Atoi(m[6:])
		if n > rcptCap {
			n = rcptCap
		}
		return fmt.Sprintf("rcpts=%d", n)
	})
	if pc.MaxBytes == 0 {
		s = reBytes.ReplaceAllString(s, "bytes=*")
	}
	// the line counter matters only through "counter + length of the next line > MaxLineLength" (2000 here);
	// every line of the alphabet is shorter than 100 octets, so all values below 1000 have the same futures
	s = reCurLine.ReplaceAllStringFunc(s, func(m string) string {
		n, _ := strconv.Atoi(m[8:])
		if n < 1000 {
			return "curline=lo"
		}
		return m
	})
	return s
}

func canonModelState(pc ref.PConfig, s ref.PState) string {
	c := s
	if len(c.Rcpts) > rcptCap {
		c.Rcpts = append(append([]string(nil), c.Rcpts[:rcptCap]...), "+")
	}
	if pc.MaxBytes == 0 {
		c.ChunkBytes = 0
	}
	return c.Key()
}

func filterEvents(ev []h.Event) []h.Event {
	var out []h.Event
	for _, e := range ev {
		if e.Kind == "AuthMechs" || e.Kind == "SetStatus" {
			continue
		}
		out = append(out, e)
	}
	return out
}

func matchCalls(want []ref.Call, got []h.Event) string {
	gi := 0
	for _, w := range want {
		if gi < len(got) && got[gi].Kind == w.Kind && (w.Arg == "" || w.Arg == got[gi].Arg) {
			e := got[gi]
			if w.Kind == "NewSession" && (e.Helo != w.Helo || e.TLS != w.TLS) {
				return fmt.Sprintf("NewSession saw Hostname()=%q TLS=%t while the greeting being processed is %q TLS=%t", e.Helo, e.TLS, w.Helo, w.TLS)
			}
			if w.Kind == "Data" || w.Kind == "LMTPData" {
				if e.From != w.From || strings.Join(e.Rcpts, ",") != strings.Join(w.Rcpts, ",") {
					return fmt.Sprintf("%s started with the backend-side envelope from=%q rcpts=%v, the current transaction is from=%q rcpts=%v", w.Kind, e.From, e.Rcpts, w.From, w.Rcpts)
				}
			}
			gi++
			continue
		}
		if w.Optional {
			continue
		}
		return fmt.Sprintf("expected callback %s, got %s", w, h.Calls(got[gi:]))
	}
	if gi < len(got) {
		return fmt.Sprintf("unexpected callback(s) %s", h.Calls(got[gi:]))
	}
	return ""
}

func expString(alts []ref.Alt) string {
	var parts []string
	for _, a := range alts {
		var r, c []string
		for _, x := range a.Replies {
			r = append(r, x.String())
		}
		for _, x := range a.Calls {
			c = append(c, x.String())
		}
		parts = append(parts, fmt.Sprintf("replies[%s] callbacks[%s]", strings.Join(r, " "), strings.Join(c, " ")))
	}
	return strings.Join(parts, "  OR  ")
}

// matchStep picks the alternative that fits what was observed.
func matchStep(exp ref.StepExp, replies []ref.Reply, events []h.Event) (*ref.Alt, string, string) {
	events = filterEvents(events)
	why := ""
	kind := ""
	for i := range exp.Alts {
		a := &exp.Alts[i]
		ok := len(replies) == len(a.Replies)
		for j := 0; ok && j < len(replies); j++ {
			ok = a.Replies[j].Match(replies[j].Code)
		}
		if !ok {
			if why == "" {
				kind, why = "replies", "replies do not match"
			}
			continue
		}
		if m := matchCalls(a.Calls, events); m != "" {
			if kind != "calls" {
				kind, why = "calls", m
			}
			continue
		}
		return a, "", ""
	}
	return nil, kind, why
}

func replyCodes(rs []ref.Reply) string {
	var p []string
	for _, r := range rs {
		p = append(p, fmt.Sprint(r.Code))
	}
	return strings.Join(p, " ")
}

func histNames(alpha []ref.Cmd, hist []int) string {
	var p []string
	for _, i := range hist {
		p = append(p, alpha[i].Name)
	}
	return strings.Join(p, " ; ")
}

// runLockstep executes the history command by command on a fresh real server
// and compares every step with the reference model.
func runLockstep(prefix string, pc ref.PConfig, alpha []ref.Cmd, hist []int) *histResult {
	return runLockstepOpt(prefix, pc, alpha, hist, nil)
}

// lockOpts tunes a lock-step run (used by C10's injection cases).
type lockOpts struct {
	// BeforeHandshake is called after a 220 reply to STARTTLS, before the
	// client starts the TLS handshake.
	BeforeHandshake func(l *h.Live)
	// HandshakeMayFail: a failed handshake ends the run without a finding.
	HandshakeMayFail bool
	HandshakeFailed  bool
	// Final is called at the end with the live connection and the backend.
	Final func(l *h.Live, be *h.Backend, st ref.PState)
	// Backend adjusts the recording backend before the server starts; Patience: see h.Live.Patience.
	Backend  func(be *h.Backend)
	Patience time.Duration
	Settle   bool // see h.Live.Settle
	// Cfg adjusts the server configuration; Pace: see h.Live.Pace.
	Cfg  func(cfg *h.Config)
	Pace time.Duration
}

func runLockstepOpt(prefix string, pc ref.PConfig, alpha []ref.Cmd, hist []int, opts *lockOpts) *histResult {
	res := &histResult{FailedAt: -1}
	cfg, be := serverFor(pc)
	if opts != nil && opts.Backend != nil {
		opts.Backend(be)
	}
	if opts != nil && opts.Cfg != nil {
		opts.Cfg(&cfg)
	}
	defer h.GuardEnter(fmt.Sprintf("lock-step history, config %+v: [%s]", pc, histNames(alpha, hist)))()
	var live *h.Live
	leak, pan := h.Bubble(func() {
		live = h.NewLive(cfg, be, pc.ImplicitTLS)
		if opts != nil {
			live.Patience = opts.Patience
			live.Settle = opts.Settle
			live.Pace = opts.Pace
		}
		st := ref.PState{TLS: pc.ImplicitTLS, Bin: "no"}
		g := live.Greeting()
		grs, err := ref.ParseReplies(g)
		if err != nil || len(grs) != 1 || grs[0].Code != 220 {
			res.Finding = h.F(prefix+"-greeting", "bad greeting %q (%v)", g, err)
			res.FailedAt = 0
			return
		}
		res.Steps = append(res.Steps, stepObs{Cmd: -1, Replies: grs, Raw: g})
	cmds:
		for hi, ci := range hist {
			c := alpha[ci]
			lastClass := 3
			for k, stepBytes := range c.Steps {
				if k > 0 && lastClass != 3 && !(c.Op == "STARTTLSFAIL" && lastClass == 2) {
					break
				}
				out := live.Send(stepBytes)
				events := live.NewEvents()
				if c.Op == "STARTTLSFAIL" && k == 1 {
					// the TLS library may put an alert record on the wire before the server's plaintext reply
					for len(out) >= 5 && out[0] == 0x15 && out[1] == 0x03 {
						n := 5 + int(out[3])<<8 + int(out[4])
						if n > len(out) {
							break
						}
						out = out[n:]
					}
				}
				replies, perr := ref.ParseReplies(out)
				if c.Op == "STARTTLS" && perr == nil && len(replies) == 1 && replies[0].Code == 220 {
					if opts != nil && opts.BeforeHandshake != nil {
						opts.BeforeHandshake(live)
					}
					if err := live.StartTLSHandshake(); err != nil {
						if opts != nil && opts.HandshakeMayFail {
							opts.HandshakeFailed = true
							break cmds
						}
						res.Finding = h.F(prefix+"-starttls-handshake", "history [%s]: TLS handshake after 220 failed: %v", histNames(alpha, hist[:hi+1]), err)
						res.FailedAt = hi
						break cmds
					}
					res.UsedTLS = true
					events = append(events, live.NewEvents()...)
				}
				res.Steps = append(res.Steps, stepObs{Cmd: hi, Step: k, Replies: replies, Events: events, Raw: out})
				desc := fmt.Sprintf("history [%s] then %q (step %d) in model state {%s}", histNames(alpha, hist[:hi]), c.Name, k, st.Key())
				if perr != nil {
					res.Finding = h.F(prefix+"-malformed-reply", "%s: reply is not well-formed: %v; raw %q", desc, perr, out)
					res.FailedAt = hi
					break cmds
				}
				exp := ref.Step(pc, st, c, k)
				alt, kind, why := matchStep(exp, replies, events)
				if alt == nil {
					res.Finding = h.F(fmt.Sprintf("%s-%s-%s", prefix, strings.ToLower(c.Op), kind), "%s: %s.\n   observed: replies [%s] callbacks [%s]\n   accepted: %s", desc, why, replyCodes(replies), h.Calls(filterEvents(events)), expString(exp.Alts))
					res.FailedAt = hi
					break cmds
				}
				if alt.HasChallenge {
					want := ""
					if len(alt.Challenge) > 0 {
						want = base64.StdEncoding.EncodeToString(alt.Challenge)
					}
					if len(replies) != 1 || len(replies[0].Lines) != 1 || replies[0].Lines[0] != want {
						res.Finding = h.F(prefix+"-challenge-differs", "%s: the 334 reply carries %q, the mechanism's challenge %q encodes to %q", desc, replies[0].Lines, alt.Challenge, want)
						res.FailedAt = hi
						break cmds
					}
				}
				// message completion: what did the backend actually read?
				if alt.MsgVerdict != "" {
					if f := checkDelivered(prefix, desc, be, c, st, alt); f != nil {
						res.Finding = f
						res.FailedAt = hi
						break cmds
					}
				}
				res.Alts = append(res.Alts, *alt)
				st = alt.Next
				if len(replies) > 0 {
					lastClass = replies[len(replies)-1].Class()
				} else {
					lastClass = 0
				}
			}
		}
		res.Model = st
		res.Key = canonImplState(pc, live.State()) + " || " + canonModelState(pc, st)
		res.Closed = live.Done
		if st.Closed != live.Done && res.Finding == nil && !(opts != nil && opts.HandshakeFailed) {
			res.Finding = h.F(prefix+"-closed-mismatch", "history [%s]: model says closed=%t, the connection handler returned=%t", histNames(alpha, hist), st.Closed, live.Done)
			res.FailedAt = len(hist) - 1
		}
		if opts != nil && opts.Final != nil {
			opts.Final(live, be, st)
		}
		live.Hangup(h.TermEOF)
		res.Sent = live.Sent
		res.Wire = live.Wire
	})
	res.Leak = leak
	if pan != "" && res.Finding == nil {
		res.Finding = h.F(prefix+"-harness-panic", "history [%s]: %s", histNames(alpha, hist), pan)
		res.FailedAt = len(hist) - 1
	}
	if leak != "" && res.Finding == nil {
		res.Finding = h.F(prefix+"-goroutine-leak", "history [%s]: goroutines never finished: %.400s", histNames(alpha, hist), leak)
		res.FailedAt = len(hist) - 1
	}
	if a := be.FirstAnomaly(); a != "" && res.Finding == nil {
		res.Finding = h.F(prefix+"-backend-anomaly", "history [%s]: %s", histNames(alpha, hist), a)
		res.FailedAt = len(hist) - 1
	}
	if res.Finding == nil && strings.Contains(live.Log.String(), "panic") {
		// recovered panics are expected only where the backend panics
		expected := false
		for _, ci := range hist {
			n := alpha[ci].Name
			if strings.Contains(n, "panic") {
				expected = true
			}
		}
		if !expected {
			res.Finding = h.F(prefix+"-recovered-panic", "history [%s]: the server recovered from a panic although the backend never panicked: %s", histNames(alpha, hist), firstLogLine(live.Log.String()))
			res.FailedAt = len(hist) - 1
		}
	}
	return res
}

// checkDelivered compares what the backend's reader yielded for the message
// that was just completed with the message itself.
func checkDelivered(prefix, desc string, be *h.Backend, c ref.Cmd, st ref.PState, alt *ref.Alt) *h.Finding {
	var msg []byte
	if c.Op == "DATA" {
		msg = c.Body
	} else {
		msg = append(append([]byte(nil), st.MsgSoFar...), c.Payload...)
	}
	tr := be.Trace()
	for i := len(tr) - 1; i >= 0; i-- {
		e := tr[i]
		if e.Kind != "Data" && e.Kind != "LMTPData" {
			continue
		}
		if ref.MsgVerdict(msg) == "early" {
			if !bytes.HasPrefix(msg, e.Body) {
				return h.F(prefix+"-delivered-differs", "%s: backend read %q, not a prefix of the message %q", desc, e.Body, msg)
			}
			return nil
		}
		if !bytes.Equal(e.Body, msg) || e.ReadErr != "EOF" {
			return h.F(prefix+"-delivered-differs", "%s: backend read %q (reader ended with %q), want %q then EOF", desc, e.Body, e.ReadErr, msg)
		}
		return nil
	}
	return h.F(prefix+"-delivered-differs", "%s: no Data call found for the completed message", desc)
}

// ---- breadth-first search over histories ----------------------------------------

type bfsState struct {
	hist []int
}

type bfsStats struct {
	States, Transitions, MaxDepth int
	Closed                        int
}

// exploreProtocol runs the BFS to a fixpoint (or maxDepth). onEdge is called
// for every explored edge with the lock-step result (after the model check).
func exploreProtocol(run *h.Run, prefix string, pc ref.PConfig, alpha []ref.Cmd, maxDepth int, skip func(c ref.Cmd) bool,
	onEdge func(hist []int, r *histResult)) bfsStats {
	var st bfsStats
	seen := map[string]bool{}
	alts := map[string][]int{} // per state: one history that was merged into it (merge audit)
	deep := map[string][]int{} // per state: the longest history that was merged into it
	var mu sync.Mutex
	init := runLockstep(prefix, pc, alpha, nil)
	if init.Finding != nil {
		run.Violate("bfs", bfsCase{PC: pc, Hist: nil, Prefix: prefix}, init.Finding, nil)
		return st
	}
	seen[init.Key] = true
	st.States = 1
	frontier := []bfsState{{}}
	for depth := 1; len(frontier) > 0 && (maxDepth <= 0 || depth <= maxDepth); depth++ {
		if run.Expired() {
			break
		}
		type job struct {
			s  int
			ci int
		}
		var jobs []job
		for si := range frontier {
			for ci := range alpha {
				if skip != nil && skip(alpha[ci]) {
					continue
				}
				jobs = append(jobs, job{si, ci})
			}
		}
		type found struct {
			key  string
			hist []int
		}
		var next []found
		type candT struct {
			hist   []int
			closed bool
		}
		cand := map[string]candT{}
		levelAlt := map[string][]int{} // the largest same-level history that lost against the representative
		h.ParallelFor(len(jobs), func(i int) {
			if i%64 == 0 && run.Expired() {
				return
			}
			j := jobs[i]
			hist := append(append([]int(nil), frontier[j.s].hist...), j.ci)
			r := runLockstep(prefix, pc, alpha, hist)
			run.Transition(1)
			run.Trace(1)
			if r.Finding != nil {
				sub := "bfs"
				c := bfsCase{PC: pc, Hist: hist, Names: histNames(alpha, hist), Prefix: prefix, Tier: run.Tier}
				if r.FailedAt >= 0 && r.FailedAt < len(hist)-1 {
					r.Finding = h.F(prefix+"-prefix-diverged", "a prefix that passed before now fails (nondeterminism?): %s", r.Finding.What)
				}
				run.Violate(sub, c, r.Finding, func() *h.Finding { return replayBFS(c) })
				return
			}
			if onEdge != nil {
				onEdge(hist, r)
			}
			mu.Lock()
			if r.Closed {
				st.Closed++
			}
			if seen[r.Key] && !r.Closed && mergeAudit[prefix] {
				// an arrival at a state of an earlier level: keep the largest history of the first level that brings one
				// (one per kind of the LAST command: a self-loop of MAIL, of BDAT, of AUTH ... may each leave something behind)
				ak := r.Key + " | last=" + alpha[hist[len(hist)-1]].Op
				if old, ok := alts[ak]; !ok || (len(old) == len(hist) && lessHist(old, hist)) {
					alts[ak] = hist
				}
				// ... and the largest one of the LAST level that brings one (the longest way into the state)
				if old, ok := deep[r.Key]; !ok || len(hist) > len(old) || (len(old) == len(hist) && lessHist(old, hist)) {
					deep[r.Key] = hist
				}
			}
			if !seen[r.Key] {
				// the representative history of a new state is the lexicographically smallest one of this level,
				// not the one whose worker happened to finish first: runs are reproducible
				if old, ok := cand[r.Key]; !ok || lessHist(hist, old.hist) {
					if ok && mergeAudit[prefix] && !r.Closed {
						levelAlt[r.Key] = maxHist(levelAlt[r.Key], old.hist)
					}
					cand[r.Key] = candT{hist, r.Closed}
				} else if mergeAudit[prefix] && !r.Closed {
					levelAlt[r.Key] = maxHist(levelAlt[r.Key], hist)
				}
			}
			mu.Unlock()
		})
		for k, a := range levelAlt {
			if _, ok := alts[k+" | same level"]; !ok {
				alts[k+" | same level"] = a
			}
		}
		for k, c := range cand {
			seen[k] = true
			if !c.closed {
				next = append(next, found{k, c.hist})
			}
		}
		// deterministic order of the next frontier (shortest, then lexicographic)
		sort.Slice(next, func(a, b int) bool {
			x, y := next[a].hist, next[b].hist
			for i := range x {
				if x[i] != y[i] {
					return x[i] < y[i]
				}
			}
			return false
		})
		frontier = frontier[:0]
		for _, f := range next {
			frontier = append(frontier, bfsState{hist: f.hist})
		}
		st.Transitions += len(jobs)
		st.MaxDepth = depth
		if len(next) > 0 && depth%2 == 0 {
			run.Sample("history", 4, map[string]interface{}{"config": pc, "history": histNames(alpha, next[len(next)/2].hist), "state": next[len(next)/2].key})
		}
	}
	st.States = len(seen)
	if len(frontier) > 0 {
		run.NotExhaustive(fmt.Sprintf("BFS stopped at depth %d with %d unexpanded states", st.MaxDepth, len(frontier)))
	}
	// ---- merge audit ----
	// Only the representative history of a state is ever extended. The soundness of that rests on the state key; a
	// difference the key cannot see (a field it does not dump - in particular one that a change ADDS) is merged away.
	// So for every state ONE history that was merged into it (if there is one; chosen deterministically) is extended
	// by fixed probe sequences and judged against the model like any other history: states that the key calls equal
	// must have the futures the model predicts from both sides.
	if mergeAudit[prefix] && !run.Expired() {
		idx := map[string]int{}
		for i, a := range alpha {
			idx[a.Name] = i
		}
		var probes [][]int
		for _, names := range [][]string{
			{"RCPT b", "BDAT accept-c2 LAST", "MAIL ok", "RCPT a", "DATA accept-d1", "NOOP"},
			{"MAIL size at the limit", "MAIL ok", "RCPT a", "BDAT accept-c1", "RSET", "AUTH ok", "MAIL ok", "RCPT b", "DATA reject-d2", "NOOP"},
			{"BDAT malformed size", "NOOP", "BDAT bad LAST token", "NOOP", "RCPT a", "RCPT b", "RCPT a", "NOOP"},
		} {
			var p []int
			for _, n := range names {
				if i, ok := idx[n]; ok {
					p = append(p, i)
				}
			}
			probes = append(probes, p)
		}
		var keys []string
		for k := range alts {
			keys = append(keys, k)
		}
		for k, d := range deep {
			alts[k+" | deep"] = d
			keys = append(keys, k+" | deep")
		}
		sort.Strings(keys)
		var audited atomic.Int64
		h.ParallelFor(len(keys), func(i int) {
			if run.Expired() {
				return
			}
			for _, p := range probes {
				hist := append(append([]int(nil), alts[keys[i]]...), p...)
				r := runLockstep(prefix, pc, alpha, hist)
				audited.Add(1)
				run.Trace(1)
				if r.Finding != nil {
					c := bfsCase{PC: pc, Hist: hist, Names: histNames(alpha, hist), Prefix: prefix, Tier: run.Tier}
					r.Finding.What = "(merge audit: a history that the state key had merged into an already known state, extended by a probe sequence) " + r.Finding.What
					run.Violate("bfs", c, r.Finding, func() *h.Finding { return replayBFS(c) })
					return
				}
			}
		})
		run.Counter("merge_audit_histories", audited.Load())
	}
	return st
}

// mergeAudit: which searches audit their merges (by finding prefix).
var mergeAudit = map[string]bool{"c03": true}

func maxHist(a, b []int) []int {
	if a == nil || lessHist(a, b) {
		return b
	}
	return a
}

func lessHist(x, y []int) bool {
	for i := range x {
		if i >= len(y) {
			return false
		}
		if x[i] != y[i] {
			return x[i] < y[i]
		}
	}
	return len(x) < len(y)
}

type bfsCase struct {
	PC     ref.PConfig `json:"config"`
	Hist   []int       `json:"history"`
	Names  string      `json:"names"`
	Prefix string      `json:"prefix"`
	Tier   string      `json:"tier,omitempty"` // C09's alphabet depends on the tier
}

func replayBFS(c bfsCase) *h.Finding {
	alpha := Alphabet(c.PC)
	if c.Prefix == "c09" {
		alpha = c09Alphabet(c.PC, c.Tier)
	}
	for _, i := range c.Hist {
		if i < 0 || i >= len(alpha) {
			return h.F("harness-error", "history index %d outside the alphabet of %d commands", i, len(alpha))
		}
	}
	r := runLockstep(c.Prefix, c.PC, alpha, c.Hist)
	return r.Finding
}

func init() { h.RegisterReplayer("bfs", replayBFS) }
