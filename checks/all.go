// Package checks holds one file per property (engines S and D).
package checks

// All maps property ids to their check; the argument is the tier.
var All = map[string]func(tier string) int{
	"C01":     C01,
	"C02":     C02,
	"C03":     C03,
	"C04":     C04,
	"C05":     C05,
	"C06":     C06,
	"C07":     C07,
	"C08":     C08,
	"C09":     C09,
	"C10":     C10,
	"C11":     C11,
	"C12":     C12,
	"C13":     C13,
	"C14":     C14,
	"C15":     C15,
	"C16":     C16,
	"C17":     C17,
	"C18":     C18,
	"C19":     C19,
	"C20":     C20,
	"C20RACE": C20RaceMain,
	"CB":      CBAll,
}
