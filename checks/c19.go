package checks

import (
	"bufio"
	"bytes"
	"encoding/base64"
	"fmt"
	"io"
	"math/rand"
	"net"
	"os"
	"strings"
	"time"

	"verif/h"
	"verif/ref"
)

// C19: hostile input is bounded: over-long lines and error floods end the connection.

type C19LineCase struct {
	Limit   int    `json:"limit"`
	Pos     string `json:"pos"`  // first | after-ehlo | auth-continuation | after-data | after-chunk | after-chunk-same-segment
	Kind    string `json:"kind"` // padding | command
	Len     int    `json:"len"`  // total length of the line incl. CRLF
	Seg     string `json:"seg"`  // one | octet | split:<k> (offset inside the line)
	Endless bool   `json:"endless,omitempty"`
}

func c19Line(kind string, pos string, n int) []byte {
	var base string
	switch {
	case pos == "auth-continuation":
		base = "" // base64 text
		b := bytes.Repeat([]byte("A"), n-2)
		return append(b, '\r', '\n')
	case kind == "command":
		base = "MAIL FROM:<oklong@x.example>"
	default:
		base = "NOOP"
	}
	if n-2 < len(base) {
		// cannot fit the command: plain padding
		return append(bytes.Repeat([]byte("x"), n-2), '\r', '\n')
	}
	b := []byte(base)
	for len(b) < n-2 {
		b = append(b, ' ')
	}
	return append(b, '\r', '\n')
}

func c19Prefix(pos string) [][]byte {
	switch pos {
	case "first":
		return nil
	case "after-ehlo":
		return [][]byte{[]byte("EHLO c.example\r\n")}
	case "auth-continuation":
		return [][]byte{[]byte("EHLO c.example\r\n"), []byte("AUTH ONE\r\n")}
	case "after-data":
		return [][]byte{[]byte("EHLO c.example\r\n"), []byte("MAIL FROM:<ok@a.example>\r\nRCPT TO:<ok@b.example>\r\n"), []byte("DATA\r\n"), []byte("hi\r\n.\r\n")}
	case "after-chunk":
		return [][]byte{[]byte("EHLO c.example\r\n"), []byte("MAIL FROM:<ok@a.example>\r\nRCPT TO:<ok@b.example>\r\n"), []byte("BDAT 5\r\n"), []byte("hello"), []byte("RSET\r\n")}
	case "after-open-chunk":
		return [][]byte{[]byte("EHLO c.example\r\n"), []byte("MAIL FROM:<ok@a.example>\r\nRCPT TO:<ok@b.example>\r\n"), []byte("BDAT 5\r\n"), []byte("hello")}
	case "after-refused-chunk":
		// MaxMessageBytes is 4 here (evalC19Line): the chunk is answered 552 and skipped
		return [][]byte{[]byte("EHLO c.example\r\n"), []byte("MAIL FROM:<ok@a.example>\r\nRCPT TO:<ok@b.example>\r\n"), []byte("BDAT 10\r\n"), []byte("0123456789")}
	case "after-refused-chunk-nomail":
		return [][]byte{[]byte("EHLO c.example\r\n"), []byte("BDAT 10\r\n"), []byte("0123456789")}
	case "after-failed-chunk":
		// the backend gives up inside the chunk ("early" directive): the rest of the chunk is skipped
		return [][]byte{[]byte("EHLO c.example\r\n"), []byte("MAIL FROM:<ok@a.example>\r\nRCPT TO:<ok@b.example>\r\n"), []byte("BDAT 24\r\n"), []byte("early-x\r\nrest of chunk..")}
	}
	panic(pos)
}

func evalC19Line(c C19LineCase) *h.Finding {
	pc := ref.PConfig{AllowInsecureAuth: true, AuthBackend: true}
	cfg, be := serverFor(pc)
	cfg.MaxLineLength = c.Limit
	if c.Pos == "after-refused-chunk" {
		cfg.MaxMessageBytes = 4
	}
	segs := c19Prefix(c.Pos)
	nPrefix := 0
	for _, s := range segs {
		nPrefix += len(s)
	}
	var ln []byte
	if c.Endless {
		ln = bytes.Repeat([]byte("z"), 1<<20)
	} else {
		ln = c19Line(c.Kind, c.Pos, c.Len)
	}
	switch {
	case c.Seg == "one":
		segs = append(segs, ln)
	case c.Seg == "octet":
		segs = append(segs, h.PerOctet(ln)...)
	case strings.HasPrefix(c.Seg, "split:"):
		var k int
		fmt.Sscanf(c.Seg, "split:%d", &k)
		segs = append(segs, h.SplitAt(ln, k)...)
	case c.Seg == "4k":
		for i := 0; i < len(ln); i += 4096 {
			e := i + 4096
			if e > len(ln) {
				e = len(ln)
			}
			segs = append(segs, ln[i:e])
		}
	}
	tailCmd := []byte("NOOP\r\n")
	if !c.Endless {
		segs = append(segs, tailCmd)
	}
	o := h.RunS(cfg, be, segs, h.TermEOF)
	desc := fmt.Sprintf("limit=%d pos=%s kind=%s len=%d seg=%s endless=%t", c.Limit, c.Pos, c.Kind, c.Len, c.Seg, c.Endless)
	if f := o.Sanity("c19", desc); f != nil {
		return f
	}
	if strings.Contains(o.Log, "panic") {
		return h.F("c19-recovered-panic", "%s: recovered panic: %s", desc, firstLogLine(o.Log))
	}
	if o.ParseErr != nil {
		return h.F("c19-bad-wire", "%s: %v", desc, o.ParseErr)
	}
	// replies that belong to the prefix: written before any octet of the line was taken
	var lineReplies []ref.Reply
	for i, r := range o.Replies {
		if o.ReplyAt[i] > nPrefix {
			lineReplies = append(lineReplies, r)
		}
	}
	tooLong := func(r ref.Reply) bool { return r.Code == 500 && r.Enh == "5.4.0" }
	if c.Endless {
		if len(lineReplies) != 1 || !tooLong(lineReplies[0]) {
			return h.F("c19-endless-reply", "%s: replies to an endless line: %v, want exactly one 500 5.4.0", desc, lineReplies)
		}
		if !o.Closed {
			return h.F("c19-not-closed", "%s: an endless line was answered 500 but the server never closed the connection", desc)
		}
		bound := nPrefix + c.Limit + 2*4096
		if o.Taken > bound {
			return h.F("c19-unbounded-input", "%s: the server took %d octets of input before it closed the connection (bound %d)", desc, o.Taken-nPrefix, bound-nPrefix)
		}
		return nil
	}
	for _, e := range o.Trace {
		if strings.Contains(e.Arg, "oklong@") && c.Len >= c.Limit+2 {
			return h.F("c19-long-line-executed", "%s: an over-long line (or a prefix of it) reached the backend: %s(%s)", desc, e.Kind, e.Arg)
		}
	}
	switch {
	case c.Len >= c.Limit+2:
		if len(lineReplies) != 1 || !tooLong(lineReplies[0]) {
			return h.F("c19-long-line-reply", "%s: replies attributable to the over-long line: %v, want exactly one 500 5.4.0 and a closed connection", desc, lineReplies)
		}
		if !o.Closed {
			return h.F("c19-not-closed", "%s: the over-long line was answered 500 but the server never closed the connection", desc)
		}
	case c.Len <= c.Limit:
		for _, r := range lineReplies {
			if tooLong(r) {
				return h.F("c19-short-line-refused", "%s: a line within the maximum was refused for its length (replies %v)", desc, lineReplies)
			}
		}
		// the line and the NOOP behind it are both answered
		if len(lineReplies) != 2 || lineReplies[1].Code != 250 {
			return h.F("c19-short-line-replies", "%s: want one reply for the line and 250 for the NOOP behind it, got %v", desc, lineReplies)
		}
		if c.Kind == "command" && c.Pos == "after-ehlo" && c.Len-2 >= len("MAIL FROM:<oklong@x.example>") {
			found := false
			for _, e := range o.Trace {
				if e.Kind == "Mail" && e.Arg == "oklong@x.example" {
					found = true
				}
			}
			if !found || lineReplies[0].Code != 250 {
				return h.F("c19-short-command-not-executed", "%s: a padded command within the maximum was not executed (replies %v)", desc, lineReplies)
			}
		}
	}
	return nil
}

// ---- long SASL responses on a server with a raised line limit; characters whose case mapping changes their length ----

type C19LongAuthCase struct {
	Limit   int  `json:"limit"`   // Server.MaxLineLength
	Len     int  `json:"len"`     // octets of the SASL response before base64
	Initial bool `json:"initial"` // as initial response on the AUTH line / as answer to the 334
}

func evalC19LongAuth(c C19LongAuthCase) *h.Finding {
	pc := ref.PConfig{AllowInsecureAuth: true, AuthBackend: true}
	cfg, be := serverFor(pc)
	cfg.MaxLineLength = c.Limit
	resp := base64.StdEncoding.EncodeToString(bytes.Repeat([]byte("r"), c.Len))
	in := "EHLO c.example\r\n"
	nPre := 2
	if c.Initial {
		in += "AUTH ONE " + resp + "\r\n"
	} else {
		in += "AUTH ONE\r\n" + resp + "\r\n"
		nPre = 3
	}
	in += "NOOP\r\n"
	o := h.RunS(cfg, be, h.OneSeg([]byte(in)), h.TermEOF)
	desc := fmt.Sprintf("MaxLineLength %d, a SASL response of %d octets (%d base64 characters), initial=%t", c.Limit, c.Len, len(resp), c.Initial)
	if f := o.Sanity("c19", desc); f != nil {
		return f
	}
	if strings.Contains(o.Log, "panic") {
		return h.F("c19-recovered-panic", "%s: recovered panic: %s", desc, firstLogLine(o.Log))
	}
	// the line is within the limit: the mechanism gets exactly these octets, the exchange ends with ONE final reply and the
	// NOOP behind it is answered
	wantArg := fmt.Sprintf("%q", bytes.Repeat([]byte("r"), c.Len))
	seen := false
	for _, e := range o.Trace {
		if e.Kind == "Next" && e.Arg == wantArg {
			seen = true
		}
	}
	if !seen {
		return h.F("c19-short-line-refused", "%s: the mechanism did not receive the response intact (replies %s; mechanism inputs: %.200s)", desc, o.Codes(), h.Calls(o.Trace))
	}
	if len(o.Replies) != nPre+2 || o.Replies[nPre+1].Code != 250 {
		return h.F("c19-short-line-replies", "%s: replies %s, want %d for the prologue, one final AUTH reply and 250 for NOOP", desc, o.Codes(), nPre)
	}
	return nil
}

func init() { h.RegisterReplayer("c19-long-auth", evalC19LongAuth) }

// ---- real sockets: an endless line over the loopback interface / a Unix socket ---------------------------------

// C19SockCase: a real listener (Server.Serve), one client that sends Prefix commands and then a line that never ends.
// The oracle counts octets, not seconds: once the server has answered and closed, a client cannot get rid of more than
// what the kernel's socket buffers hold; a client that manages to write 96 MiB behind the limit is being read by
// somebody.
type C19SockCase struct {
	Network string `json:"network"` // tcp | unix
	Pos     string `json:"pos"`     // first | after-ehlo
	ReadTO  bool   `json:"read_timeout,omitempty"`
}

const c19SockVolume = 96 << 20

func evalC19Sock(c C19SockCase) (f *h.Finding) {
	desc := fmt.Sprintf("%+v", c)
	defer h.GuardEnter("C19 real socket " + desc)()
	be := &h.Backend{}
	cfg := h.Config{}
	if c.ReadTO {
		cfg.ReadTO = 10 * time.Minute
	}
	srv := cfg.NewServer(be, &h.LogBuf{})
	var ln net.Listener
	var err error
	if c.Network == "unix" {
		dir, derr := os.MkdirTemp("", "c19sock")
		if derr != nil {
			return h.F("harness-error", "tempdir: %v", derr)
		}
		defer os.RemoveAll(dir)
		ln, err = net.Listen("unix", dir+"/s")
	} else {
		ln, err = net.Listen("tcp", "127.0.0.1:0")
	}
	if err != nil {
		return h.F("harness-error", "listen: %v", err)
	}
	served := make(chan struct{})
	go func() { srv.Serve(ln); close(served) }()
	defer func() {
		srv.Close()
		<-served
	}()
	conn, err := net.Dial(ln.Addr().Network(), ln.Addr().String())
	if err != nil {
		return h.F("harness-error", "dial: %v", err)
	}
	defer conn.Close()
	// a generous real-time bound only so that a harness mistake cannot hang the check; hitting it is NOT a verdict
	conn.SetDeadline(time.Now().Add(150 * time.Second))
	br := bufio.NewReader(conn)
	if _, err := br.ReadString('\n'); err != nil {
		return h.F("harness-error", "%s: greeting: %v", desc, err)
	}
	if c.Pos == "after-ehlo" {
		io.WriteString(conn, "EHLO c.example\r\n")
		for {
			l, err := br.ReadString('\n')
			if err != nil {
				return h.F("harness-error", "%s: EHLO: %v", desc, err)
			}
			if len(l) > 3 && l[3] == ' ' {
				break
			}
		}
	}
	// the reader: everything the server says until it closes
	got := make(chan []byte, 1)
	go func() {
		b, _ := io.ReadAll(br)
		got <- b
	}()
	chunk := bytes.Repeat([]byte("x"), 64<<10)
	sent := 0
	var werr error
	for sent < c19SockVolume {
		n, err := conn.Write(chunk)
		sent += n
		if err != nil {
			werr = err
			break
		}
	}
	if werr == nil {
		return h.F("c19-endless-line-read", "%s: the client wrote %d octets of one line that never ends and no write failed: the server is still reading (and has not closed the connection)", desc, sent)
	}
	if ne, ok := werr.(net.Error); ok && ne.Timeout() {
		fmt.Printf("  note: %s: the harness's 150 s guard ended the writes after %d octets (no verdict)\n", desc, sent)
		return nil
	}
	conn.SetDeadline(time.Now().Add(150 * time.Second))
	select {
	case b := <-got:
		// the reply can be lost to a connection reset (unread input in a closed socket); when one arrives it is the 500
		if len(b) > 0 && !bytes.HasPrefix(b, []byte("500 ")) {
			return h.F("c19-endless-line-reply", "%s: the server answered an endless line with %.80q", desc, b)
		}
	case <-time.After(160 * time.Second):
		fmt.Printf("  note: %s: reader still waiting (no verdict)\n", desc)
	}
	return nil
}

func init() { h.RegisterReplayer("c19-sock", evalC19Sock) }

// ---- short strings as command lines -----------------------------------------------

type C19StrCase struct {
	State string `json:"state"` // fresh | greeted | tx
	S     []byte `json:"s"`
	Show  string `json:"show"`
	Octet bool   `json:"octet"`
}

func evalC19Str(c C19StrCase) *h.Finding {
	pc := ref.PConfig{AllowInsecureAuth: true, AuthBackend: true}
	cfg, be := serverFor(pc)
	var pre string
	nPre := 1
	switch c.State {
	case "greeted":
		pre, nPre = "EHLO c.example\r\n", 2
	case "tx":
		pre, nPre = "EHLO c.example\r\nMAIL FROM:<ok@a.example>\r\nRCPT TO:<ok@b.example>\r\n", 4
	}
	segs := [][]byte{}
	if pre != "" {
		segs = append(segs, []byte(pre))
	}
	if c.Octet {
		segs = append(segs, h.PerOctet(c.S)...)
	} else if len(c.S) > 0 {
		segs = append(segs, c.S)
	}
	o := h.RunS(cfg, be, segs, h.TermEOF)
	desc := fmt.Sprintf("state=%s input=%q octet=%t", c.State, c.S, c.Octet)
	if f := o.Sanity("c19", desc); f != nil {
		return f
	}
	if strings.Contains(o.Log, "panic") {
		return h.F("c19-recovered-panic", "%s: recovered panic: %s", desc, firstLogLine(o.Log))
	}
	o.Replies, o.ParseErr = ref.ParseRepliesLenient(o.Wire) // the echo of control octets in reply text is not judged here
	if o.ParseErr != nil {
		return h.F("c19-bad-wire", "%s: %v", desc, o.ParseErr)
	}
	// number of lines the server sees: the LF-terminated ones. A trailing fragment that the peer never completed before
	// it hung up is not a line (until fix D34 it was executed like one, and this oracle had taken that for granted).
	n := bytes.Count(c.S, []byte("\n"))
	want := n
	if n >= 4 {
		want = 5 // four error replies and the closing notice
	}
	got := o.Replies[nPre:]
	if len(o.Replies) < nPre {
		return h.F("c19-str-prefix", "%s: replies %s", desc, o.Codes())
	}
	if len(got) != want {
		return h.F("c19-str-reply-count", "%s: %d replies to %d garbage lines, want %d (%s)", desc, len(got), n, want, o.Codes())
	}
	for _, r := range got {
		if r.Class() != 5 {
			return h.F("c19-str-reply-class", "%s: garbage answered with %s", desc, r.String())
		}
	}
	if n >= 4 && !o.Closed {
		return h.F("c19-not-closed", "%s: four bad commands were answered (%s) but the server never closed the connection", desc, o.Codes())
	}
	for _, e := range o.Trace[0:] {
		if e.Kind == "Data" || e.Kind == "LMTPData" {
			return h.F("c19-str-callback", "%s: garbage caused a %s callback", desc, e.Kind)
		}
	}
	return nil
}

// ---- sequences around the error threshold -------------------------------------------

type C19SeqCase struct {
	Greeted bool   `json:"greeted"`
	Seq     string `json:"seq"` // letters: v=NOOP u=unknown verb m=5-octet line e=empty line s=too short n=no space after verb M=MAIL (needs the session)
	Seg     string `json:"seg"` // one | lines | octet
}

func evalC19Seq(c C19SeqCase) *h.Finding {
	pc := ref.PConfig{AllowInsecureAuth: true, AuthBackend: true}
	cfg, be := serverFor(pc)
	var lines []string
	want := []string{"220"}
	if c.Greeted {
		lines = append(lines, "EHLO c.example\r\n")
		want = append(want, "250")
	}
	errs := 0
	closedAt := -1
	for i, ch := range c.Seq {
		switch ch {
		case 'v':
			lines = append(lines, "NOOP\r\n")
		case 'u':
			lines = append(lines, "FOOB x\r\n")
		case 'm':
			lines = append(lines, "NOOPX\r\n")
		case 'e':
			lines = append(lines, "\r\n")
		case 'R':
			lines = append(lines, "RSET\r\n") // valid; goes through the transaction reset
		case 'E':
			lines = append(lines, "EHLO again.example\r\n") // valid; a repeated greeting resets the transaction
		case 's':
			lines = append(lines, "FOO\r\n") // too short to be a command: refused by the line parser itself
		case 'n':
			lines = append(lines, "MAILFROM:<a@b>\r\n") // no space after the verb: refused by the line parser
		case 'M':
			// a command that needs the session: executed after the server has given up it would
			// run on a torn-down connection
			lines = append(lines, "MAIL FROM:<ok@a.example>\r\n")
		}
		if closedAt >= 0 {
			continue
		}
		if ch == 'v' || ch == 'R' || ch == 'E' {
			want = append(want, "250")
			continue
		}
		if ch == 'M' {
			if c.Greeted {
				want = append(want, "250")
			} else {
				want = append(want, "5xx")
			}
			continue
		}
		errs++
		want = append(want, "5xx")
		if errs > 3 {
			want = append(want, "500")
			closedAt = i
		}
	}
	var segs [][]byte
	all := []byte(strings.Join(lines, ""))
	switch c.Seg {
	case "one":
		segs = h.OneSeg(all)
	case "octet":
		segs = h.PerOctet(all)
	default:
		for _, l := range lines {
			segs = append(segs, []byte(l))
		}
	}
	o := h.RunS(cfg, be, segs, h.TermEOF)
	desc := fmt.Sprintf("greeted=%t seq=%s seg=%s", c.Greeted, c.Seq, c.Seg)
	if f := o.Sanity("c19", desc); f != nil {
		return f
	}
	if strings.Contains(o.Log, "panic") {
		return h.F("c19-recovered-panic", "%s: recovered panic: %s", desc, firstLogLine(o.Log))
	}
	if o.ParseErr != nil {
		return h.F("c19-bad-wire", "%s: %v", desc, o.ParseErr)
	}
	ok := len(o.Replies) == len(want)
	for i := 0; ok && i < len(want); i++ {
		if want[i] == "5xx" {
			ok = o.Replies[i].Class() == 5
		} else {
			ok = fmt.Sprint(o.Replies[i].Code) == want[i]
		}
	}
	if !ok {
		return h.F("c19-threshold", "%s: replies %s, want %v (the connection is closed exactly by the 4th unrecognised or malformed command, with one closing 500)", desc, o.Codes(), want)
	}
	if errs > 3 && !o.Closed {
		return h.F("c19-not-closed", "%s: the server announced that it gives up (%s) but never closed the connection", desc, o.Codes())
	}
	return nil
}

// ---- the error budget across a STARTTLS upgrade ---------------------------------------------------------

type C19TLSCase struct {
	Before string `json:"before"` // bad commands sent in plaintext: letters u (unknown verb), m (mangled), e (empty line)
	After  string `json:"after"`  // bad commands sent inside TLS
}

func c19BadLine(ch byte) string {
	switch ch {
	case 'u':
		return "XXXX nothing\r\n"
	case 'm':
		return "NOOPX\r\n"
	}
	return "\r\n"
}

// evalC19TLS: "more than three unrecognised or malformed commands" is counted per connection; a successful STARTTLS
// in between does not hand out a fresh budget.
func evalC19TLS(c C19TLSCase) *h.Finding {
	var f *h.Finding
	desc := fmt.Sprintf("bad commands %q in plaintext, STARTTLS, then %q inside TLS", c.Before, c.After)
	cfg, be := serverFor(ref.PConfig{TLSAvail: true, AllowInsecureAuth: true, AuthBackend: true})
	leak, pan := h.Bubble(func() {
		live := h.NewLive(cfg, be, false)
		live.Greeting()
		errs := 0
		closedAt := -1
		send := func(l string) []ref.Reply {
			rs, _ := ref.ParseRepliesLenient(live.Send([]byte(l)))
			return rs
		}
		send("EHLO c.example\r\n")
		for i := 0; i < len(c.Before); i++ {
			send(c19BadLine(c.Before[i]))
			errs++
		}
		if rs := send("STARTTLS\r\n"); len(rs) != 1 || rs[0].Code != 220 {
			f = h.F("c19-tls-harness", "%s: STARTTLS not accepted: %v", desc, rs)
			return
		}
		if err := live.StartTLSHandshake(); err != nil {
			f = h.F("c19-tls-harness", "%s: handshake: %v", desc, err)
			return
		}
		send("EHLO c.example\r\n")
		for i := 0; i < len(c.After); i++ {
			rs := send(c19BadLine(c.After[i]))
			errs++
			if live.Done && closedAt < 0 {
				closedAt = errs
			}
			if errs < 4 && (live.Done || len(rs) != 1 || rs[0].Class() != 5) {
				f = h.F("c19-threshold", "%s: bad command number %d of the connection was answered %v (connection closed: %t), want one 5xx reply and an open connection", desc, errs, rs, live.Done)
				return
			}
			if errs == 4 {
				if !live.Done {
					f = h.F("c19-threshold", "%s: the connection is still open after the 4th unrecognised/malformed command (3 are tolerated per connection; the upgrade does not reset the count): replies %v", desc, rs)
				}
				return
			}
		}
		live.Hangup(h.TermEOF)
	})
	if f != nil {
		return f
	}
	if pan != "" {
		return h.F("c19-panic", "%s: %s", desc, pan)
	}
	if leak != "" {
		return h.F("c19-deadlock", "%s: %.200s", desc, leak)
	}
	return nil
}

func init() {
	h.RegisterReplayer("c19-tls", evalC19TLS)
	h.RegisterReplayer("c19-line", evalC19Line)
	h.RegisterReplayer("c19-str", evalC19Str)
	h.RegisterReplayer("c19-seq", evalC19Seq)
}

var c19Alphabet = []byte{0, '\r', '\n', ' ', 'A', 'a', ':', '<', 0xff}

func C19(tier string) int {
	run := h.NewRun("C19", tier, "exploration", "", 25*time.Minute)
	strLen, seqLen := 4, 8
	if tier == "thorough" {
		strLen, seqLen = 5, 9
	}
	limits := []int{16, 64, 2000}
	positions := []string{"first", "after-ehlo", "auth-continuation", "after-data", "after-chunk", "after-open-chunk", "after-refused-chunk", "after-refused-chunk-nomail", "after-failed-chunk"}
	var lineCases []C19LineCase
	for _, lim := range limits {
		for _, pos := range positions {
			if lim < 30 && pos != "first" && pos != "after-ehlo" {
				continue // the commands that build these positions do not fit in such a limit
			}
			for _, kind := range []string{"padding", "command"} {
				if pos == "auth-continuation" && kind == "command" {
					continue
				}
				for n := lim - 2; n <= lim+4; n++ {
					if n < 6 {
						continue
					}
					segs := []string{"one", "octet"}
					if lim <= 64 {
						for k := 1; k < n; k++ {
							segs = append(segs, fmt.Sprintf("split:%d", k))
						}
					} else {
						for _, k := range []int{1, 5, 28, 29, lim / 2, lim - 2, lim - 1, lim, lim + 1, n - 2, n - 1} {
							if k > 0 && k < n {
								segs = append(segs, fmt.Sprintf("split:%d", k))
							}
						}
					}
					for _, s := range segs {
						lineCases = append(lineCases, C19LineCase{Limit: lim, Pos: pos, Kind: kind, Len: n, Seg: s})
					}
				}
			}
			for _, s := range []string{"one", "4k", "octet"} {
				if s == "octet" && tier == "quick" && lim == 2000 {
					continue
				}
				lineCases = append(lineCases, C19LineCase{Limit: lim, Pos: pos, Kind: "padding", Seg: s, Endless: true})
			}
		}
	}
	run.Rule = fmt.Sprintf("(a) line limits %v x positions %v x {padded NOOP, padded MAIL command} x total line length limit-2..limit+4 x segmentation {line in one segment, one octet per segment, every 2-split of the line (limits 16, 64) / 2-splits around the limit (2000)}; (b) an endless LF-free line of 1 MiB at every position x {one segment, 4 KiB segments, per octet}: octets taken before closing <= limit + 2*4096; (c) ALL strings of <=%d octets over {NUL,CR,LF,SP,'A','a',':','<',0xFF} and ALL strings of up to 3 octets more over {CR,LF,'A',SP}, as command input in states {fresh, greeted, in transaction} x {one segment, per octet}; (d) ALL sequences of <=%d commands over {NOOP, unknown verb, mangled, empty line} and of one less over {NOOP, unknown, mangled, empty, too short, no space after the verb, MAIL} (two less), and over {unknown, mangled, RSET, repeated EHLO} x {fresh, greeted} x {one segment, one per line, per octet}; (f) ALL splits of <=4 bad commands over {unknown, mangled, empty} into a plaintext part (<=3) and a part inside TLS after a real STARTTLS handshake: the count runs per connection; (g) SASL responses of 100..8000 octets within a line limit raised to 4096 / 12288: delivered to the mechanism intact, no panic; (h) ALL lines of <=4 symbols over {dotless i, long s, I with dot, sharp s, Kelvin sign, capital sharp s, 0xFF, 0xC4, 'A', SP} (case mappings that change the UTF-8 length, invalid UTF-8); (i) REAL SOCKETS (Server.Serve on loopback TCP and on a Unix socket) x {first line, after EHLO} x {no read timeout, 10 min}: a client that writes one line that never ends must see a write fail before it has written 96 MiB (the server has answered, closed and stopped reading; the oracle counts octets, never seconds); (e) labelled supplement: seeded random binary input. Distinct by construction; non-trivial = line length within 2 of the limit or over it / string contains a control octet / sequence contains an error. Oracle: never a panic (escaped or recovered); >= limit+2: exactly one 500 5.4.0, closed, no backend call from the line or a prefix of it; <= limit: never refused for length, line and following NOOP answered; limit+1 not judged; exactly the 4th error closes with one extra 500.", limits, positions, strLen, seqLen)
	run.Assumptions = []string{"'unrecognised or malformed command' = unknown verb, empty line, or a line parseCmd cannot split; commands with a known verb and bad arguments are not in the threshold sequences", "message lines inside DATA are not command lines and are not judged here", "known finding D6 (limiter counts BDAT payload sharing a raw read) is demonstrated by one directed family and matched by signature"}

	h.ParallelFor(len(lineCases), func(i int) {
		if run.Expired() {
			return
		}
		c := lineCases[i]
		f := evalC19Line(c)
		run.Eval(c.Endless || c.Len >= c.Limit-2)
		if f != nil {
			run.Violate("c19-line", c, f, func() *h.Finding { return evalC19Line(c) })
			run.Outcome("violation:" + f.Sig)
		} else {
			switch {
			case c.Endless:
				run.Outcome("endless-closed")
			case c.Len >= c.Limit+2:
				run.Outcome("long-refused")
			case c.Len <= c.Limit:
				run.Outcome("short-accepted")
			default:
				run.Outcome("tolerance")
			}
		}
		if i%4001 == 17 {
			run.Sample("line", 4, c)
		}
	})

	// (known finding) a short command behind chunk payload in the same segment
	for _, lim := range []int{40, 64} {
		pc := ref.PConfig{AllowInsecureAuth: true, AuthBackend: true}
		cfg, be := serverFor(pc)
		cfg.MaxLineLength = lim
		payload := strings.Repeat("p", lim-4)
		in := [][]byte{[]byte("EHLO c.example\r\n"), []byte("MAIL FROM:<ok@a.example>\r\n"), []byte("RCPT TO:<ok@b.example>\r\n"), []byte(fmt.Sprintf("BDAT %d\r\n%sNOOP\r\n", len(payload), payload))}
		o := h.RunS(cfg, be, in, h.TermEOF)
		run.Eval(true)
		n := len(o.Replies)
		if n > 0 && o.Replies[n-1].Code == 500 && o.Replies[n-1].Enh == "5.4.0" {
			run.Violate("c19-line", map[string]interface{}{"limit": lim, "segments": in}, h.F("linelimit-counts-bdat-payload", "limit=%d: 'NOOP' behind a %d-octet chunk in the same segment is refused with 500 5.4.0 although no line is over the limit (replies %s)", lim, len(payload), o.Codes()), nil)
		} else if n != 6 || o.Replies[n-1].Code != 250 || o.Replies[n-2].Code != 250 {
			run.Violate("c19-line", map[string]interface{}{"limit": lim, "segments": in}, h.F("c19-after-chunk-same-segment", "limit=%d: unexpected replies %s", lim, o.Codes()), nil)
		}
	}

	// (c) all short strings
	var strs [][]byte
	enumStrings(c19Alphabet, strLen, func(s []byte) { strs = append(strs, append([]byte(nil), s...)) })
	// longer strings over the four octets the command splitter distinguishes by position (runs of bare CR in front of
	// the line end, spaces, letters): lengths strLen+1..strLen+3
	enumStrings([]byte{'\r', '\n', 'A', ' '}, strLen+3, func(s []byte) {
		if len(s) > strLen {
			strs = append(strs, append([]byte(nil), s...))
		}
	})
	h.ParallelFor(len(strs), func(i int) {
		if run.Expired() {
			return
		}
		// every string as it is (a trailing fragment is then cut off by the end of the connection) and, unless it ends
		// in LF anyway, completed by CRLF (every string is a line at least once)
		variants := [][]byte{strs[i]}
		if n := len(strs[i]); n == 0 || strs[i][n-1] != '\n' {
			variants = append(variants, append(append([]byte(nil), strs[i]...), '\r', '\n'))
		}
		for _, st := range []string{"fresh", "greeted", "tx"} {
			for _, oct := range []bool{false, true} {
				for _, v := range variants {
					c := C19StrCase{State: st, S: v, Octet: oct}
					f := evalC19Str(c)
					run.Eval(bytes.ContainsAny(v, "\x00\r\n\xff"))
					if f != nil {
						c.Show = fmt.Sprintf("%q", v)
						run.Violate("c19-str", c, f, func() *h.Finding { return evalC19Str(c) })
						run.Outcome("violation:" + f.Sig)
					}
				}
			}
		}
		if i%1777 == 5 {
			run.Sample("string", 4, fmt.Sprintf("%q", strs[i]))
		}
	})
	run.Outcome("strings-ok")

	// (d) threshold sequences
	var seqs []string
	enumStrings([]byte("vumesnM"), seqLen-2, func(s []byte) { seqs = append(seqs, string(s)) })
	// valid commands that reset the transaction between the errors: the error budget is per connection
	enumStrings([]byte("uREm"), seqLen, func(s []byte) {
		if strings.ContainsAny(string(s), "RE") {
			seqs = append(seqs, string(s))
		}
	})
	enumStrings([]byte("vume"), seqLen, func(s []byte) {
		if len(s) == seqLen {
			seqs = append(seqs, string(s))
		}
	})
	h.ParallelFor(len(seqs), func(i int) {
		if run.Expired() {
			return
		}
		for _, g := range []bool{false, true} {
			for _, seg := range []string{"one", "lines", "octet"} {
				c := C19SeqCase{Greeted: g, Seq: seqs[i], Seg: seg}
				f := evalC19Seq(c)
				run.Eval(strings.ContainsAny(seqs[i], "ume"))
				if f != nil {
					run.Violate("c19-seq", c, f, func() *h.Finding { return evalC19Seq(c) })
					run.Outcome("violation:" + f.Sig)
				}
			}
		}
		if i%9001 == 77 {
			run.Sample("sequence", 3, seqs[i])
		}
	})
	run.Outcome("sequences-ok")

	// (g) long SASL responses within a raised line limit
	var lacases []C19LongAuthCase
	for _, lim := range []int{4096, 12288} {
		for _, n := range []int{100, 1400, 1499, 1500, 1501, 1900, 2500, 3000, 3071, 3072, 3073, 4500, 8000} {
			for _, ini := range []bool{true, false} {
				if (n+2)/3*4+12 < lim {
					lacases = append(lacases, C19LongAuthCase{Limit: lim, Len: n, Initial: ini})
				}
			}
		}
	}
	h.ParallelFor(len(lacases), func(i int) {
		f := evalC19LongAuth(lacases[i])
		run.Eval(true)
		if f != nil {
			run.Violate("c19-long-auth", lacases[i], f, func() *h.Finding { return evalC19LongAuth(lacases[i]) })
			run.Outcome("violation:" + f.Sig)
		}
	})
	// (h) characters whose upper/lower-case mapping changes their length in UTF-8, and invalid UTF-8, in short lines
	var fold [][]byte
	foldAlpha := []string{"\u0131", "\u017f", "\u0130", "\u00df", "\u212a", "\u1e9e", "\xff", "\xc4", "A", " "}
	var recFold func(cur string, n int)
	recFold = func(cur string, n int) {
		fold = append(fold, []byte(cur+"\r\n"))
		if n == 4 {
			return
		}
		for _, a := range foldAlpha {
			recFold(cur+a, n+1)
		}
	}
	recFold("", 0)
	h.ParallelFor(len(fold), func(i int) {
		for _, st := range []string{"fresh", "greeted"} {
			c := C19StrCase{State: st, S: fold[i]}
			f := evalC19Str(c)
			run.Eval(true)
			if f != nil {
				c.Show = fmt.Sprintf("%q", fold[i])
				run.Violate("c19-str", c, f, func() *h.Finding { return evalC19Str(c) })
				run.Outcome("violation:" + f.Sig)
			}
		}
	})
	// (i) real sockets: an endless line over loopback TCP and over a Unix socket (sequentially: 96 MiB each at most)
	for _, nw := range []string{"tcp", "unix"} {
		for _, pos := range []string{"first", "after-ehlo"} {
			for _, rto := range []bool{false, true} {
				c := C19SockCase{Network: nw, Pos: pos, ReadTO: rto}
				f := evalC19Sock(c)
				run.Eval(true)
				if f != nil {
					run.Violate("c19-sock", c, f, func() *h.Finding { return evalC19Sock(c) })
					run.Outcome("violation:" + f.Sig)
				}
			}
		}
	}
	run.Outcome("real-sockets-ok")
	// (f) the error budget across a STARTTLS upgrade
	var tcases []C19TLSCase
	enumStrings([]byte("ume"), 3, func(b []byte) {
		enumStrings([]byte("ume"), 4, func(a []byte) {
			if len(b)+len(a) >= 1 && len(b)+len(a) <= 4 && (len(b)+len(a) == 4 || len(a) > 0) {
				tcases = append(tcases, C19TLSCase{Before: string(b), After: string(a)})
			}
		})
	})
	h.ParallelFor(len(tcases), func(i int) {
		c := tcases[i]
		f := evalC19TLS(c)
		run.Eval(true)
		if f != nil {
			run.Violate("c19-tls", c, f, func() *h.Finding { return evalC19TLS(c) })
			run.Outcome("violation:" + f.Sig)
		}
	})
	run.Outcome("tls-budget-ok")

	// (e) labelled supplement: random binary input
	rng := rand.New(rand.NewSource(run.Seed))
	nrand := 3000
	if tier == "thorough" {
		nrand = 30000
	}
	type rc struct {
		segs [][]byte
	}
	var rcs []rc
	for i := 0; i < nrand; i++ {
		var segs [][]byte
		if rng.Intn(2) == 0 {
			segs = append(segs, []byte("EHLO c.example\r\n"))
		}
		for k := rng.Intn(6); k >= 0; k-- {
			b := make([]byte, rng.Intn(300))
			rng.Read(b)
			if rng.Intn(3) == 0 {
				b = append(b, "\r\n"...)
			}
			segs = append(segs, b)
		}
		rcs = append(rcs, rc{segs})
	}
	h.ParallelFor(len(rcs), func(i int) {
		pc := ref.PConfig{AllowInsecureAuth: true, AuthBackend: true}
		cfg, be := serverFor(pc)
		o := h.RunS(cfg, be, rcs[i].segs, h.TermEOF)
		var f *h.Finding
		if f = o.Sanity("c19", "random input"); f == nil {
			if strings.Contains(o.Log, "panic") {
				f = h.F("c19-recovered-panic", "random input: recovered panic: %s", firstLogLine(o.Log))
			} else if _, err := ref.ParseRepliesLenient(o.Wire); err != nil {
				f = h.F("c19-bad-wire", "random input: %v", err)
			}
		}
		if f != nil {
			run.Violate("c19-random", map[string]interface{}{"segments": rcs[i].segs}, f, nil)
		}
	})
	run.Counter("random_supplement", int64(len(rcs)))
	return run.Finish()
}
