package checks

import (
	"bytes"
	"encoding/base64"
	"errors"
	"fmt"
	"strings"
	"time"

	"github.com/emersion/go-sasl"
	smtp "github.com/emersion/go-smtp"
	"verif/h"
	"verif/ref"
)

// C09: AUTH is unreachable on insecure connections and succeeds at most once.

var c09Values = []string{"good", "bad", "", "\x00", "\xff\xfe", strings.Repeat("L", 57) + "\x00\xff tail"}

func mechInfo(m string) (n int, chal string) {
	switch strings.ToUpper(m) {
	case "ONE":
		return 1, "text"
	case "TWO":
		return 2, "text"
	case "THREE":
		return 3, "text"
	case "EMPTYCHAL":
		return 2, "empty"
	case "BINCHAL":
		return 2, "binary"
	}
	return 0, "text"
}

func contResp(v string) ref.AuthResp {
	// a continuation response: base64 text, the empty response is an empty line
	return ref.AuthResp{Wire: base64.StdEncoding.EncodeToString([]byte(v)), Decoded: []byte(v)}
}

// c09Scripts enumerates AUTH exchanges: mechanisms of 1..3 rounds x initial
// response {absent, each value, "=", bad base64} x for every later round
// {each value, "*", bad base64}; exchanges that end early are not extended.
func c09Scripts(tier string) []ref.Cmd {
	var out []ref.Cmd
	seen := map[string]bool{}
	addScript := func(a *ref.AuthScript) {
		var name strings.Builder
		fmt.Fprintf(&name, "AUTH %s", a.Mech)
		if a.IR.Absent {
			name.WriteString(" (no IR)")
		} else {
			fmt.Fprintf(&name, " %.12q", a.IR.Wire)
		}
		for _, r := range a.Resps {
			fmt.Fprintf(&name, " / %.12q", r.Wire)
		}
		if seen[name.String()] {
			return
		}
		seen[name.String()] = true
		out = append(out, AuthCmd(name.String(), a))
	}
	mechs := []string{"ONE", "TWO", "THREE", "one", "EMPTYCHAL", "BINCHAL", "NOPE"}
	values := c09Values
	if tier == "quick" {
		values = []string{"good", "bad", "", "\xff\xfe\x00"}
	}
	for _, m := range mechs {
		n, chal := mechInfo(m)
		var irs []ref.AuthResp
		irs = append(irs, ref.AuthResp{Absent: true}, ref.AuthResp{Wire: "!!!", Bad: true}, ref.AuthResp{Wire: "Zm9v=", Bad: true})
		for _, v := range values {
			irs = append(irs, octets(v))
		}
		for _, ir := range irs {
			base := &ref.AuthScript{Mech: m, N: n, Chal: chal, IR: ir}
			if n == 0 || ir.Bad {
				addScript(base)
				continue
			}
			// how many responses are needed after the first line?
			need := n - 1
			if ir.Absent {
				need = n
			}
			var rec func(cur []ref.AuthResp)
			rec = func(cur []ref.AuthResp) {
				if len(cur) == need {
					a := *base
					a.Resps = append([]ref.AuthResp(nil), cur...)
					addScript(&a)
					return
				}
				// terminators
				for _, t := range []ref.AuthResp{{Wire: "*", Cancel: true}, {Wire: "@@@@", Bad: true}} {
					a := *base
					a.Resps = append(append([]ref.AuthResp(nil), cur...), t)
					addScript(&a)
				}
				vals := values
				if len(cur) < need-1 && tier == "quick" {
					vals = []string{"mid", ""}
				}
				for _, v := range vals {
					rec(append(append([]ref.AuthResp(nil), cur...), contResp(v)))
				}
			}
			rec(nil)
		}
	}
	return out
}

func c09Alphabet(pc ref.PConfig, tier string) []ref.Cmd {
	var a []ref.Cmd
	a = append(a, ref.Cmd{Name: "EHLO c1", Op: "HELLO", Verb: "EHLO", Arg: "c1.example", Steps: [][]byte{line("EHLO c1.example")}})
	a = append(a, ref.Cmd{Name: "NOOP", Op: "NOOP", Steps: [][]byte{line("NOOP")}})
	a = append(a, ref.Cmd{Name: "MAIL ok", Op: "MAIL", Arg: "ok1@a.example", Steps: [][]byte{line("MAIL FROM:<ok1@a.example>")}})
	a = append(a, ref.Cmd{Name: "RSET", Op: "RSET", Steps: [][]byte{line("RSET")}})
	a = append(a, ref.Cmd{Name: "STARTTLS", Op: "STARTTLS", Steps: [][]byte{line("STARTTLS")}})
	a = append(a, ref.Cmd{Name: "AUTH no argument", Op: "AUTH", Steps: [][]byte{line("AUTH")}})
	a = append(a, c09Scripts(tier)...)
	return a
}

// ---- client half -----------------------------------------------------------------------

type C09ClientCase struct {
	Steps     int      `json:"steps"`      // rounds of the server mechanism (1..3)
	IR        bool     `json:"ir"`         // client sends an initial response
	Resps     []string `json:"resps"`      // the client's responses, in order (first is the IR if IR)
	Chal      string   `json:"chal"`       // server challenges: text | empty | binary
	ClientErr int      `json:"client_err"` // the client mechanism's k-th call to Next fails (k>=1); 0: never; -1: Start fails
	EmptyIR   bool     `json:"empty_ir"`   // IR is the empty, non-nil value
}

type scriptClient struct {
	c          *C09ClientCase
	challenges [][]byte
	i          int
}

var errMech = errors.New("client mechanism gave up")

func (s *scriptClient) Start() (string, []byte, error) {
	if s.c.ClientErr == -1 {
		return "", nil, errMech
	}
	mech := map[int]string{1: "ONE", 2: "TWO", 3: "THREE"}[s.c.Steps]
	if s.c.Chal == "empty" {
		mech = "EMPTYCHAL"
	} else if s.c.Chal == "binary" {
		mech = "BINCHAL"
	}
	if !s.c.IR {
		return mech, nil, nil
	}
	s.i = 1
	return mech, []byte(s.c.Resps[0]), nil
}

func (s *scriptClient) Next(ch []byte) ([]byte, error) {
	s.challenges = append(s.challenges, append([]byte{}, ch...))
	if s.c.ClientErr > 0 && len(s.challenges) == s.c.ClientErr {
		return nil, errMech // the k-th call to Next fails
	}
	if s.i >= len(s.c.Resps) {
		return []byte("unexpected-extra"), nil
	}
	r := []byte(s.c.Resps[s.i])
	s.i++
	return r, nil
}

func boolInt(b bool) int {
	if b {
		return 1
	}
	return 0
}

var _ sasl.Client = (*scriptClient)(nil)

func evalC09Client(c C09ClientCase) *h.Finding {
	var f *h.Finding
	desc := fmt.Sprintf("%+v", c)
	cfg := h.Config{AllowInsecureAuth: true}
	be := &h.Backend{Auth: true, Mechs: saslMechs, NewSASL: newSASL}
	sc := &scriptClient{c: &c}
	steps := c.Steps
	if c.Chal != "text" {
		steps = 2
	}
	a := &ref.AuthScript{N: steps, Chal: c.Chal}
	var authErr error
	var noopErr, secondErr error
	leak, pan := h.Bubble(func() {
		h.WithRealServer(cfg, be, false, func(cs *h.CS) {
			cl := cs.Client
			if err := cl.Hello("c.example"); err != nil {
				f = h.F("c09-harness", "%s: Hello: %v", desc, err)
				return
			}
			h.Wait()
			before := len(cs.ToServer())
			authErr = cl.Auth(sc)
			h.Wait()
			wrote := cs.ToServer()[before:]
			if c.ClientErr == -1 {
				if authErr == nil || len(wrote) != 0 {
					f = h.F("c09-start-error", "%s: Start failed but Auth returned %v and wrote %q", desc, authErr, wrote)
				}
				return
			}
			if c.ClientErr > 0 && len(sc.challenges) >= c.ClientErr {
				if !bytes.HasSuffix(wrote, []byte("*\r\n")) {
					f = h.F("c09-no-cancel", "%s: the client mechanism failed but the exchange was not cancelled with '*': wrote %q", desc, wrote)
					return
				}
			}
			noopErr = cl.Noop()
			// is the session authenticated? a second successful attempt must be possible iff not
			c2 := C09ClientCase{Steps: 1, IR: true, Resps: []string{"good"}, Chal: "text"}
			secondErr = cl.Auth(&scriptClient{c: &c2})
		})
	})
	if f != nil {
		return f
	}
	if pan != "" {
		return h.F("c09-harness-panic", "%s: %s", desc, pan)
	}
	if leak != "" {
		return h.F("c09-deadlock", "%s: client and server are stuck: %.200s", desc, leak)
	}
	if c.ClientErr == -1 {
		return nil
	}
	// what the server's mechanism received
	var nexts []string
	for _, e := range be.Trace() {
		if e.Kind == "Next" {
			nexts = append(nexts, e.Arg)
		}
	}
	// expected: responses the client actually gave before it failed / the exchange ended
	var wantNext []string
	if !c.IR {
		wantNext = append(wantNext, "nil")
	}
	given := len(c.Resps)
	if c.ClientErr > 0 {
		given = boolInt(c.IR) + c.ClientErr - 1
		if given > len(c.Resps) {
			given = len(c.Resps)
		}
	}
	i := 0
	success := false
	ended := false
	for k := 0; k < given && !ended; k++ {
		wantNext = append(wantNext, fmt.Sprintf("%q", c.Resps[k]))
		i++
		if i >= steps {
			ended = true
			success = c.Resps[k] == "good"
		}
	}
	// second attempt's Next
	wantSecond := !success
	if wantSecond {
		wantNext = append(wantNext, `"good"`)
	}
	if strings.Join(nexts, " ") != strings.Join(wantNext, " ") {
		return h.F("c09-server-saw-other-octets", "%s: the server mechanism received %v, the client mechanism gave %v", desc, nexts, wantNext)
	}
	// what the client's mechanism received
	nChal := len(sc.challenges)
	for k, ch := range sc.challenges {
		if !bytes.Equal(ch, a.Challenge(k+boolInt(c.IR))) && !bytes.Equal(ch, a.Challenge(k)) {
			return h.F("c09-client-saw-other-octets", "%s: challenge %d arrived as %q", desc, k, ch)
		}
	}
	_ = nChal
	switch {
	case c.ClientErr > 0 && !ended:
		if authErr == nil {
			return h.F("c09-client-error-lost", "%s: the client mechanism failed but Auth returned nil", desc)
		}
	case success:
		if authErr != nil {
			return h.F("c09-result", "%s: the server accepted (235) but Auth returned %v", desc, authErr)
		}
	default:
		se, ok := authErr.(*smtp.SMTPError)
		if !ok || se.Code != 535 {
			return h.F("c09-result", "%s: the server refused with 535 but Auth returned %v", desc, authErr)
		}
	}
	if noopErr != nil {
		return h.F("c09-unusable-after-auth", "%s: Noop after the exchange failed: %v", desc, noopErr)
	}
	if success {
		se, ok := secondErr.(*smtp.SMTPError)
		if !ok || se.Code != 503 {
			return h.F("c09-second-auth", "%s: a second AUTH after success returned %v, want 503", desc, secondErr)
		}
	} else if secondErr != nil {
		return h.F("c09-still-unauthenticated", "%s: after the failed/cancelled exchange a fresh AUTH returned %v", desc, secondErr)
	}
	return nil
}

func init() { h.RegisterReplayer("c09-client", evalC09Client) }

func C09(tier string) int {
	run := h.NewRun("C09", tier, "model_checking", "", 25*time.Minute)
	var cfgs []ref.PConfig
	for _, tls := range []string{"none", "available", "implicit"} {
		for _, ins := range []bool{false, true} {
			for _, abe := range []bool{true, false} {
				cfgs = append(cfgs, ref.PConfig{TLSAvail: tls == "available", ImplicitTLS: tls == "implicit", AllowInsecureAuth: ins, AuthBackend: abe})
			}
		}
	}
	nScripts := len(c09Scripts(tier))
	run.Rule = fmt.Sprintf("SERVER HALF: explicit-state BFS to a fixpoint (engine of C03) over the alphabet {EHLO, NOOP, MAIL, RSET, STARTTLS, AUTH without argument, %d scripted AUTH exchanges} x 12 configurations (TLS {plaintext, STARTTLS available, implicit TLS} x AllowInsecureAuth x backend {AuthSession, plain}). AUTH exchanges: mechanisms of 1..3 rounds (+ empty/binary challenges, lower-case name, unknown mechanism) x initial response {absent, values, '=', bad base64} x per later round {values, '*', bad base64}; values in {good, bad, empty, NUL, 0xFF 0xFE, 57+ octets}. A recording sasl.Server logs every Next argument (nil vs empty distinguished); each transition is compared with the reference model: not permitted => 5xx and ZERO octets to the mechanism, needs greeting, second success impossible (503), STARTTLS erases it, failed/malformed/cancelled => unauthenticated and in command mode, 334 carries exactly the challenge, mechanism input == base64-decoding of what was sent. ALL PAIRS of AUTH exchanges behind one EHLO, without deduplication by state, each judged against the model. FAILED HANDSHAKE: STARTTLS answered 220, then the client sends octets that are not a TLS handshake (5 kinds: text, a command, a broken handshake record, an alert, an SSLv2-style header) x AllowInsecureAuth x greeted/not (and, with AllowInsecureAuth, authenticated before: still the same authenticated session, a second AUTH gets 503): the connection is still plaintext - AUTH not advertised nor accepted, zero octets to the mechanism, no TLS state visible to NewSession, STARTTLS still offered. CLIENT HALF: scripted sasl.Client x server mechanisms of 1..3 rounds x challenge kinds x responses x {success, server failure, client error at round k, Start error}, real client <-> real server: both sides log exactly the other's octets; client error => '*' sent, connection usable, still unauthenticated (a fresh AUTH succeeds); result == server's final reply; after success a second Auth gets 503.", nScripts)
	run.Assumptions = []string{"the insecure-AUTH reply code (523) is not fixed by the statement: any 5xx is accepted", "bad base64 may be answered 4xx or 5xx"}
	for _, pc := range cfgs {
		alpha := c09Alphabet(pc, tier)
		st := exploreProtocol(run, "c09", pc, alpha, 0, nil, func(hist []int, r *histResult) {
			run.Eval(true)
			last := alpha[hist[len(hist)-1]]
			run.Outcome(last.Op + ":" + replyCodes(r.Steps[len(r.Steps)-1].Replies))
			// insecure => never a single octet to the mechanism
			if !ref.AuthPermitted(pc, r.Model) && !r.Model.TLS {
				for _, s := range r.Steps {
					for _, e := range s.Events {
						if e.Kind == "Next" || e.Kind == "Auth" {
							run.Violate("bfs", bfsCase{PC: pc, Hist: hist, Names: histNames(alpha, hist), Prefix: "c09"}, h.F("c09-insecure-octets", "history [%s]: AUTH is not permitted on this connection but the backend saw %s(%s)", histNames(alpha, hist), e.Kind, e.Arg), nil)
						}
					}
				}
			}
		})
		run.State(int64(st.States))
		fmt.Printf("  config %+v: states=%d transitions=%d depth=%d\n", pc, st.States, st.Transitions, st.MaxDepth)
	}
	// ALL PAIRS of AUTH exchanges on one greeted connection (no deduplication by state: whatever the first exchange -
	// refused mechanism, bad base64, cancelled, failed, successful - leaves behind, in a field the state key may not
	// show, meets every second exchange), each history judged against the model like any other
	{
		pc := ref.PConfig{AllowInsecureAuth: true, AuthBackend: true}
		alpha := c09Alphabet(pc, tier)
		var auths []int
		ehlo := -1
		for i, a := range alpha {
			if a.Op == "AUTH" {
				auths = append(auths, i)
			}
			if a.Op == "HELLO" && ehlo < 0 {
				ehlo = i
			}
		}
		h.ParallelFor(len(auths)*len(auths), func(k int) {
			if run.Expired() {
				return
			}
			hist := []int{ehlo, auths[k/len(auths)], auths[k%len(auths)]}
			r := runLockstep("c09", pc, alpha, hist)
			run.Eval(true)
			run.Trace(1)
			if r.Finding != nil {
				c := bfsCase{PC: pc, Hist: hist, Names: histNames(alpha, hist), Prefix: "c09", Tier: run.Tier}
				run.Violate("bfs", c, r.Finding, func() *h.Finding { return replayBFS(c) })
				run.Outcome("violation:" + r.Finding.Sig)
			}
		})
		run.Counter("auth_exchange_pairs", int64(len(auths)*len(auths)))
	}
	c09FailedHandshakes(run)
	for _, ch := range []string{"abc", "ab", "a", "YWJj=", "-_8=", "not base64!", "YW Jj", "=", "YWJjZA", "\xff\xfe"} {
		c := C09BadChallenge{Challenge: ch}
		f := evalC09BadChallenge(c)
		run.Eval(true)
		if f != nil {
			run.Violate("c09-bad-challenge", c, f, func() *h.Finding { return evalC09BadChallenge(c) })
			run.Outcome("violation:" + f.Sig)
		}
	}
	// long responses within a raised line limit reach the mechanism intact (the C19 family, judged here for AUTH)
	for _, lim := range []int{12288} {
		for _, n := range []int{1499, 1500, 3071, 3072, 3073, 4500, 8000} {
			for _, ini := range []bool{true, false} {
				c := C19LongAuthCase{Limit: lim, Len: n, Initial: ini}
				f := evalC19LongAuth(c)
				run.Eval(true)
				if f != nil {
					f.Sig = "c09-server-saw-other-octets"
					run.Violate("c19-long-auth", c, f, func() *h.Finding {
						g := evalC19LongAuth(c)
						if g != nil {
							g.Sig = "c09-server-saw-other-octets"
						}
						return g
					})
					run.Outcome("violation:" + f.Sig)
				}
			}
		}
	}
	// client half
	var cases []C09ClientCase
	vals := c09Values
	for _, chal := range []string{"text", "empty", "binary"} {
		for steps := 1; steps <= 3; steps++ {
			if chal != "text" && steps != 2 {
				continue
			}
			for _, ir := range []bool{false, true} {
				var rec func(cur []string)
				rec = func(cur []string) {
					if len(cur) == steps {
						for ce := 0; ce <= steps; ce++ {
							cases = append(cases, C09ClientCase{Steps: steps, IR: ir, Resps: append([]string(nil), cur...), Chal: chal, ClientErr: ce})
						}
						return
					}
					vs := vals
					if len(cur) < steps-1 {
						vs = []string{"mid", "", "\x00\xff"}
					}
					for _, v := range vs {
						rec(append(append([]string(nil), cur...), v))
					}
				}
				rec(nil)
			}
		}
	}
	cases = append(cases, C09ClientCase{Steps: 1, Chal: "text", ClientErr: -1, Resps: []string{"good"}})
	h.ParallelFor(len(cases), func(i int) {
		c := cases[i]
		f := evalC09Client(c)
		run.Eval(true)
		run.Transition(1)
		run.Trace(1)
		if f != nil {
			run.Violate("c09-client", c, f, func() *h.Finding { return evalC09Client(c) })
			run.Outcome("violation:" + f.Sig)
		} else {
			run.Outcome(fmt.Sprintf("client steps=%d err=%d", c.Steps, c.ClientErr))
		}
		if i%97 == 3 {
			run.Sample("client-exchange", 4, c)
		}
	})
	return run.Finish()
}

// ---- a challenge that is not proper base64 (client half, scripted server) ----------------------------------------------

type C09BadChallenge struct {
	Challenge string `json:"challenge"` // what follows "334 "
}

// evalC09BadChallenge: the client cannot decode the challenge: it cancels the exchange with "*", reports an error, and
// the connection stays usable (the next command is answered as itself).
func evalC09BadChallenge(c C09BadChallenge) *h.Finding {
	var f *h.Finding
	desc := fmt.Sprintf("the server's challenge is %q", c.Challenge)
	var lines []string
	inAuth := false
	script := func(line string, n int) []byte {
		up := strings.ToUpper(line)
		switch {
		case inAuth:
			inAuth = false
			if line == "*" {
				return []byte("501 5.0.0 cancelled\r\n")
			}
			return []byte("235 2.7.0 whatever you say\r\n")
		case strings.HasPrefix(up, "EHLO"):
			return []byte("250-fake.example\r\n250 AUTH TWO\r\n")
		case strings.HasPrefix(up, "AUTH"):
			inAuth = true
			return []byte("334 " + c.Challenge + "\r\n")
		case strings.HasPrefix(up, "QUIT"):
			return []byte("221 2.0.0 bye\r\n")
		}
		return []byte("250 2.0.0 ok\r\n")
	}
	leak, pan := h.Bubble(func() {
		h.WithScriptedServer("220 fake.example ESMTP\r\n", script, false, func(cs *h.CS) {
			cl := cs.Client
			sc := C09ClientCase{}
			_ = sc
			err := cl.Auth(&twoStepClient{})
			if err == nil {
				f = h.F("c09-no-cancel", "%s: Auth returned nil although the challenge cannot be decoded", desc)
				return
			}
			if nerr := cl.Noop(); nerr != nil {
				f = h.F("c09-unusable-after-auth", "%s: after the failed exchange (Auth returned %v) a Noop returned %v", desc, err, nerr)
			}
		}, &lines)
	})
	if f != nil {
		return f
	}
	if pan != "" {
		return h.F("c09-harness-panic", "%s: %s", desc, pan)
	}
	if leak != "" {
		return h.F("c09-goroutine-leak", "%s: %.200s", desc, leak)
	}
	// the lines the server saw: EHLO, AUTH TWO, *, NOOP
	sawCancel := false
	for i, l := range lines {
		if strings.HasPrefix(strings.ToUpper(l), "AUTH") && i+1 < len(lines) && strings.TrimRight(lines[i+1], "\r\n") == "*" {
			sawCancel = true
		}
	}
	if !sawCancel {
		return h.F("c09-no-cancel", "%s: the client did not cancel the exchange with '*': the server saw %q", desc, lines)
	}
	return nil
}

// twoStepClient: no initial response, answers any challenge with "good".
type twoStepClient struct{}

func (*twoStepClient) Start() (string, []byte, error) { return "TWO", nil, nil }
func (*twoStepClient) Next([]byte) ([]byte, error)    { return []byte("good"), nil }

func init() { h.RegisterReplayer("c09-bad-challenge", evalC09BadChallenge) }

// ---- a STARTTLS whose handshake fails ---------------------------------------------------------------

type C09FailedHandshake struct {
	Garbage  []byte `json:"garbage"` // octets the client sends instead of a ClientHello
	Insecure bool   `json:"insecure_auth"`
	Greeted  bool   `json:"greeted"`
	// AuthedBefore: (greeted, AllowInsecureAuth) the client authenticated before it asked for STARTTLS: the failed
	// handshake changes nothing, the session is still the authenticated one and a second AUTH is refused (503)
	AuthedBefore bool `json:"authed_before,omitempty"`
}

// evalC09FailedHandshake: the client answers the 220 with octets that are not a TLS handshake. The
// connection stays plaintext; nothing that TLS would permit may become available.
func evalC09FailedHandshake(c C09FailedHandshake) *h.Finding {
	var f *h.Finding
	desc := fmt.Sprintf("STARTTLS answered with %q instead of a handshake (AllowInsecureAuth=%t)", c.Garbage, c.Insecure)
	pc := ref.PConfig{TLSAvail: true, AllowInsecureAuth: c.Insecure, AuthBackend: true}
	cfg, be := serverFor(pc)
	cfg.RequireTLS = true
	fail := func(sig, format string, a ...interface{}) {
		if f == nil {
			f = h.F(sig, desc+": "+format, a...)
		}
	}
	leak, pan := h.Bubble(func() {
		live := h.NewLive(cfg, be, false)
		live.Greeting()
		one := func(s string) ref.Reply {
			out := live.Send([]byte(s + "\r\n"))
			rs, err := ref.ParseReplies(out)
			if err != nil || len(rs) != 1 {
				fail("c09-fh-wire", "%q answered with %q (%v)", s, out, err)
				return ref.Reply{}
			}
			return rs[0]
		}
		if c.Greeted {
			one("EHLO before.example")
		}
		if c.AuthedBefore {
			if r := one("AUTH ONE Z29vZA=="); r.Code != 235 {
				fail("c09-fh-auth", "AllowInsecureAuth is set but AUTH before STARTTLS was answered %s", r.String())
				return
			}
		}
		if r := one("STARTTLS"); r.Code != 220 {
			fail("c09-fh-starttls", "STARTTLS answered %s", r.String())
			return
		}
		out := live.Send(c.Garbage) // plaintext, below any TLS layer
		// the TLS library may put an alert record on the wire before the server's plaintext reply
		for len(out) >= 5 && out[0] == 0x15 && out[1] == 0x03 {
			n := 5 + int(out[3])<<8 + int(out[4])
			if n > len(out) {
				break
			}
			out = out[n:]
		}
		if rs, err := ref.ParseReplies(out); err != nil || len(rs) == 0 || rs[0].Class() != 5 {
			fail("c09-fh-no-error-reply", "the failed handshake was answered with %q", out)
		}
		r := one("EHLO after.example")
		caps := strings.Join(r.Lines, "|")
		if !c.Insecure && strings.Contains(caps, "AUTH") {
			fail("c09-auth-advertised-insecure", "the handshake failed, the connection is plaintext, yet EHLO advertises %q", r.Lines)
		}
		if strings.Contains(caps, "REQUIRETLS") {
			fail("c09-fh-requiretls", "REQUIRETLS advertised on a plaintext connection: %q", r.Lines)
		}
		if !strings.Contains(caps, "STARTTLS") {
			fail("c09-fh-starttls-gone", "TLS is not active, yet STARTTLS is no longer offered: %q", r.Lines)
		}
		if c.AuthedBefore {
			// same connection, same session, already authenticated: no second success, no octets to a mechanism
			before := 0
			for _, e := range be.Trace() {
				if e.Kind == "Next" {
					before++
				}
			}
			ar := one("AUTH ONE Z29vZA==")
			after, sessions := 0, 0
			for _, e := range be.Trace() {
				if e.Kind == "Next" {
					after++
				}
				if e.Kind == "NewSession" {
					sessions++
				}
			}
			if ar.Code != 503 || after != before {
				fail("c09-second-success", "authenticated before the failed handshake, a second AUTH afterwards was answered %s and the mechanism received %d more responses (want 503 and none)", ar.String(), after-before)
			}
			if sessions != 1 {
				fail("c09-fh-sessions", "%d sessions were created, want 1 (a failed handshake does not start a new one)", sessions)
			}
			live.Hangup(h.TermEOF)
			return
		}
		ar := one("AUTH ONE Z29vZA==")
		nexts := 0
		tlsSessions := 0
		for _, e := range be.Trace() {
			if e.Kind == "Next" {
				nexts++
			}
			if e.Kind == "NewSession" && e.TLS {
				tlsSessions++
			}
		}
		if !c.Insecure && (ar.Class() == 2 || ar.Class() == 3 || nexts > 0) {
			fail("c09-insecure-octets", "AUTH on the still-plaintext connection was answered %s and the mechanism received %d responses", ar.String(), nexts)
		}
		if c.Insecure && ar.Code != 235 {
			fail("c09-fh-auth", "AllowInsecureAuth is set but AUTH was answered %s", ar.String())
		}
		if tlsSessions > 0 {
			fail("c09-fh-tls-state", "NewSession saw a TLS connection state although no handshake ever completed")
		}
		live.Hangup(h.TermEOF)
	})
	if f == nil && pan != "" {
		f = h.F("c09-harness-panic", "%s: %s", desc, pan)
	}
	if f == nil && leak != "" {
		f = h.F("c09-goroutine-leak", "%s: %.300s", desc, leak)
	}
	return f
}

func init() { h.RegisterReplayer("c09-failed-handshake", evalC09FailedHandshake) }

func c09FailedHandshakes(run *h.Run) {
	var cases []C09FailedHandshake
	for _, g := range [][]byte{[]byte("hello"), []byte("NOOP\r"), {0x16, 0x03, 0x01, 0x00, 0x04, 0xff, 0x00, 0x00, 0x00}, {0x15, 0x03, 0x03, 0x00, 0x02, 0x02, 0x28}, {0x80, 0x2e, 0x01, 0x00, 0x02}} {
		for _, ins := range []bool{false, true} {
			for _, gr := range []bool{true, false} {
				cases = append(cases, C09FailedHandshake{Garbage: g, Insecure: ins, Greeted: gr})
				if ins && gr {
					cases = append(cases, C09FailedHandshake{Garbage: g, Insecure: ins, Greeted: gr, AuthedBefore: true})
				}
			}
		}
	}
	h.ParallelFor(len(cases), func(i int) {
		c := cases[i]
		f := evalC09FailedHandshake(c)
		run.Eval(true)
		run.Transition(1)
		run.Trace(1)
		if f != nil {
			run.Violate("c09-failed-handshake", c, f, func() *h.Finding { return evalC09FailedHandshake(c) })
			run.Outcome("violation:" + f.Sig)
		} else {
			run.Outcome("failed-handshake-ok")
		}
	})
	run.Sample("failed-handshake", 1, cases[0])
}
