package checks

import (
	"fmt"
	"sort"
	"strings"
	"sync/atomic"
	"time"

	"verif/h"
	"verif/ref"
)

// C12: EHLO advertises exactly what the configuration enables, and honours it.

type C12Case struct {
	Cfg      h.Config `json:"cfg"`
	TLSRoute string   `json:"tls_route"` // none | available | implicit | starttls
	AuthBE   bool     `json:"auth_backend"`
}

const c12Size, c12Rcpt = 1000, 3

// refCaps: the capability lines the configuration calls for (RFC names).
func refCaps(c C12Case, tlsActive bool) []string {
	caps := []string{"PIPELINING", "8BITMIME", "ENHANCEDSTATUSCODES", "CHUNKING"}
	if (c.TLSRoute == "available" || c.TLSRoute == "starttls" || c.TLSRoute == "failed-handshake") && !tlsActive {
		caps = append(caps, "STARTTLS")
	}
	if (tlsActive || c.Cfg.AllowInsecureAuth) && c.AuthBE {
		caps = append(caps, "AUTH "+strings.Join(saslMechs, " "))
	}
	if c.Cfg.UTF8 {
		caps = append(caps, "SMTPUTF8")
	}
	if tlsActive && c.Cfg.RequireTLS {
		caps = append(caps, "REQUIRETLS")
	}
	if c.Cfg.BinaryMIME {
		caps = append(caps, "BINARYMIME")
	}
	if c.Cfg.DSN {
		caps = append(caps, "DSN")
	}
	if c.Cfg.MaxMessageBytes > 0 {
		caps = append(caps, fmt.Sprintf("SIZE %d", c.Cfg.MaxMessageBytes))
	} else {
		caps = append(caps, "SIZE")
	}
	if c.Cfg.MaxRecipients > 0 {
		caps = append(caps, fmt.Sprintf("LIMITS RCPTMAX=%d", c.Cfg.MaxRecipients))
	}
	if c.Cfg.RRVS {
		caps = append(caps, "RRVS")
	}
	sort.Strings(caps)
	return caps
}

var c12Cmds atomic.Int64

func evalC12(c C12Case) *h.Finding {
	var f *h.Finding
	desc := fmt.Sprintf("config %+v route=%s authbackend=%t", c.Cfg, c.TLSRoute, c.AuthBE)
	cfg := c.Cfg
	cfg.TLSAvailable = c.TLSRoute == "available" || c.TLSRoute == "starttls" || c.TLSRoute == "failed-handshake"
	be := &h.Backend{Auth: c.AuthBE, Mechs: saslMechs, NewSASL: newSASL}
	fail := func(sig, format string, a ...interface{}) {
		if f == nil {
			f = h.F(sig, desc+": "+format, a...)
		}
	}
	leak, pan := h.Bubble(func() {
		live := h.NewLive(cfg, be, c.TLSRoute == "implicit")
		live.Greeting()
		verb := "EHLO"
		if cfg.LMTP {
			verb = "LHLO"
		}
		send := func(s string) []ref.Reply {
			c12Cmds.Add(1)
			out := live.Send([]byte(s + "\r\n"))
			rs, err := ref.ParseReplies(out)
			if err != nil {
				fail("c12-bad-wire", "%q answered with %q: %v", s, out, err)
			}
			return rs
		}
		one := func(s string) ref.Reply {
			rs := send(s)
			if len(rs) != 1 {
				fail("c12-reply-count", "%q got %d replies", s, len(rs))
				return ref.Reply{}
			}
			return rs[0]
		}
		tlsActive := c.TLSRoute == "implicit"
		if c.TLSRoute == "starttls" {
			one(verb + " pre.example")
			if r := one("STARTTLS"); r.Code != 220 {
				fail("c12-starttls-refused", "STARTTLS is configured but was answered %s", r.String())
				return
			}
			if err := live.StartTLSHandshake(); err != nil {
				fail("c12-handshake", "handshake failed: %v", err)
				return
			}
			tlsActive = true
		}
		if c.TLSRoute == "failed-handshake" {
			// STARTTLS is answered 220, the client then sends something that is no TLS handshake: the
			// connection stays plaintext and must be advertised and treated as such
			one(verb + " pre.example")
			if r := one("STARTTLS"); r.Code != 220 {
				fail("c12-starttls-refused", "STARTTLS is configured but was answered %s", r.String())
				return
			}
			live.Send([]byte("hello"))
		}
		// HELO lists nothing
		if !cfg.LMTP {
			r := one("HELO c.example")
			if r.Code != 250 || len(r.Lines) != 1 {
				fail("c12-helo", "HELO answered with %d lines: %q", len(r.Lines), r.Lines)
			}
		}
		r := one(verb + " c.example")
		if r.Code != 250 || len(r.Lines) < 1 {
			fail("c12-ehlo", "%s answered %s", verb, r.String())
			return
		}
		got := append([]string(nil), r.Lines[1:]...)
		sort.Strings(got)
		want := refCaps(c, tlsActive)
		if strings.Join(got, "|") != strings.Join(want, "|") {
			fail("c12-capabilities", "%s lists %q, the configuration calls for %q", verb, got, want)
			return
		}
		has := func(k string) bool {
			for _, w := range want {
				if w == k || strings.HasPrefix(w, k+" ") {
					return true
				}
			}
			return false
		}
		expect := func(cmd string, accept bool, refuseCode int, what string) {
			r := one(cmd)
			if accept && r.Class() != 2 {
				fail("c12-advertised-refused", "%s is advertised/enabled but %q was answered %s", what, cmd, r.String())
			}
			if !accept && refuseCode > 0 && r.Code != refuseCode {
				fail("c12-disabled-accepted", "%s is disabled by the configuration but %q was answered %s, want %d", what, cmd, r.String(), refuseCode)
			}
			if !accept && refuseCode == 0 && r.Class() == 2 {
				fail("c12-disabled-accepted", "%s is not available but %q was answered %s", what, cmd, r.String())
			}
			one("RSET")
		}
		expect("MAIL FROM:<ok@a.example> BODY=8BITMIME", true, 0, "8BITMIME")
		expect("MAIL FROM:<ok@a.example> SMTPUTF8", cfg.UTF8, 504, "SMTPUTF8")
		if cfg.RequireTLS && !tlsActive {
			one("MAIL FROM:<ok@a.example> REQUIRETLS") // enabled but not under TLS: not judged
			one("RSET")
		} else {
			expect("MAIL FROM:<ok@a.example> REQUIRETLS", cfg.RequireTLS && tlsActive, 504, "REQUIRETLS")
		}
		// keywords are case-insensitive (RFC 5321 2.4)
		expect("MAIL FROM:<ok@a.example> smtputf8", cfg.UTF8, 504, "SMTPUTF8 (lower case)")
		if !(cfg.RequireTLS && !tlsActive) {
			expect("MAIL FROM:<ok@a.example> RequireTls", cfg.RequireTLS && tlsActive, 504, "REQUIRETLS (mixed case)")
		}
		expect("mail from:<ok@a.example> body=binarymime", cfg.BinaryMIME, 504, "BINARYMIME (lower case)")
		expect("MAIL FROM:<ok@a.example> Ret=Full", cfg.DSN, 504, "DSN (RET, mixed case)")
		expect("MAIL FROM:<ok@a.example> BODY=BINARYMIME", cfg.BinaryMIME, 504, "BINARYMIME")
		expect("MAIL FROM:<ok@a.example> RET=FULL", cfg.DSN, 504, "DSN (RET)")
		expect("MAIL FROM:<ok@a.example> ENVID=abc", cfg.DSN, 504, "DSN (ENVID)")
		expect(fmt.Sprintf("MAIL FROM:<ok@a.example> SIZE=%d", c12Size), true, 0, "SIZE within the limit")
		if cfg.MaxMessageBytes > 0 {
			r := one(fmt.Sprintf("MAIL FROM:<ok@a.example> SIZE=%d", c12Size+1))
			if r.Code != 552 {
				fail("c12-size", "SIZE above the advertised limit answered %s", r.String())
			}
			one("RSET")
		} else {
			expect(fmt.Sprintf("MAIL FROM:<ok@a.example> SIZE=%d", 1<<30), true, 0, "SIZE without limit")
			expect("MAIL FROM:<ok@a.example> SIZE=2147483647", true, 0, "SIZE without limit (2^31-1)")
			expect("MAIL FROM:<ok@a.example> SIZE=2147483648", true, 0, "SIZE without limit (2^31)")
			expect("MAIL FROM:<ok@a.example> SIZE=4294967295", true, 0, "SIZE without limit (2^32-1)")
		}
		// RCPT parameters
		one("MAIL FROM:<ok@a.example>")
		rp := func(cmd string, accept bool, what string) {
			r := one(cmd)
			if accept && r.Class() != 2 {
				fail("c12-advertised-refused", "%s is enabled but %q was answered %s", what, cmd, r.String())
			}
			if !accept && r.Code != 504 {
				fail("c12-disabled-accepted", "%s is disabled by the configuration but %q was answered %s, want 504", what, cmd, r.String())
			}
		}
		one("RSET")
		one("MAIL FROM:<ok@a.example>")
		rp("RCPT TO:<ok1@b.example> NOTIFY=SUCCESS,FAILURE", cfg.DSN, "DSN (NOTIFY)")
		one("RSET")
		one("MAIL FROM:<ok@a.example>")
		rp("RCPT TO:<ok1@b.example> ORCPT=rfc822;x@y.example", cfg.DSN, "DSN (ORCPT)")
		one("RSET")
		one("MAIL FROM:<ok@a.example>")
		rp("RCPT TO:<ok1@b.example> RRVS=2014-04-03T23:01:00Z", cfg.RRVS, "RRVS")
		one("RSET")
		one("MAIL FROM:<ok@a.example>")
		rp("RCPT TO:<ok1@b.example> RRVS=2014-04-03T23:01:00+01:00", cfg.RRVS, "RRVS (time with a positive UTC offset)")
		one("RSET")
		one("MAIL FROM:<ok@a.example>")
		rp("RCPT TO:<ok1@b.example> RRVS=2021-10-31T02:30:00+05:45;C", cfg.RRVS, "RRVS (offset +05:45, action C)")
		one("RSET")
		// recipient limit
		one("MAIL FROM:<ok@a.example>")
		for i := 1; i <= c12Rcpt+1; i++ {
			r := one(fmt.Sprintf("RCPT TO:<ok%d@b.example>", i))
			if cfg.MaxRecipients > 0 && i > cfg.MaxRecipients {
				if r.Class() == 2 {
					fail("c12-rcptmax", "recipient %d accepted although RCPTMAX=%d is advertised", i, cfg.MaxRecipients)
				}
			} else if r.Code != 250 {
				fail("c12-rcptmax", "recipient %d refused (%s) although the limit is %d", i, r.String(), cfg.MaxRecipients)
			}
		}
		// CHUNKING
		bout := live.Send([]byte("BDAT 1 LAST\r\nx"))
		rs, berr := ref.ParseReplies(bout)
		if berr != nil {
			fail("c12-bad-wire", "BDAT answered with %q: %v", bout, berr)
		}
		nrc := c12Rcpt + 1
		if cfg.MaxRecipients > 0 {
			nrc = cfg.MaxRecipients
		}
		wantN := 1
		if cfg.LMTP {
			wantN = nrc
		}
		if len(rs) != wantN {
			fail("c12-chunking", "BDAT answered with %d replies, want %d", len(rs), wantN)
		}
		for _, r := range rs {
			if r.Code != 250 {
				fail("c12-chunking", "CHUNKING is advertised but BDAT was answered %s", r.String())
			}
		}
		// what SIZE advertises holds for every message of the connection: behind a chunked message the next transaction may
		// declare the full size again
		expect(fmt.Sprintf("MAIL FROM:<ok@a.example> SIZE=%d", c12Size), true, 0, "SIZE within the limit, in the transaction behind a chunked message")
		// AUTH
		ar := one("AUTH ONE Z29vZA==")
		arBefore := ar.String()
		nexts := 0
		for _, e := range be.Trace() {
			if e.Kind == "Next" {
				nexts++
			}
		}
		if has("AUTH") {
			if ar.Code != 235 {
				fail("c12-advertised-refused", "AUTH is advertised but was answered %s", ar.String())
			}
		} else {
			if ar.Class() == 2 || ar.Class() == 3 {
				fail("c12-disabled-accepted", "AUTH is not advertised but was answered %s", ar.String())
			}
			if nexts > 0 && !(tlsActive || cfg.AllowInsecureAuth) {
				fail("c12-auth-octets", "AUTH is not permitted here but the mechanism received %d responses", nexts)
			}
		}
		// what is advertised depends on configuration, backend and TLS state - not on what happened on the connection:
		// after the AUTH attempt (successful or not) and everything before it the list is the same
		if r2 := one(verb + " again.example"); r2.Code == 250 {
			got2 := append([]string(nil), r2.Lines[1:]...)
			sort.Strings(got2)
			if strings.Join(got2, "|") != strings.Join(want, "|") {
				fail("c12-capabilities", "a second %s (after transactions and AUTH answered %s) lists %q, the configuration calls for %q", verb, ar.String(), got2, want)
			}
		} else {
			fail("c12-ehlo", "a second %s was answered %s", verb, r2.String())
		}
		// STARTTLS last (it changes the connection)
		sr := one("STARTTLS")
		if has("STARTTLS") {
			if sr.Code != 220 {
				fail("c12-advertised-refused", "STARTTLS is advertised but was answered %s", sr.String())
			} else if err := live.StartTLSHandshake(); err != nil {
				fail("c12-handshake", "handshake failed: %v", err)
			} else {
				// and now it must be gone, REQUIRETLS may appear
				r := one(verb + " again.example")
				got := append([]string(nil), r.Lines[1:]...)
				sort.Strings(got)
				want := refCaps(c, true)
				if strings.Join(got, "|") != strings.Join(want, "|") {
					fail("c12-capabilities", "after STARTTLS %s lists %q, the configuration calls for %q", verb, got, want)
				}
				// what the new list advertises is accepted - also AUTH after an AUTH in plaintext: the upgrade
				// starts a fresh, unauthenticated session
				for _, w := range want {
					if strings.HasPrefix(w, "AUTH ") {
						if ar := one("AUTH ONE Z29vZA=="); ar.Code != 235 {
							fail("c12-advertised-refused", "after STARTTLS AUTH is advertised but was answered %s (AUTH before the upgrade: %s)", ar.String(), arBefore)
						}
					}
				}
			}
		} else if sr.Class() == 2 {
			fail("c12-disabled-accepted", "STARTTLS is not advertised but was answered %s", sr.String())
		}
		live.Hangup(h.TermEOF)
	})
	if f == nil && pan != "" {
		f = h.F("c12-harness-panic", "%s: %s", desc, pan)
	}
	if f == nil && leak != "" {
		f = h.F("c12-goroutine-leak", "%s: %.300s", desc, leak)
	}
	return f
}

func init() { h.RegisterReplayer("c12", evalC12) }

// ---- two connections of one server at different TLS states, greeting at overlapping times ---------------------

type C12PairCase struct {
	FirstTLS bool     `json:"first_tls"` // the connection that is held inside AuthMechanisms is the TLS one
	Cfg      h.Config `json:"cfg"`
}

// evalC12Pair: connection A sends EHLO and is held inside the backend's AuthMechanisms callback; connection B (the
// other TLS state) completes its EHLO on the same server; then A goes on. Each reply must be that of its own state.
func evalC12Pair(c C12PairCase) *h.Finding {
	var f *h.Finding
	desc := fmt.Sprintf("two connections of one server, the %s one held inside AuthMechanisms while the other greets; config %+v", map[bool]string{true: "TLS", false: "plaintext"}[c.FirstTLS], c.Cfg)
	cfg := c.Cfg
	cfg.TLSAvailable = true
	cc := C12Case{Cfg: cfg, TLSRoute: "available", AuthBE: true}
	be := &h.Backend{Auth: true, Mechs: saslMechs, NewSASL: newSASL}
	var hold chan struct{} // made inside the bubble: only then is a goroutine waiting on it "durably blocked"
	be.Gate = func(step string) {
		if step == "cb:AuthMechanisms#1" {
			<-hold
		}
	}
	caps := func(wire []byte) ([]string, error) {
		rs, err := ref.ParseReplies(wire)
		if err != nil || len(rs) != 1 || rs[0].Code != 250 {
			return nil, fmt.Errorf("EHLO answered with %q (%v)", wire, err)
		}
		got := append([]string(nil), rs[0].Lines[1:]...)
		sort.Strings(got)
		return got, nil
	}
	leak, pan := h.Bubble(func() {
		defer h.GuardEnter(desc)()
		hold = make(chan struct{})
		a := h.NewLive(cfg, be, c.FirstTLS)
		a.Greeting()
		if out := a.Send([]byte("EHLO a.example\r\n")); len(out) != 0 {
			f = h.F("c12-pair-harness", "%s: the first connection was not held: %q", desc, out)
			close(hold)
			return
		}
		b := h.NewLiveOn(a.Srv, cfg, be, !c.FirstTLS)
		b.Greeting()
		gotB, errB := caps(b.Send([]byte("EHLO b.example\r\n")))
		close(hold)
		gotA, errA := caps(a.Send())
		if errA != nil || errB != nil {
			f = h.F("c12-ehlo", "%s: %v / %v", desc, errA, errB)
		} else {
			wantA, wantB := refCaps(cc, c.FirstTLS), refCaps(cc, !c.FirstTLS)
			if strings.Join(gotA, "|") != strings.Join(wantA, "|") {
				f = h.F("c12-capabilities", "%s: the held connection lists %q, its state calls for %q", desc, gotA, wantA)
			} else if strings.Join(gotB, "|") != strings.Join(wantB, "|") {
				f = h.F("c12-capabilities", "%s: the other connection lists %q, its state calls for %q", desc, gotB, wantB)
			}
		}
		a.Hangup(h.TermEOF)
		b.Hangup(h.TermEOF)
	})
	if f == nil && pan != "" {
		f = h.F("c12-harness-panic", "%s: %s", desc, pan)
	}
	if f == nil && leak != "" {
		f = h.F("c12-goroutine-leak", "%s: %.300s", desc, leak)
	}
	return f
}

func init() { h.RegisterReplayer("c12-pair", evalC12Pair) }

func C12(tier string) int {
	run := h.NewRun("C12", tier, "model_checking", "", 25*time.Minute)
	var cases []C12Case
	for flags := 0; flags < 32; flags++ {
		for _, size := range []int64{0, c12Size} {
			for _, rc := range []int{0, c12Rcpt} {
				for _, route := range []string{"none", "available", "implicit", "starttls", "failed-handshake"} {
					for _, ins := range []bool{false, true} {
						for _, abe := range []bool{false, true} {
							for _, lmtp := range []bool{false, true} {
								cases = append(cases, C12Case{Cfg: h.Config{LMTP: lmtp, MaxRecipients: rc, MaxMessageBytes: size, AllowInsecureAuth: ins,
									UTF8: flags&1 != 0, RequireTLS: flags&2 != 0, BinaryMIME: flags&4 != 0, DSN: flags&8 != 0, RRVS: flags&16 != 0}, TLSRoute: route, AuthBE: abe})
							}
						}
					}
				}
			}
		}
	}
	run.Rule = fmt.Sprintf("the COMPLETE configuration space: 5 extension flags x size limit {0,%d} x recipient limit {0,%d} x TLS {none, available, active via implicit TLS, active via STARTTLS, available but the handshake after STARTTLS failed (still plaintext)} x AllowInsecureAuth x backend {auth-capable, plain} x {SMTP, LMTP} = %d configurations (the statement's 3072 plus the second route to TLS-active and the failed-handshake route). Each is one lock-step conversation with the real server (real TLS handshakes, in a synctest bubble): HELO, EHLO/LHLO keyword set compared with an independent capability function, then one probe per extension (8BITMIME, SMTPUTF8, REQUIRETLS, BINARYMIME, RET, ENVID, SIZE within/above, NOTIFY, ORCPT, RRVS, recipients up to limit+1, BDAT, SIZE once more behind the chunked message, AUTH, STARTTLS and the capability list after it). Plus 12 pairs of connections of ONE server in different TLS states, one held inside the backend's AuthMechanisms callback while the other completes its EHLO: each reply is that of its own connection. states = configurations; transitions = commands sent. Non-trivial: all.", c12Size, c12Rcpt, len(cases))
	run.Assumptions = []string{"REQUIRETLS enabled by configuration but probed outside TLS (not advertised there) is not judged: the statement fixes only 'advertised => accepted' and 'disabled by configuration => 504'"}
	h.ParallelFor(len(cases), func(i int) {
		if run.Expired() {
			return
		}
		c := cases[i]
		f := evalC12(c)
		run.Eval(true)
		run.State(1)
		run.Trace(1)
		if f != nil {
			run.Violate("c12", c, f, func() *h.Finding { return evalC12(c) })
			run.Outcome("violation:" + f.Sig)
		} else {
			run.Outcome(strings.Join(refCaps(c, c.TLSRoute == "implicit" || c.TLSRoute == "starttls"), ","))
		}
		if i%997 == 3 {
			run.Sample("config", 5, c)
		}
	})
	// two connections of one server in different TLS states whose EHLO handling overlaps
	var pcases []C12PairCase
	for _, first := range []bool{false, true} {
		for mask := 0; mask < 8; mask++ {
			if !first && mask&1 == 0 {
				continue // AUTH is not permitted on that plaintext connection: AuthMechanisms is not consulted, nothing to hold
			}
			pcases = append(pcases, C12PairCase{FirstTLS: first, Cfg: h.Config{AllowInsecureAuth: mask&1 != 0, RequireTLS: mask&2 != 0, UTF8: mask&4 != 0, DSN: true, MaxMessageBytes: int64(mask) * 100}})
		}
	}
	h.ParallelFor(len(pcases), func(i int) {
		f := evalC12Pair(pcases[i])
		run.Eval(true)
		if f != nil {
			run.Violate("c12-pair", pcases[i], f, func() *h.Finding { return evalC12Pair(pcases[i]) })
			run.Outcome("violation:" + f.Sig)
		}
	})
	run.Transition(c12Cmds.Load())
	return run.Finish()
}
