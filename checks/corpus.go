package checks

import (
	"bytes"
	"fmt"
	"strings"

	"verif/ref"
)

// A Conv is a scripted conversation with what the oracles need to know
// about it.
type Conv struct {
	Name  string `json:"name"`
	Mode  string `json:"mode"`
	Limit int64  `json:"limit,omitempty"`
	In    []byte `json:"in"`
	// Message transfers in the conversation, in order.
	Msgs []ConvMsg `json:"msgs"`
	// CmdEnds are the offsets just behind each complete command line / payload unit.
	CmdEnds []int `json:"cmd_ends"`
	// Lines are the [start, end) regions of the command LINES (end just behind the CRLF; message text and chunk payloads
	// are not in any region).
	Lines [][2]int `json:"lines,omitempty"`
}

// midLine reports whether offset cut lies strictly inside a command line, and where that line starts.
func (c *Conv) midLine(cut int) (start int, ok bool) {
	for _, l := range c.Lines {
		if l[0] < cut && cut < l[1] {
			return l[0], true
		}
	}
	return 0, false
}

type ConvMsg struct {
	Start    int    `json:"start"`    // offset of the DATA / first BDAT command
	Complete int    `json:"complete"` // the message is complete once In[:Complete] has arrived
	Fuzzy    int    `json:"fuzzy"`    // cuts in [Fuzzy, Complete) are not judged (terminator of a final "BDAT 0 LAST" line)
	Body     []byte `json:"body"`     // what the backend must see if it is complete
	Prefix   int    `json:"prefix"`   // number of replies on the wire before this message's final reply, if everything before went well
	Abandon  bool   `json:"abandon"`  // the client abandons this transfer (never completes it)
	// FinalFrom: a reply in the final-reply position answers the command that ends the message only if at least this many octets arrived
	// (BDAT: the LAST token has arrived; before that the position is held by the reply to an ordinary chunk).
	FinalFrom int `json:"final_from"`
}

type convBuilder struct {
	c       Conv
	replies int
}

func newConv(name, mode string, limit int64) *convBuilder {
	b := &convBuilder{c: Conv{Name: name, Mode: mode, Limit: limit}}
	b.replies = 1 // greeting
	b.cmd(strings.TrimSuffix(hello(mode), "\r\n"))
	return b
}

func (b *convBuilder) cmd(s string) *convBuilder {
	b.c.Lines = append(b.c.Lines, [2]int{len(b.c.In), len(b.c.In) + len(s) + 2})
	b.c.In = append(b.c.In, s...)
	b.c.In = append(b.c.In, '\r', '\n')
	b.c.CmdEnds = append(b.c.CmdEnds, len(b.c.In))
	b.replies++
	return b
}

func (b *convBuilder) envelope() *convBuilder {
	return b.cmd("MAIL FROM:<ok@a.example>").cmd("RCPT TO:<ok@b.example>")
}

// data adds DATA + the wire form of a message (wire must contain the end marker).
func (b *convBuilder) data(wire []byte) *convBuilder {
	start := len(b.c.In)
	b.cmd("DATA") // 354
	body, rest, ok := ref.Unstuff(wire)
	if !ok {
		panic("corpus: wire without end marker")
	}
	complete := len(b.c.In) + len(wire) - len(rest)
	b.c.Msgs = append(b.c.Msgs, ConvMsg{Start: start, Complete: complete, Fuzzy: complete, Body: body, Prefix: b.replies})
	b.c.In = append(b.c.In, wire[:len(wire)-len(rest)]...)
	b.c.CmdEnds = append(b.c.CmdEnds, len(b.c.In))
	b.replies++ // final reply (one recipient)
	// whatever follows the marker is command text
	for _, l := range bytes.SplitAfter(rest, []byte("\r\n")) {
		if len(l) > 0 {
			b.cmd(strings.TrimSuffix(string(l), "\r\n"))
		}
	}
	return b
}

// bdat adds a chunked transfer; the last chunk carries LAST unless abandon.
func (b *convBuilder) bdat(chunks [][]byte, abandon bool) *convBuilder {
	start := len(b.c.In)
	var body []byte
	m := ConvMsg{Start: start, Abandon: abandon}
	for i, ch := range chunks {
		last := i == len(chunks)-1 && !abandon
		lineStart := len(b.c.In)
		if last {
			m.Prefix = b.replies
			b.c.In = append(b.c.In, fmt.Sprintf("BDAT %d LAST", len(ch))...)
			m.Fuzzy = len(b.c.In)
			m.FinalFrom = len(b.c.In)
			b.c.In = append(b.c.In, '\r', '\n')
		} else {
			b.c.In = append(b.c.In, fmt.Sprintf("BDAT %d\r\n", len(ch))...)
		}
		b.c.Lines = append(b.c.Lines, [2]int{lineStart, len(b.c.In)})
		b.c.In = append(b.c.In, ch...)
		b.c.CmdEnds = append(b.c.CmdEnds, len(b.c.In))
		b.replies++
		body = append(body, ch...)
		if last {
			m.Complete = len(b.c.In)
			if len(ch) > 0 {
				m.Fuzzy = m.Complete
			}
		}
	}
	if abandon {
		m.Complete = 1 << 30
		m.Fuzzy = m.Complete
		m.Prefix = -1
	}
	m.Body = body
	b.c.Msgs = append(b.c.Msgs, m)
	return b
}

// raw appends octets that are answered with n replies (a command with its payload).
func (b *convBuilder) raw(s string, n int) *convBuilder {
	if i := strings.Index(s, "\r\n"); i >= 0 {
		b.c.Lines = append(b.c.Lines, [2]int{len(b.c.In), len(b.c.In) + i + 2})
	}
	b.c.In = append(b.c.In, s...)
	b.c.CmdEnds = append(b.c.CmdEnds, len(b.c.In))
	b.replies += n
	return b
}

func (b *convBuilder) done() Conv { return b.c }

var corpusModes = []string{"smtp", "lmtp", "lmtp-rcpt"}

// TransferCorpus is the corpus of DATA and BDAT conversations shared by C07
// and C08.
func TransferCorpus() []Conv {
	var out []Conv
	bodies := []struct {
		name string
		wire string
	}{
		{"plain", "Subject: hi\r\n\r\nhello\r\n.\r\n"},
		{"dots", "..leading dot\r\n.\r.\n...\r\n\n.\n\r\n.\r\n"},
		{"lookalikes", "a\n.\nb\r\n.\nc\n.\r\nd\r.\re\r\n.\r\n"},
		{"empty", ".\r\n"},
		{"crcrlf", "x\r\r\n.\r\n"},
		// lines that would be the end marker if some octet were ignored: NUL, 0x80, 0xFF, DEL next to the dot
		{"lookalikes-binary", "a\r\n.\x00\r\n\x00.\r\n.\x00\x00\r\n.\xff\r\n.\x80\r\n.\x7f\r\nb\r\n.\r\n"},
	}
	for _, mode := range corpusModes {
		for _, bd := range bodies {
			out = append(out, newConv("data-"+bd.name, mode, 0).envelope().data([]byte(bd.wire)).cmd("NOOP").cmd("QUIT").done())
		}
		// size limit: within / over
		out = append(out, newConv("data-limit-within", mode, 40).envelope().data([]byte("0123456789\r\n0123456789\r\n.\r\n")).cmd("NOOP").done())
		// a message that fits the size limit exactly
		out = append(out, newConv("data-limit-exact", mode, 24).envelope().data([]byte("0123456789\r\n0123456789\r\n.\r\n")).cmd("NOOP").done())
		out = append(out, newConv("data-limit-exact-dots", mode, 9).envelope().data([]byte("..a\r\n..bc\r\n.\r\n")).cmd("NOOP").done())
		// a LAST chunk whose declared size is at the top of the 64-bit range (after an ordinary chunk, and as the only chunk)
		out = append(out, newConv("bdat-huge-last", mode, 0).envelope().bdat([][]byte{[]byte("first part")}, true).raw("BDAT 18446744073709551615 LAST\r\n", 1).cmd("NOOP").done())
		out = append(out, newConv("bdat-2^63-last", mode, 1000).envelope().bdat([][]byte{[]byte("first part")}, true).raw("BDAT 9223372036854775808 LAST\r\n", 1).cmd("NOOP").done())
		out = append(out, newConv("data-two-messages", mode, 0).envelope().data([]byte("one\r\n.\r\n")).envelope().data([]byte("two\r\n..\r\n.\r\n")).cmd("QUIT").done())
		bin := []byte("\r\n.\r\nQUIT\r\n\x00\xff")
		out = append(out, newConv("bdat-1", mode, 0).envelope().bdat([][]byte{bin}, false).cmd("NOOP").cmd("QUIT").done())
		out = append(out, newConv("bdat-2", mode, 0).envelope().bdat([][]byte{[]byte("first chunk\r\n"), bin}, false).cmd("NOOP").done())
		out = append(out, newConv("bdat-3-lastempty", mode, 0).envelope().bdat([][]byte{[]byte("abc"), []byte("defg\r\n"), nil}, false).cmd("NOOP").done())
		out = append(out, newConv("bdat-emptyfirst", mode, 0).envelope().bdat([][]byte{nil, []byte("xyz")}, false).cmd("QUIT").done())
		out = append(out, newConv("bdat-limit", mode, 30).envelope().bdat([][]byte{[]byte("0123456789"), []byte("0123456789")}, false).cmd("NOOP").done())
		// a chunk refused for the size limit in the middle of a transfer, and a pipelining client that
		// sends the LAST chunk anyway: the message can never be complete
		out = append(out, newConv("bdat-overlimit-middle-then-last", mode, 30).envelope().bdat([][]byte{[]byte("0123456789")}, true).
			raw("BDAT 40\r\n"+strings.Repeat("y", 40), 1).raw("BDAT 5 LAST\r\nzzzzz", 1).cmd("NOOP").done())
		out = append(out, newConv("bdat-overlimit-middle-then-empty-last", mode, 30).envelope().bdat([][]byte{[]byte("0123456789")}, true).
			raw("BDAT 40\r\n"+strings.Repeat("y", 40), 1).raw("BDAT 0 LAST\r\n", 1).cmd("QUIT").done())
		// chunks that are refused for a missing envelope / a bad LAST token; their payload looks like commands and must be
		// skipped whatever happens while it arrives
		out = append(out, newConv("bdat-refused-no-envelope", mode, 0).raw("BDAT 40\r\nMAIL FROM:<bait@x.example>\r\nNOOP\r\nNOOP\r\n", 1).cmd("NOOP").cmd("QUIT").done())
		out = append(out, newConv("bdat-refused-bad-last", mode, 0).envelope().raw("BDAT 26 LAS\r\nRSET\r\nNOOP\r\nNOOP\r\nVRFY x\r\n", 1).cmd("NOOP").cmd("QUIT").done())
		// "BDAT <size that does not parse> LAST" is refused; the chunk behind it is an ordinary chunk, not the last one
		out = append(out, newConv("bdat-malformed-last-then-chunk", mode, 0).envelope().raw("BDAT 5x LAST\r\n", 1).bdat([][]byte{[]byte("part on"), []byte("e more")}, true).cmd("NOOP").done())
		out = append(out, newConv("bdat-then-data", mode, 0).envelope().bdat([][]byte{[]byte("m1")}, false).envelope().data([]byte("m2\r\n.\r\n")).cmd("QUIT").done())
		// abandoned transfers
		for _, ab := range []string{"RSET", "QUIT", strings.TrimSuffix(hello(mode), "\r\n"), "NOOP", "MAIL FROM:<ok@c.example>", "DATA"} {
			out = append(out, newConv("bdat-abandon-"+strings.Fields(ab)[0], mode, 0).envelope().bdat([][]byte{[]byte("part one "), []byte("part two")}, true).cmd(ab).cmd("NOOP").done())
		}
	}
	return out
}
