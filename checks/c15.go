package checks

import (
	"bytes"
	"fmt"
	"net"
	"strings"
	"sync/atomic"
	"time"

	"github.com/emersion/go-sasl"
	smtp "github.com/emersion/go-smtp"
	"verif/h"
)

// C15: the client writes one command line per call and only negotiated parameters.

var c15Exts = []string{"8BITMIME", "SIZE", "REQUIRETLS", "SMTPUTF8", "DSN", "AUTH PLAIN", "RRVS"}

func ehloReply(mask int) []byte {
	var lines []string
	lines = append(lines, "fake.example greets you")
	for i, e := range c15Exts {
		if mask&(1<<i) != 0 {
			lines = append(lines, e)
		}
	}
	var sb strings.Builder
	for i, l := range lines {
		sep := "-"
		if i == len(lines)-1 {
			sep = " "
		}
		sb.WriteString("250" + sep + l + "\r\n")
	}
	return []byte(sb.String())
}

// fakeServer answers every command positively; EHLO number k advertises masks[k].
func fakeServer(masks []int) h.Script {
	ehlos := 0
	inData := false
	return func(line string, n int) []byte {
		if inData {
			if line == "." {
				inData = false
				return []byte("250 2.0.0 queued\r\n")
			}
			return []byte{}
		}
		verb := strings.ToUpper(strings.SplitN(line, " ", 2)[0])
		switch verb {
		case "EHLO", "LHLO":
			m := masks[len(masks)-1]
			if ehlos < len(masks) {
				m = masks[ehlos]
			}
			ehlos++
			if m < 0 {
				return []byte("502 5.5.1 EHLO not implemented\r\n") // the client falls back to HELO: no extension at all
			}
			return ehloReply(m)
		case "HELO":
			return []byte("250 hello\r\n")
		case "DATA":
			inData = true
			return []byte("354 go ahead\r\n")
		case "QUIT":
			return []byte("221 2.0.0 bye\r\n")
		case "AUTH":
			return []byte("235 2.7.0 ok\r\n")
		case "VRFY":
			return []byte("250 2.0.0 ok\r\n")
		}
		return []byte("250 2.0.0 ok\r\n")
	}
}

// oneLine checks what a single client call wrote.
func oneLine(delta []byte) string {
	if len(delta) == 0 {
		return ""
	}
	if !bytes.HasSuffix(delta, []byte("\r\n")) {
		return fmt.Sprintf("does not end in CRLF: %q", delta)
	}
	body := delta[:len(delta)-2]
	if bytes.ContainsAny(body, "\r\n") {
		return fmt.Sprintf("more than one line (or a bare CR/LF) in one call: %q", delta)
	}
	return ""
}

type C15ExtCase struct {
	Mask1, Mask2 int  `json:"-"`
	M1           int  `json:"mask1"`
	M2           int  `json:"mask2"` // advertised by the second EHLO (after Reset)
	Opts         int  `json:"opts"`  // bit mask of option fields set
	Second       bool `json:"second"`
	EmptyAuth    bool `json:"empty_auth,omitempty"` // MailOptions.Auth points to the empty string (AUTH=<>)
}

var mailParamExt = map[string]string{"BODY": "8BITMIME", "SIZE": "SIZE", "REQUIRETLS": "REQUIRETLS", "SMTPUTF8": "SMTPUTF8", "RET": "DSN", "ENVID": "DSN", "AUTH": "AUTH PLAIN",
	"NOTIFY": "DSN", "ORCPT": "DSN", "RRVS": "RRVS"}

func advertised(mask int, ext string) bool {
	if mask < 0 {
		return false
	}
	for i, e := range c15Exts {
		if e == ext {
			return mask&(1<<i) != 0
		}
	}
	return false
}

func evalC15Ext(c C15ExtCase) *h.Finding {
	var f *h.Finding
	desc := fmt.Sprintf("first EHLO advertises %s, second %s, option fields %06b, judged after the %s EHLO", maskNames(c.M1), maskNames(c.M2), c.Opts, map[bool]string{false: "first", true: "second"}[c.Second])
	auth := "id@auth.example"
	if c.EmptyAuth {
		auth = ""
	}
	mo := &smtp.MailOptions{}
	if c.Opts&1 != 0 {
		mo.Size = 1234
	}
	if c.Opts&2 != 0 {
		mo.RequireTLS = true
	}
	if c.Opts&4 != 0 {
		mo.UTF8 = true
	}
	if c.Opts&8 != 0 {
		mo.Return = smtp.DSNReturnFull
	}
	if c.Opts&16 != 0 {
		mo.EnvelopeID = "env+id"
	}
	if c.Opts&32 != 0 {
		mo.Auth = &auth
	}
	ro := &smtp.RcptOptions{}
	if c.Opts&1 != 0 {
		ro.Notify = []smtp.DSNNotify{smtp.DSNNotifySuccess}
	}
	if c.Opts&2 != 0 {
		ro.OriginalRecipientType, ro.OriginalRecipient = smtp.DSNAddressTypeRFC822, "orig@o.example"
	}
	if c.Opts&4 != 0 {
		ro.RequireRecipientValidSince = time.Date(2020, 1, 2, 3, 4, 5, 0, time.UTC)
	}
	var lines []string
	leak, pan := h.Bubble(func() {
		h.WithScriptedServer("220 fake.example ESMTP\r\n", fakeServer([]int{c.M1, c.M2}), false, func(cs *h.CS) {
			cl := cs.Client
			if err := cl.Noop(); err != nil {
				f = h.F("c15-harness", "%s: Noop: %v", desc, err)
				return
			}
			mask := c.M1
			if c.Second {
				// a transaction, Reset, and the implicit second EHLO
				cl.Mail("a@b.example", nil)
				if err := cl.Reset(); err != nil {
					f = h.F("c15-harness", "%s: Reset: %v", desc, err)
					return
				}
				if err := cl.Noop(); err != nil {
					f = h.F("c15-harness", "%s: Noop: %v", desc, err)
					return
				}
				mask = c.M2
			}
			h.Wait()
			before := len(cs.ToServer())
			err := cl.Mail("sender@a.example", mo)
			h.Wait()
			delta := cs.ToServer()[before:]
			if m := oneLine(delta); m != "" {
				f = h.F("c15-mail-lines", "%s: Mail %s", desc, m)
				return
			}
			needLocalErr := (mo.RequireTLS && !advertised(mask, "REQUIRETLS")) || (mo.UTF8 && !advertised(mask, "SMTPUTF8"))
			if needLocalErr {
				if err == nil || len(delta) != 0 {
					f = h.F("c15-silently-dropped", "%s: REQUIRETLS/SMTPUTF8 was requested but not offered; Mail returned %v and wrote %q (want a local error, nothing written)", desc, err, delta)
				}
				return
			}
			if err != nil {
				f = h.F("c15-mail-error", "%s: Mail failed: %v", desc, err)
				return
			}
			if g := checkParams(string(delta), mask); g != "" {
				f = h.F("c15-unnegotiated-parameter", "%s: Mail wrote %q: %s", desc, delta, g)
				return
			}
			// requested and offered => present
			for _, chk := range []struct {
				want bool
				kw   string
			}{{mo.Size != 0 && advertised(mask, "SIZE"), " SIZE="}, {mo.RequireTLS, " REQUIRETLS"}, {mo.UTF8, " SMTPUTF8"},
				{mo.Return != "" && advertised(mask, "DSN"), " RET="}, {mo.EnvelopeID != "" && advertised(mask, "DSN"), " ENVID="}, {mo.Auth != nil && advertised(mask, "AUTH PLAIN"), " AUTH="}} {
				if chk.want != strings.Contains(string(delta), chk.kw) {
					f = h.F("c15-parameter-presence", "%s: Mail wrote %q: parameter %q present=%t, want %t", desc, delta, chk.kw, !chk.want, chk.want)
					return
				}
			}
			if c.Opts < 8 {
				before = len(cs.ToServer())
				err = cl.Rcpt("rcpt@b.example", ro)
				h.Wait()
				delta = cs.ToServer()[before:]
				if m := oneLine(delta); m != "" {
					f = h.F("c15-rcpt-lines", "%s: Rcpt %s", desc, m)
					return
				}
				if err != nil {
					f = h.F("c15-rcpt-error", "%s: Rcpt failed: %v", desc, err)
					return
				}
				if g := checkParams(string(delta), mask); g != "" {
					f = h.F("c15-unnegotiated-parameter", "%s: Rcpt wrote %q: %s", desc, delta, g)
					return
				}
			}
		}, &lines)
	})
	if f == nil && pan != "" {
		f = h.F("c15-harness-panic", "%s: %s", desc, pan)
	}
	if f == nil && leak != "" {
		f = h.F("c15-deadlock", "%s: %.200s", desc, leak)
	}
	return f
}

func maskNames(mask int) string {
	if mask < 0 {
		return "{EHLO refused, HELO}"
	}
	var p []string
	for i, e := range c15Exts {
		if mask&(1<<i) != 0 {
			p = append(p, strings.Fields(e)[0])
		}
	}
	return "{" + strings.Join(p, ",") + "}"
}

// checkParams: every ESMTP parameter on the line belongs to an advertised extension.
func checkParams(line string, mask int) string {
	line = strings.TrimRight(line, "\r\n")
	i := strings.IndexByte(line, '>')
	if i < 0 {
		return "no path"
	}
	for _, p := range strings.Fields(line[i+1:]) {
		k, _, _ := strings.Cut(p, "=")
		ext, known := mailParamExt[strings.ToUpper(k)]
		if !known {
			return "unknown parameter " + k
		}
		if !advertised(mask, ext) {
			return fmt.Sprintf("parameter %s sent although %s is not in the most recent EHLO reply", k, ext)
		}
	}
	return ""
}

// ---- package-level SendMail: a hostile address is refused before anything is dialled ---------------------------------

func evalC15SendMail(which string) *h.Finding {
	ln, err := net.Listen("tcp", "127.0.0.1:0")
	if err != nil {
		return nil // no loopback in this sandbox: nothing to judge
	}
	defer ln.Close()
	var accepted atomic.Int32
	go func() {
		for {
			c, err := ln.Accept()
			if err != nil {
				return
			}
			accepted.Add(1)
			c.Close()
		}
	}()
	from, to := "sender@a.example", []string{"good@b.example", "second@b.example"}
	switch which {
	case "from":
		from = "sender@a.example\r\nRSET"
	case "first-rcpt":
		to[0] = "x@b.example\r\nDATA"
	case "second-rcpt":
		to[1] = "x@b.example\nRSET"
	}
	serr := smtp.SendMail(ln.Addr().String(), nil, from, to, strings.NewReader("body\r\n"))
	ln.Close()
	if serr == nil {
		return h.F("c15-cannot-fit-not-refused", "SendMail with a CR/LF in the %s returned nil", which)
	}
	if n := accepted.Load(); n != 0 {
		return h.F("c15-cannot-fit-not-refused", "SendMail with a CR/LF in the %s returned the local error %v only after it had connected to the server (%d connection(s)): a value that cannot be sent is refused with nothing written", which, serr, n)
	}
	return nil
}

func init() {
	h.RegisterReplayer("c15-sendmail", func(m map[string]string) *h.Finding { return evalC15SendMail(m["which"]) })
}

// ---- hostile strings ------------------------------------------------------------------

type C15StrCase struct {
	Arg  string `json:"arg"` // hello | verify | from | to | envid | auth | orcpt-rfc822 | orcpt-utf8 | sasl-mech
	S    string `json:"s"`
	Show string `json:"show"`
	// Fresh: the call is the first one on the client (no hello yet): a value that cannot be sent is refused before
	// anything - the greeting included - is written
	Fresh bool `json:"fresh,omitempty"`
}

type mechClient struct{ mech string }

func (m mechClient) Start() (string, []byte, error) { return m.mech, []byte("ir"), nil }
func (m mechClient) Next(ch []byte) ([]byte, error) { return nil, nil }

var _ sasl.Client = mechClient{}

func evalC15Str(c C15StrCase) *h.Finding {
	var f *h.Finding
	desc := fmt.Sprintf("argument %s = %q", c.Arg, c.S)
	var lines []string
	leak, pan := h.Bubble(func() {
		h.WithScriptedServer("220 fake.example ESMTP\r\n", fakeServer([]int{127}), false, func(cs *h.CS) {
			cl := cs.Client
			var err error
			before := 0
			if c.Arg != "hello" && !c.Fresh {
				if err := cl.Noop(); err != nil {
					f = h.F("c15-harness", "%s: Noop: %v", desc, err)
					return
				}
				if c.Arg != "from" && c.Arg != "verify" && c.Arg != "envid" && c.Arg != "auth" && c.Arg != "sasl-mech" {
					if err := cl.Mail("a@b.example", nil); err != nil {
						f = h.F("c15-harness", "%s: Mail: %v", desc, err)
						return
					}
				}
				h.Wait()
				before = len(cs.ToServer())
			}
			switch c.Arg {
			case "hello":
				err = cl.Hello(c.S)
			case "verify":
				err = cl.Verify(c.S)
			case "from":
				err = cl.Mail(c.S, nil)
			case "to":
				err = cl.Rcpt(c.S, nil)
			case "envid":
				err = cl.Mail("a@b.example", &smtp.MailOptions{EnvelopeID: c.S})
			case "auth":
				v := c.S
				err = cl.Mail("a@b.example", &smtp.MailOptions{Auth: &v})
			case "orcpt-rfc822":
				err = cl.Rcpt("r@b.example", &smtp.RcptOptions{OriginalRecipientType: smtp.DSNAddressTypeRFC822, OriginalRecipient: c.S})
			case "orcpt-utf8":
				err = cl.Rcpt("r@b.example", &smtp.RcptOptions{OriginalRecipientType: smtp.DSNAddressTypeUTF8, OriginalRecipient: c.S})
			case "sasl-mech":
				err = cl.Auth(mechClient{mech: c.S})
			case "notify":
				err = cl.Rcpt("r@b.example", &smtp.RcptOptions{Notify: []smtp.DSNNotify{smtp.DSNNotify(c.S)}})
			case "notify-kw":
				// the hostile octets around valid keywords
				err = cl.Rcpt("r@b.example", &smtp.RcptOptions{Notify: []smtp.DSNNotify{smtp.DSNNotify("SUCCESS" + c.S), smtp.DSNNotify(c.S + "FAILURE")}})
			}
			h.Wait()
			delta := cs.ToServer()[before:]
			if c.Fresh {
				if rawFresh := strings.ContainsAny(c.S, "\r\n") && (c.Arg == "verify" || c.Arg == "from"); rawFresh && (err == nil || len(delta) != 0) {
					f = h.F("c15-cannot-fit-not-refused", "%s as the first call on the client: a value with CR/LF must give a local error with NOTHING written; returned %v, wrote %q", desc, err, delta)
					return
				}
				delta = bytes.TrimPrefix(delta, []byte("EHLO localhost\r\n")) // a first call says hello first
			}
			if m := oneLine(delta); m != "" {
				f = h.F("c15-second-line", "%s: the call %s (returned %v)", desc, m, err)
				return
			}
			rawArg := c.Arg == "hello" || c.Arg == "verify" || c.Arg == "from" || c.Arg == "to"
			if rawArg && strings.ContainsAny(c.S, "\r\n") {
				// such a value cannot be sent on one line
				if err == nil || len(delta) != 0 {
					f = h.F("c15-cannot-fit-not-refused", "%s: a value with CR/LF must give a local error with nothing written; returned %v, wrote %q", desc, err, delta)
					return
				}
			}
			if err != nil && len(delta) != 0 {
				if _, isSMTP := err.(*smtp.SMTPError); !isSMTP {
					f = h.F("c15-local-error-after-write", "%s: local error %v although %q was written", desc, err, delta)
					return
				}
			}
			// the value must not come back later either: the next call (which may have to say hello
			// first) writes clean lines only
			h.Wait()
			before = len(cs.ToServer())
			nerr := cl.Noop()
			h.Wait()
			after := cs.ToServer()[before:]
			for _, l := range bytes.SplitAfter(after, []byte("\n")) {
				if len(l) == 0 {
					continue
				}
				if m := oneLine(l); m != "" {
					f = h.F("c15-second-line", "%s: a later call (Noop, returned %v) wrote %q: %s", desc, nerr, after, m)
					return
				}
			}
			if rawArg && strings.ContainsAny(c.S, "\r\n") && (nerr != nil || !bytes.HasSuffix(after, []byte("NOOP\r\n"))) {
				f = h.F("c15-poisoned-after-refusal", "%s: after the refused call a plain Noop returned %v and wrote %q", desc, nerr, after)
				return
			}
		}, &lines)
	})
	if f == nil && pan != "" {
		f = h.F("c15-harness-panic", "%s: %s", desc, pan)
	}
	if f == nil && leak != "" {
		f = h.F("c15-deadlock", "%s: %.200s", desc, leak)
	}
	if f == nil {
		// what the server saw: each received line is one of the client's commands
		for _, l := range lines {
			if !strings.HasSuffix(l, "\r\n") || strings.ContainsAny(strings.TrimSuffix(l, "\r\n"), "\r\n") {
				f = h.F("c15-second-line", "%s: the server received a line with an embedded CR/LF or a bare LF ending: %q", desc, l)
			}
		}
	}
	return f
}

func init() {
	h.RegisterReplayer("c15-ext", evalC15Ext)
	h.RegisterReplayer("c15-str", evalC15Str)
}

func C15(tier string) int {
	run := h.NewRun("C15", tier, "exploration", "", 25*time.Minute)
	strLen := 4
	if tier == "thorough" {
		strLen = 5
	}
	alpha := []byte{'\r', '\n', 0, ' ', '<', '>', 'a'}
	run.Rule = fmt.Sprintf("(a) ALL 2^7 subsets of advertised extensions %v x ALL 2^6 subsets of MailOptions fields (Auth as an identity and as the empty string) (and 2^3 of RcptOptions) against a scripted server, judged after the first EHLO and after a second EHLO (Reset) that advertises a different subset (complement and shifted subsets), and against a server that refuses EHLO so that the client falls back to HELO (before or after a normal EHLO); (b) ALL strings of <=%d octets over {CR,LF,NUL,SP,'<','>','a'} in every string-typed argument (Hello, Verify, Mail from, Rcpt to, EnvelopeID, Auth, ORCPT rfc822/utf-8, SASL mechanism name, NOTIFY elements alone and around valid keywords), the hostile octets also 1990..5000 octets into a value and behind IPv6 zones / address literals; Verify/Mail also as the very first call on the client (nothing, not even the greeting, may be written for a value with CR/LF). AUTH against a server that answers 0..3 lines of the exchange and then falls silent (CommandTimeout on the virtual clock): no line is written without an answer in between. Octets written by each call are taken from the raw connection log. Distinct by construction; non-trivial = a parameter is requested that is not offered / the string contains CR, LF or NUL. Oracle: <=1 CRLF-terminated line per call and no bare CR/LF; CR/LF in an argument => local error, zero octets; every parameter on the wire is in the most recent EHLO reply; REQUIRETLS/SMTPUTF8 requested but not offered => local error.", c15Exts, strLen)
	var ecases []C15ExtCase
	for m1 := 0; m1 < 128; m1++ {
		for opts := 0; opts < 64; opts++ {
			ecases = append(ecases, C15ExtCase{M1: m1, M2: m1, Opts: opts})
			ecases = append(ecases, C15ExtCase{M1: m1, M2: 127 ^ m1, Opts: opts, Second: true})
			ecases = append(ecases, C15ExtCase{M1: 127, M2: m1, Opts: opts, Second: true})
		}
	}
	// a server that refuses EHLO (HELO fallback): nothing is negotiated, first or second time round
	for opts := 0; opts < 64; opts++ {
		ecases = append(ecases, C15ExtCase{M1: -1, M2: -1, Opts: opts}, C15ExtCase{M1: 127, M2: -1, Opts: opts, Second: true}, C15ExtCase{M1: -1, M2: 127, Opts: opts, Second: true})
	}
	for _, c := range append([]C15ExtCase(nil), ecases...) {
		if c.Opts&32 != 0 {
			c.EmptyAuth = true
			ecases = append(ecases, c)
		}
	}
	h.ParallelFor(len(ecases), func(i int) {
		c := ecases[i]
		f := evalC15Ext(c)
		run.Eval(true)
		if f != nil {
			run.Violate("c15-ext", c, f, func() *h.Finding { return evalC15Ext(c) })
			run.Outcome("violation:" + f.Sig)
		}
		if i%5003 == 3 {
			run.Sample("ext", 4, c)
		}
	})
	run.Outcome("ext-ok")
	for _, which := range []string{"from", "first-rcpt", "second-rcpt"} {
		f := evalC15SendMail(which)
		run.Eval(true)
		if f != nil {
			run.Violate("c15-sendmail", map[string]string{"which": which}, f, func() *h.Finding { return evalC15SendMail(which) })
			run.Outcome("violation:" + f.Sig)
		}
	}
	var scases []C15StrCase
	enumStrings(alpha, strLen, func(s []byte) {
		for _, a := range []string{"hello", "verify", "from", "to", "envid", "auth", "orcpt-rfc822", "orcpt-utf8", "sasl-mech", "notify", "notify-kw"} {
			scases = append(scases, C15StrCase{Arg: a, S: string(s)})
		}
		for _, a := range []string{"verify", "from", "envid", "auth"} {
			scases = append(scases, C15StrCase{Arg: a, S: string(s), Fresh: true})
		}
	})
	// the hostile octets far into a long value (beyond any line-length consideration), and behind things that make a value
	// look trustworthy: an IPv6 address with a zone, an address literal, a long atom
	for _, pre := range []string{strings.Repeat("a", 1990), strings.Repeat("a", 2000), strings.Repeat("a", 2001), strings.Repeat("b", 5000), "fe80::1%eth0", "[192.0.2.1]", "[IPv6:2001:db8::1%25x", "192.0.2.1", "::1%"} {
		for _, hostile := range []string{"\r\nRSET", "\nRSET", "\rRSET", "\r\n", "\x00"} {
			for _, a := range []string{"hello", "verify", "from", "to", "sasl-mech"} {
				scases = append(scases, C15StrCase{Arg: a, S: pre + hostile}, C15StrCase{Arg: a, S: pre + hostile + "]"})
				if a == "verify" || a == "from" {
					scases = append(scases, C15StrCase{Arg: a, S: pre + hostile, Fresh: true})
				}
			}
		}
	}
	h.ParallelFor(len(scases), func(i int) {
		c := scases[i]
		f := evalC15Str(c)
		run.Eval(strings.ContainsAny(c.S, "\r\n\x00"))
		if f != nil {
			c.Show = fmt.Sprintf("%q", c.S)
			run.Violate("c15-str", c, f, func() *h.Finding { return evalC15Str(c) })
			run.Outcome("violation:" + f.Sig)
		}
		if i%4001 == 3 {
			run.Sample("string", 4, map[string]string{"arg": c.Arg, "s": fmt.Sprintf("%q", c.S)})
		}
	})
	run.Outcome("strings-ok")
	for after := 0; after <= 3; after++ {
		c := C15AuthSilenceCase{After: after}
		f := evalC15AuthSilence(c)
		run.Eval(true)
		if f != nil {
			run.Violate("c15-auth-silence", c, f, func() *h.Finding { return evalC15AuthSilence(c) })
			run.Outcome("violation:" + f.Sig)
		}
	}
	// the connection ends or falls silent in the middle of an answer (checks/c17.go)
	run.Rule += clientFaultRule
	clientFaultFamily(run, "C15")
	// histories of client calls (explicit-state search, checks/clientbfs.go)
	run.Rule += clientSearchRule
	clientSearch(run, "C15", 0)
	return run.Finish()
}

// ---- AUTH: the server falls silent in the middle of the exchange ------------------------------------------------------

type c15TwoStep struct{}

func (c15TwoStep) Start() (string, []byte, error)   { return "TWOSTEP", nil, nil }
func (c15TwoStep) Next(ch []byte) ([]byte, error) { return []byte("answer to " + string(ch)), nil }

type C15AuthSilenceCase struct {
	After int `json:"after"` // the server answers that many lines of the exchange (334 each) and then nothing any more
}

// evalC15AuthSilence: the server stops answering in the middle of a SASL exchange; CommandTimeout expires on the
// virtual clock. Every line the client has written was either answered or is the one it is waiting for: at most one
// line per protocol step, also on the way out.
func evalC15AuthSilence(c C15AuthSilenceCase) *h.Finding {
	var lines []string
	var err error
	auths := 0
	script := func(line string, n int) []byte {
		up := strings.ToUpper(line)
		switch {
		case strings.HasPrefix(up, "EHLO"):
			return []byte("250-fake.example\r\n250 AUTH TWOSTEP\r\n")
		case strings.HasPrefix(up, "QUIT"):
			return []byte("221 2.0.0 bye\r\n")
		}
		auths++
		if auths <= c.After {
			return []byte("334 Y2hhbA==\r\n")
		}
		return []byte{}
	}
	leak, pan := h.Bubble(func() {
		h.WithScriptedServer("220 fake.example ready\r\n", script, false, func(cs *h.CS) {
			err = cs.Client.Auth(c15TwoStep{})
			h.Wait()
		}, &lines)
	})
	desc := fmt.Sprintf("AUTH with a mechanism that answers every challenge; the server answers %d line(s) of the exchange with 334 and then falls silent", c.After)
	if pan != "" {
		return h.F("c15-harness-panic", "%s: %s", desc, pan)
	}
	if leak != "" {
		return h.F("c15-deadlock", "%s: %.200s", desc, leak)
	}
	if err == nil {
		return h.F("c15-auth-silence-nil", "%s: Auth returned nil", desc)
	}
	// lines: EHLO, then the exchange: After answered lines + the one the client is waiting for
	want := 1 + c.After + 1
	n := 0
	for _, l := range lines {
		if !strings.HasPrefix(strings.ToUpper(l), "QUIT") {
			n++
		}
	}
	if n > want {
		return h.F("c15-line-without-answer", "%s: the client wrote %d lines (%q): %d were answered, one is the line it was waiting on - the rest were written without any answer in between", desc, n, lines, c.After+1)
	}
	return nil
}

func init() { h.RegisterReplayer("c15-auth-silence", evalC15AuthSilence) }
