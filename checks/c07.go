package checks

import (
	"bytes"
	"fmt"
	"strings"
	"time"

	"verif/h"
	"verif/ref"
)

// C07: an incomplete message is never presented to the backend as complete.

type CutCase struct {
	Conv     Conv   `json:"conv"`
	Show     string `json:"show"`
	Cut      int    `json:"cut"` // the client's stream ends after this many octets
	Term     string `json:"term"`
	PerOctet bool   `json:"per_octet"`
	// WithErr: the last octets before the cut arrive TOGETHER with the end of the stream (n > 0 and io.EOF from one
	// Read, as crypto/tls returns them when a close_notify is waiting behind the data)
	WithErr bool `json:"with_err,omitempty"`
	// PerLine: one segment per LF-terminated piece of the input (a chunk's payload shares its read with the beginning of
	// the command line behind it, but not with the BDAT line in front of it)
	PerLine bool `json:"per_line,omitempty"`
}

func runCut(c CutCase) (*h.Obs, *h.Backend) {
	cfg, be := modeConfig(c.Conv.Mode)
	cfg.MaxMessageBytes = c.Conv.Limit
	cfg.Timeouts = c.Term == h.TermTimeout // an idle timeout presupposes that the server arms its deadlines
	cfg.FinalWithErr = c.WithErr
	in := c.Conv.In[:c.Cut]
	var segs [][]byte
	if c.PerOctet {
		segs = h.PerOctet(in)
	} else if c.PerLine {
		for _, l := range bytes.SplitAfter(in, []byte("\n")) {
			if len(l) > 0 {
				segs = append(segs, l)
			}
		}
	} else if len(in) > 0 {
		segs = h.OneSeg(in)
	}
	return h.RunS(cfg, be, segs, c.Term), be
}

func evalC07(c CutCase) *h.Finding {
	o, _ := runCut(c)
	desc := fmt.Sprintf("conv=%s/%s cut=%d/%d term=%s peroctet=%t last-octets-with-the-error=%t sent=%q", c.Conv.Name, c.Conv.Mode, c.Cut, len(c.Conv.In), c.Term, c.PerOctet, c.WithErr, tailStr(c.Conv.In[:c.Cut], 60))
	if f := o.Sanity("c07", desc); f != nil {
		return f
	}
	if o.ParseErr != nil && c.Term == h.TermEOF {
		return h.F("c07-bad-wire", "%s: %v", desc, o.ParseErr)
	}
	var data []h.Event
	for _, e := range o.Trace {
		if e.Kind == "Data" || e.Kind == "LMTPData" {
			data = append(data, e)
		}
	}
	if len(data) > len(c.Conv.Msgs) {
		return h.F("c07-extra-data", "%s: %d Data calls for %d messages", desc, len(data), len(c.Conv.Msgs))
	}
	for i, m := range c.Conv.Msgs {
		var ev *h.Event
		if i < len(data) {
			ev = &data[i]
		}
		switch {
		case m.Abandon || c.Cut < m.Fuzzy:
			if ev != nil {
				if ev.ReadErr == "EOF" {
					return h.F("c07-incomplete-eof", "%s: message %d is incomplete (complete at offset %d) but the backend's reader reported EOF after %q", desc, i, m.Complete, ev.Body)
				}
				if !ev.Ended || ev.ReadErr == "" {
					return h.F("c07-data-never-returned", "%s: Data call for message %d never finished", desc, i)
				}
				if !bytes.HasPrefix(m.Body, ev.Body) {
					return h.F("c07-not-a-prefix", "%s: backend read %q which is not a prefix of the message %q", desc, ev.Body, m.Body)
				}
			}
			if m.Prefix >= 0 && c.Cut >= m.FinalFrom && len(o.Replies) > m.Prefix && o.Replies[m.Prefix].Class() == 2 {
				return h.F("c07-incomplete-positive-reply", "%s: message %d is incomplete but got the final reply %s (replies %s)", desc, i, o.Replies[m.Prefix].String(), o.Codes())
			}
		case c.Cut >= m.Complete:
			if ev == nil {
				return h.F("c07-complete-not-delivered", "%s: message %d is complete but there was no Data call (%s; replies %s)", desc, i, h.Calls(o.Trace), o.Codes())
			}
			if ev.ReadErr != "EOF" || !bytes.Equal(ev.Body, m.Body) {
				return h.F("c07-complete-differs", "%s: message %d is complete; backend read %q ending with %q, want %q then EOF", desc, i, ev.Body, ev.ReadErr, m.Body)
			}
			if len(o.Replies) <= m.Prefix || o.Replies[m.Prefix].Code != 250 {
				return h.F("c07-complete-no-250", "%s: message %d is complete and accepted but replies are %s", desc, i, o.Codes())
			}
		}
	}
	return nil
}

func tailStr(b []byte, n int) string {
	if len(b) > n {
		return "…" + string(b[len(b)-n:])
	}
	return string(b)
}

// ---- a failed STARTTLS handshake in the middle of a chunked transfer ---------------------------------------------------

type FailedUpgradeCase struct {
	Prop  string `json:"prop"` // c06 | c07: whose oracle
	Mode  string `json:"mode"`
	K1    int    `json:"k1"` // octets of the chunk sent before STARTTLS
	K2    int    `json:"k2"` // octets of the LAST chunk sent after the handshake has failed
	Limit int64  `json:"limit,omitempty"`
}

// evalFailedUpgrade: MAIL, RCPT, BDAT k1, STARTTLS answered 220, octets that are no handshake (5xx), BDAT k2 LAST. The
// connection is still the plaintext connection it was: the transfer is still the same transfer. Whatever the server makes
// of it, the backend never sees a message end in EOF that is not the whole message (C07), and never more than the limit,
// the count of the first chunk included (C06).
func evalFailedUpgrade(c FailedUpgradeCase) *h.Finding {
	cfg, be := modeConfig(c.Mode)
	cfg.TLSAvailable = true
	cfg.MaxMessageBytes = c.Limit
	p1, p2 := strings.Repeat("a", c.K1), strings.Repeat("b", c.K2)
	whole := p1 + p2
	desc := fmt.Sprintf("mode=%s limit=%d: BDAT %d, STARTTLS with a failed handshake, BDAT %d LAST", c.Mode, c.Limit, c.K1, c.K2)
	var last []byte
	var f *h.Finding
	leak, pan := h.Bubble(func() {
		live := h.NewLive(cfg, be, false)
		live.Greeting()
		live.Send([]byte(hello(c.Mode)))
		live.Send([]byte("MAIL FROM:<ok@a.example>\r\nRCPT TO:<ok@b.example>\r\n"))
		live.Send([]byte(fmt.Sprintf("BDAT %d\r\n%s", c.K1, p1)))
		if out := live.Send([]byte("STARTTLS\r\n")); !strings.HasPrefix(string(out), "220") {
			f = h.F(c.Prop+"-upgrade-harness", "%s: STARTTLS answered %q", desc, out)
			return
		}
		live.Send([]byte("this is not a handshake\r\n"))
		last = live.Send([]byte(fmt.Sprintf("BDAT %d LAST\r\n%s", c.K2, p2)))
		live.Send([]byte("NOOP\r\n"))
		live.Hangup(h.TermEOF)
	})
	if f != nil {
		return f
	}
	if pan != "" {
		return h.F(c.Prop+"-harness-panic", "%s: %s", desc, pan)
	}
	if leak != "" {
		return h.F(c.Prop+"-goroutine-leak", "%s: %.300s", desc, leak)
	}
	if a := be.FirstAnomaly(); a != "" {
		return h.F(c.Prop+"-backend-anomaly", "%s: %s", desc, a)
	}
	for _, e := range be.Trace() {
		if e.Kind != "Data" && e.Kind != "LMTPData" {
			continue
		}
		if c.Limit > 0 && int64(len(e.Body)) > c.Limit {
			return h.F(c.Prop+"-backend-read-too-much", "%s: the backend read %d octets in one transaction", desc, len(e.Body))
		}
		if e.ReadErr == "EOF" && string(e.Body) != whole {
			return h.F(c.Prop+"-incomplete-as-complete", "%s: the backend's reader ended with EOF after %q; the message is %q", desc, e.Body, whole)
		}
		if e.ReadErr == "EOF" && c.Limit > 0 && int64(len(whole)) > c.Limit {
			return h.F(c.Prop+"-over-limit-eof", "%s: a message of %d octets was delivered as complete", desc, len(whole))
		}
	}
	if c.Limit > 0 && int64(len(whole)) > c.Limit {
		if rs, err := ref.ParseRepliesLenient(last); err != nil || len(rs) == 0 || rs[0].Class() == 2 {
			return h.F(c.Prop+"-over-limit-accepted", "%s: the LAST chunk takes the message to %d octets and was answered %q", desc, len(whole), last)
		}
	}
	return nil
}

func init() { h.RegisterReplayer("failed-upgrade", evalFailedUpgrade) }

// failedUpgradeCases: the family for one property.
func failedUpgradeCases(prop string) []FailedUpgradeCase {
	var out []FailedUpgradeCase
	for _, mode := range corpusModes {
		for _, lim := range []int64{0, 8, 20} {
			for _, k1 := range []int{1, 5, 8, 15, 20} {
				for _, k2 := range []int{0, 1, 5, 12, 20} {
					if lim > 0 && int64(k1) > lim {
						continue
					}
					out = append(out, FailedUpgradeCase{Prop: prop, Mode: mode, K1: k1, K2: k2, Limit: lim})
				}
			}
		}
	}
	return out
}

func runFailedUpgrades(run *h.Run, prop string) {
	for _, c := range failedUpgradeCases(prop) {
		c := c
		f := evalFailedUpgrade(c)
		run.Eval(true)
		if f != nil {
			run.Violate("failed-upgrade", c, f, func() *h.Finding { return evalFailedUpgrade(c) })
			run.Outcome("violation:" + f.Sig)
		} else {
			run.Outcome("failed-upgrade-ok")
		}
	}
}

func init() { h.RegisterReplayer("c07", evalC07) }

func C07(tier string) int {
	run := h.NewRun("C07", tier, "fault_enumeration", "", 20*time.Minute)
	corpus := TransferCorpus()
	terms := []string{h.TermEOF, h.TermTimeout, h.TermReset}
	run.Rule = fmt.Sprintf("corpus of %d DATA/BDAT conversations (SMTP, LMTP, LMTP per-recipient backend; dots, terminator look-alikes, empty message, size limit, 1-3 chunks, LAST on empty/non-empty chunk, two messages per connection, abandoned transfers followed by RSET/QUIT/EHLO/NOOP/MAIL/DATA) x EVERY byte offset as the point where the client's stream ends x terminal answer {EOF, timeout error, reset error (both as *net.OpError, as sockets return them), EOF delivered together with the last octets in one Read} x {prefix in one segment, one octet per segment}. Distinct by construction; non-trivial = the cut lies inside or after the first message transfer. Oracle: reader ends with EOF iff the whole message arrived, and then the octets equal the message; otherwise a non-EOF error, delivered octets are a prefix, and the final reply position holds no 2xx. Plus: a chunk, STARTTLS answered 220, octets that are no handshake, then the LAST chunk (3 modes x chunk sizes x limits {none, 8, 20}, real TLS library on the server side): no reader ever ends with EOF on anything but the whole message.", len(corpus))
	run.Assumptions = []string{"the backend returns the reader's error (a backend that swallows it claims success itself)", "cuts inside the CRLF of a final 'BDAT 0 LAST' line are not judged (all message octets and the LAST token have arrived)"}
	type job struct {
		ci, cut int
	}
	var jobs []job
	for ci, cv := range corpus {
		for cut := 0; cut <= len(cv.In); cut++ {
			jobs = append(jobs, job{ci, cut})
		}
	}
	h.ParallelFor(len(jobs), func(i int) {
		if run.Expired() {
			return
		}
		j := jobs[i]
		cv := corpus[j.ci]
		type variant struct {
			term         string
			per, withErr bool
		}
		var variants []variant
		for _, term := range terms {
			variants = append(variants, variant{term, false, false}, variant{term, true, false})
		}
		variants = append(variants, variant{h.TermEOF, false, true}, variant{h.TermEOF, true, true})
		for _, v := range variants {
			{
				term, per := v.term, v.per
				c := CutCase{Conv: cv, Cut: j.cut, Term: term, PerOctet: per, WithErr: v.withErr}
				f := evalC07(c)
				run.Eval(len(cv.Msgs) > 0 && j.cut > cv.Msgs[0].Start)
				if f != nil {
					c.Show = fmt.Sprintf("%q", cv.In[:j.cut])
					run.Violate("c07", c, f, func() *h.Finding { return evalC07(c) })
					run.Outcome("violation:" + f.Sig)
				} else {
					st := "before"
					if len(cv.Msgs) > 0 && j.cut >= cv.Msgs[0].Complete {
						st = "complete"
					} else if len(cv.Msgs) > 0 && j.cut > cv.Msgs[0].Start {
						st = "inside"
					}
					run.Outcome(st)
				}
			}
		}
		if i%701 == 11 {
			run.Sample("cut", 6, map[string]interface{}{"conv": cv.Name, "mode": cv.Mode, "cut": j.cut, "sent": fmt.Sprintf("%q", cv.In[:j.cut])})
		}
	})
	runFailedUpgrades(run, "c07")
	return run.Finish()
}

// firstLogLine keeps messages deterministic (stack traces contain addresses).
func firstLogLine(log string) string {
	if i := strings.IndexByte(log, '\n'); i >= 0 {
		return log[:i]
	}
	return log
}
