package checks

import (
	"errors"
	"crypto/tls"
	"context"
	"encoding/json"
	"fmt"
	"io"
	"net"
	"os"
	"os/exec"
	"path/filepath"
	"regexp"
	"sort"
	"strings"
	"sync"
	"sync/atomic"
	"time"

	"verif/h"
)

// Engine R: the schedules enumerated by engine X are replayed FREE-RUNNING in
// a binary built with -race and the ordinary sync package. A cooperative
// scheduler's hand-offs are happens-before edges, so the race detector is
// blind under engine X; here the harness only issues the events in the
// schedule's order, separated by short real-time pauses (which create no
// happens-before edge), and pre-loads gate tokens. Timing influences only
// which accesses get executed, never the verdict: every report of the
// detector is a real unordered pair.

type raceJob struct {
	Sc       SrvScenario `json:"scenario"`
	Schedule []string    `json:"schedule"`
}

// freeGates hands out tokens to goroutines parked at gates.
type freeGates struct {
	mu      sync.Mutex
	tokens  map[string]chan struct{}
	counts  map[string]int
	drain   chan struct{}
	drained bool
}

func newFreeGates() *freeGates {
	return &freeGates{tokens: map[string]chan struct{}{}, counts: map[string]int{}, drain: make(chan struct{})}
}

func (g *freeGates) ch(name string) chan struct{} {
	c := g.tokens[name]
	if c == nil {
		c = make(chan struct{}, 1)
		g.tokens[name] = c
	}
	return c
}

func (g *freeGates) Point(name string) {
	g.mu.Lock()
	g.counts[name]++
	c := g.ch(fmt.Sprintf("%s#%d", name, g.counts[name]))
	g.mu.Unlock()
	select {
	case <-c:
	case <-g.drain:
	}
}

func (g *freeGates) Open(full string) {
	g.mu.Lock()
	c := g.ch(full)
	g.mu.Unlock()
	select {
	case c <- struct{}{}:
	default:
	}
}

func (g *freeGates) Drain() {
	g.mu.Lock()
	if !g.drained {
		g.drained = true
		close(g.drain)
	}
	g.mu.Unlock()
}

const racePause = 300 * time.Microsecond

// raceCloseWait is how long a free-running replay waits for Server.Close once everything is drained. It is not a
// timing oracle (engine X decides hangs on the virtual clock); it only keeps a deadlocked library from hanging the
// replay, and is long enough for a machine that is busy with other things.
const raceCloseWait = 60 * time.Second

var raceHung atomic.Bool

// raceReplay runs one scenario under one schedule, free-running.
func raceReplay(job raceJob) {
	// a panic of the library in one of the harness' own goroutines (Server.Close, Shutdown) must
	// not take the whole replay down: it is reported
	report := func() {
		if p := recover(); p != nil {
			fmt.Printf("RACE-REPLAY-PANIC scenario=%s panic=%v\n", job.Sc.Name, p)
		}
	}
	defer report()
	if raceHung.Load() {
		return // one replay has already shown that Close hangs: that is the verdict, the rest would only wait
	}
	sc := job.Sc
	g := newFreeGates()
	be := &h.Backend{LMTPSess: sc.LMTP, ByContent: sc.ByContent}
	gateSet := map[string]bool{}
	for _, k := range sc.Gates {
		gateSet[k] = true
	}
	be.Gate = func(step string) {
		kind := step[strings.IndexByte(step, ':')+1:]
		if gateSet[kind] {
			g.Point("be:" + step)
		}
	}
	be.Plan = c20Plan(sc)
	log := &h.LogBuf{}
	srv := h.Config{LMTP: sc.LMTP, MaxMessageBytes: sc.MaxBytes}.NewServer(be, log)
	ln := &fakeListener{ch: make(chan interface{}, 16), closed: make(chan struct{})}
	ctx, cancel := context.WithCancel(context.Background())
	defer cancel()
	serveDone := make(chan struct{})
	go func() { defer close(serveDone); defer report(); srv.Serve(ln) }()
	var conns []*connCtl
	var admins sync.WaitGroup
	for _, ev := range job.Schedule {
		switch {
		case strings.HasPrefix(ev, "accept:"):
			switch {
			case strings.HasSuffix(ev, "-conn"):
				c := &connCtl{}
				c.client, c.server = h.NewDuplex()
				conns = append(conns, c)
				if sc.ImplicitTLS {
					ln.ch <- net.Conn(tls.Server(c.server, h.ServerTLSConfig()))
				} else {
					ln.ch <- net.Conn(c.server)
				}
			case strings.HasSuffix(ev, "-temp"):
				ln.ch <- error(tempErr{})
			default:
				ln.ch <- errPermAccept
			}
		case strings.HasPrefix(ev, "clock:"):
			time.Sleep(8 * time.Millisecond) // covers the first back-off steps; longer ones are cut short by Close
		case strings.HasPrefix(ev, "admin:"):
			kind := ev[strings.IndexByte(ev, '-')+1:]
			admins.Add(1)
			switch kind {
			case "close", "close2":
				go func() { defer admins.Done(); defer report(); srv.Close() }()
			case "shutdown", "shutdown2":
				go func() { defer admins.Done(); defer report(); srv.Shutdown(ctx) }()
			case "cancel":
				cancel()
				admins.Done()
			case "lnclose":
				ln.Close()
				admins.Done()
			default:
				admins.Done()
			}
		case ev[0] == 'c' && strings.Contains(ev, ":"):
			var ci, k int
			if n, _ := fmt.Sscanf(ev, "c%d:seg%d", &ci, &k); n == 2 && ci < len(conns) && ci < len(sc.Clients) && k < len(sc.Clients[ci]) {
				if seg := sc.Clients[ci][k]; seg == "<RST>" {
					conns[ci].gone = true
					conns[ci].client.Out.End(&net.OpError{Op: "read", Net: "tcp", Err: errors.New("connection reset by peer")})
				} else {
					conns[ci].client.Write([]byte(seg))
				}
			} else if n, _ := fmt.Sscanf(ev, "c%d:disconnect", &ci); n == 1 && ci < len(conns) {
				conns[ci].gone = true
				conns[ci].client.Out.End(io.EOF)
			}
		default:
			g.Open(ev) // a gate: be:..., write:...
		}
		time.Sleep(racePause)
	}
	// drain
	g.Drain()
	time.Sleep(racePause)
	for _, c := range conns {
		if !c.gone {
			c.client.Out.End(io.EOF)
		}
	}
	time.Sleep(racePause)
	closed := make(chan struct{})
	go func() { defer close(closed); defer report(); srv.Close() }()
	select {
	case <-closed:
	case <-time.After(raceCloseWait):
		// not a timing oracle on a working library: Close has nothing left to wait for here (every gate is
		// open, every client has hung up). The deterministic verdict comes from engine X; this line makes
		// the replay report it too instead of hanging.
		raceHung.Store(true)
		fmt.Printf("RACE-REPLAY-HANG scenario=%s what=Server.Close did not return within 60s after everything was drained\n", job.Sc.Name)
	}
	cancel()
	select {
	case <-serveDone:
	case <-time.After(3 * time.Second):
	}
	wait := make(chan struct{})
	go func() { admins.Wait(); close(wait) }()
	select {
	case <-wait:
	case <-time.After(3 * time.Second):
	}
}

// C20RaceMain is the entry point of the -race binary.
func C20RaceMain(tier string) int {
	b, err := os.ReadFile(filepath.Join(h.Root, ".work", "c20-schedules.json"))
	if err != nil {
		fmt.Fprintln(os.Stderr, err)
		return 2
	}
	var jobs []raceJob
	if err := json.Unmarshal(b, &jobs); err != nil {
		fmt.Fprintln(os.Stderr, err)
		return 2
	}
	h.ParallelFor(len(jobs), func(i int) { raceReplay(jobs[i]) })
	fmt.Printf("RACE-REPLAY-DONE %d\n", len(jobs))
	return 0
}

var reRaceFunc = regexp.MustCompile(`^\s+github\.com/emersion/go-smtp\.(\S+?)\(`)

// parseRaces reduces the detector's reports to signatures: the unordered
// pair of innermost go-smtp functions of the two conflicting accesses.
func parseRaces(out string) map[string]string {
	sigs := map[string]string{}
	for _, rep := range strings.Split(out, "WARNING: DATA RACE")[1:] {
		if i := strings.Index(rep, "=================="); i >= 0 {
			rep = rep[:i]
		}
		// the report has sections: access 1, access 2, goroutine creation stacks...
		var funcs []string
		section := ""
		for _, l := range strings.Split(rep, "\n") {
			t := strings.TrimSpace(l)
			switch {
			case strings.HasPrefix(t, "Write at"), strings.HasPrefix(t, "Read at"), strings.HasPrefix(t, "Previous write at"), strings.HasPrefix(t, "Previous read at"),
				strings.HasPrefix(t, "Atomic"), strings.HasPrefix(t, "Previous atomic"):
				section = "access"
				funcs = append(funcs, "")
			case strings.HasPrefix(t, "Goroutine "):
				section = "goroutine"
			}
			if section == "access" && len(funcs) > 0 && funcs[len(funcs)-1] == "" {
				if m := reRaceFunc.FindStringSubmatch(l); m != nil {
					name := strings.NewReplacer("(*", "", ")", "").Replace(m[1])
					// closures: keep the enclosing function
					if i := strings.Index(name, ".func"); i >= 0 {
						name = name[:i]
					}
					funcs[len(funcs)-1] = name
				}
			}
		}
		for i := range funcs {
			if funcs[i] == "" {
				funcs[i] = "(outside go-smtp)"
			}
		}
		sort.Strings(funcs)
		sig := "race:" + strings.Join(funcs, "|")
		if _, ok := sigs[sig]; !ok {
			sigs[sig] = strings.TrimSpace(rep)
		}
	}
	return sigs
}

var raceSchedules struct {
	mu   sync.Mutex
	jobs []raceJob
}

func keepForRace(sc SrvScenario, schedule []string) {
	raceSchedules.mu.Lock()
	raceSchedules.jobs = append(raceSchedules.jobs, raceJob{Sc: sc, Schedule: append([]string(nil), schedule...)})
	raceSchedules.mu.Unlock()
}

// c20Races writes the schedule list, runs the -race binary and judges its reports.
func c20Races(run *h.Run, tier string) {
	jobs := raceSchedules.jobs
	// directed schedules for the known finding (Close fired while the command loop is inside a
	// backend callback / blocked in a chunk copy), so that it is observed on every run
	chunk := c20Tx + "BDAT 5\r\nhello"
	jobs = append(jobs,
		raceJob{Sc: SrvScenario{Name: "R-close-during-chunk-copy", Accepts: []string{"conn"}, Clients: [][]string{{chunk, "BDAT 3 LAST\r\nabc", "EHLO again.example\r\nMAIL FROM:<ok@a.example>\r\n"}}, Gates: []string{"return"}, Plan: "noread"},
			Schedule: []string{"accept:0-conn", "c0:seg0", "admin:0-close", "be:m0:return#1", "c0:seg1", "c0:seg2"}},
		raceJob{Sc: SrvScenario{Name: "R-close-during-greeting", Accepts: []string{"conn"}, Clients: [][]string{{"EHLO c.example\r\n", "EHLO d.example\r\nMAIL FROM:<ok@a.example>\r\nRCPT TO:<ok@b.example>\r\nDATA\r\nx\r\n.\r\n"}}},
			Schedule: []string{"accept:0-conn", "c0:seg0", "c0:seg1", "admin:0-close"}},
	)
	max := 1500
	if tier == "thorough" {
		max = 20000
	}
	if len(jobs) > max {
		// keep the directed ones and an even selection of the rest
		step := len(jobs) / max
		var sel []raceJob
		for i := 0; i < len(jobs)-2; i += step + 1 {
			sel = append(sel, jobs[i])
		}
		sel = append(sel, jobs[len(jobs)-2:]...)
		run.Counter("race_schedules_available", int64(len(jobs)))
		jobs = sel
	}
	b, _ := json.Marshal(jobs)
	os.MkdirAll(filepath.Join(h.Root, ".work"), 0o755)
	os.WriteFile(filepath.Join(h.Root, ".work", "c20-schedules.json"), b, 0o644)
	bin := filepath.Join(h.Root, "bin", "vtest-race")
	if _, err := os.Stat(bin); err != nil {
		run.NotExhaustive("the -race binary was not built; the data-race clause was not checked in this run")
		return
	}
	ctx, cancelRun := context.WithTimeout(context.Background(), 15*time.Minute)
	defer cancelRun()
	cmd := exec.CommandContext(ctx, bin, "-test.run", "^TestCheck$", "-test.timeout", "0", "-test.count", "1")
	cmd.Env = append(os.Environ(), "VERIF_PROP=C20RACE", "GORACE=halt_on_error=0")
	t0 := time.Now()
	out, err := cmd.CombinedOutput()
	text := string(out)
	os.WriteFile(filepath.Join(h.Root, ".work", "c20-race.log"), out, 0o644)
	if !strings.Contains(text, "RACE-REPLAY-DONE") {
		run.Violate("c20-race", map[string]string{"log": ".work/c20-race.log"}, h.F("c20-race-replay-broken", "the -race replay did not finish: %v; output tail: %.600s", err, tailStr(out, 600)), nil)
		return
	}
	sigs := parseRaces(text)
	for _, l := range strings.Split(text, "\n") {
		if strings.HasPrefix(l, "RACE-REPLAY-HANG") {
			if _, ok := sigs["replay-hang"]; !ok {
				sigs["replay-hang"] = l
			}
		}
		if strings.HasPrefix(l, "RACE-REPLAY-PANIC") {
			p := l[strings.Index(l, "panic=")+6:]
			if _, ok := sigs["replay-panic:"+p]; !ok {
				sigs["replay-panic:"+p] = l
			}
		}
	}
	run.EvalN(int64(len(jobs)), int64(len(jobs)))
	run.Trace(int64(len(jobs)))
	run.Notes["race"] = map[string]interface{}{"schedules_replayed_under_race_detector": len(jobs), "distinct_race_signatures": len(sigs), "wall_s": time.Since(t0).Seconds(),
		"note": "coverage here is 'every listed schedule executed once free-running under the detector', not 'every interleaving'"}
	var names []string
	for s := range sigs {
		names = append(names, s)
	}
	sort.Strings(names)
	for _, s := range names {
		if s == "replay-hang" {
			run.Violate("c20-race", map[string]string{"signature": s, "report": sigs[s]}, h.F("c20-close-hangs", "free-running replay: %s", sigs[s]), nil)
			continue
		}
		if strings.HasPrefix(s, "replay-panic:") {
			run.Violate("c20-race", map[string]string{"signature": s, "report": sigs[s]}, h.F(s, "the library panicked during a free-running replay: %s", sigs[s]), nil)
			continue
		}
		run.Violate("c20-race", map[string]string{"signature": s, "report": sigs[s]}, h.F(s, "data race between %s:\n%.1500s", strings.TrimPrefix(s, "race:"), sigs[s]), nil)
	}
	run.Outcome(fmt.Sprintf("race-replays:%d", len(jobs)))
}
