package checks

import (
	"bytes"
	"fmt"
	"math/rand"
	"strings"
	"time"

	smtp "github.com/emersion/go-smtp"
	"verif/h"
	"verif/ref"
)

// C16: a message written through the client arrives intact at a go-smtp backend.

const c16Second = ".second\r\n..\r\nend\r\n"

type C16Case struct {
	LMTP   bool   `json:"lmtp"`
	Body   []byte `json:"body"`
	Show   string `json:"show"`
	Cuts   []int  `json:"cuts"` // Write boundaries; [-1] = one octet per Write
	Reject bool   `json:"reject"`
	Env    int    `json:"env"` // which envelope (c16Envelopes)
	// Limit: the server's MaxMessageBytes (0: none). A message over the limit must come back from Close as 552 -
	// whatever octets happen to sit at the limit - and one that fits must arrive as without a limit.
	Limit int64 `json:"limit,omitempty"`
	// LSess: the backend's sessions ALSO implement LMTPSession although the server speaks SMTP (a backend shared by an
	// SMTP and an LMTP listener): it is the server's mode that decides, one reply per message
	LSess bool `json:"lmtp_session_backend,omitempty"`
	// Slow: the server has WriteTimeout 10 s (ReadTimeout 30 min) and the sender lets 40 virtual seconds pass before
	// every Write: the transfer outlasts the write timeout many times over, the verdict must still arrive
	Slow bool `json:"slow,omitempty"`
}

// envelopes: characters that mean something to fmt, to the path grammar or to xtext must arrive as given
var c16Envelopes = []struct {
	from  string
	rcpts []string
}{
	{"sender@a.example", []string{"r1@b.example", "r2@b.example"}},
	{"100%%real@a.example", []string{"user%example.org@relay.example", "%s%d%v@b.example"}},
	{"a+b=c@a.example", []string{"x!y#z@b.example", "o'brien+tag@b.example", "{curly}|pipe~@b.example"}},
	{"", []string{"postmaster@b.example"}}, // the null reverse-path (a bounce); the client adds BODY=8BITMIME behind it
	{"Sender.Name@A.Example", []string{"R1@b.example", "r1@b.example", "a@[192.0.2.1]"}},
}

func evalC16(c C16Case) *h.Finding {
	var f *h.Finding
	desc := fmt.Sprintf("lmtp=%t body=%q cuts=%v reject=%t envelope=%d", c.LMTP, c.Body, c.Cuts, c.Reject, c.Env)
	if c.LSess {
		desc += " (backend sessions implement LMTPSession too)"
	}
	cfg := h.Config{LMTP: c.LMTP, MaxMessageBytes: c.Limit}
	if c.Slow {
		cfg.ReadTO, cfg.WriteTO = 30*time.Minute, 10*time.Second
		desc += " (slow sender: 40 s before every Write, server WriteTimeout 10 s)"
	}
	be := &h.Backend{LMTPSess: c.LSess}
	want := ref.DotStuffNormalize(c.Body)
	over := c.Limit > 0 && int64(len(want)) > c.Limit
	if c.Limit > 0 {
		desc += fmt.Sprintf(" serverlimit=%d (message %d octets)", c.Limit, len(want))
	}
	var verdict error
	if c.Reject {
		verdict = &smtp.SMTPError{Code: 554, EnhancedCode: smtp.EnhancedCode{5, 6, 0}, Message: "message refused"}
	}
	be.Plan = func(int) h.DataPlan { return h.DataPlan{Max: -1, Verdict: verdict} }
	from, rcpts := c16Envelopes[c.Env].from, c16Envelopes[c.Env].rcpts
	leak, pan := h.Bubble(func() {
		h.WithRealServer(cfg, be, false, func(cs *h.CS) {
			cl := cs.Client
			if err := cl.Mail(from, nil); err != nil {
				f = h.F("c16-mail", "%s: Mail: %v", desc, err)
				return
			}
			for _, r := range rcpts {
				if err := cl.Rcpt(r, nil); err != nil {
					f = h.F("c16-rcpt", "%s: Rcpt: %v", desc, err)
					return
				}
			}
			w, err := cl.Data()
			if err != nil {
				f = h.F("c16-data", "%s: Data: %v", desc, err)
				return
			}
			var parts [][]byte
			if len(c.Cuts) == 1 && c.Cuts[0] == -1 {
				parts = h.PerOctet(c.Body)
			} else if len(c.Body) > 0 {
				parts = h.SplitAt(c.Body, c.Cuts...)
			}
			for _, p := range parts {
				if c.Slow {
					time.Sleep(40 * time.Second)
				}
				if n, err := w.Write(p); err != nil || n != len(p) {
					f = h.F("c16-write", "%s: Write(%q) = %d, %v", desc, p, n, err)
					return
				}
			}
			cerr := w.Close()
			if over {
				se, ok := cerr.(*smtp.SMTPError)
				if !ok || se.Code != 552 {
					f = h.F("c16-verdict", "%s: the message exceeds the server's limit (verdict 552) but Close returned %v", desc, cerr)
					return
				}
			} else if c.Reject {
				se, ok := cerr.(*smtp.SMTPError)
				if !ok || se.Code != 554 || !strings.HasSuffix(se.Message, "message refused") { // LMTP prefixes the recipient
					f = h.F("c16-verdict", "%s: the server refused the message with 554 'message refused' but Close returned %v", desc, cerr)
					return
				}
			} else if cerr != nil {
				f = h.F("c16-verdict", "%s: the server accepted the message but Close returned %v", desc, cerr)
				return
			}
			h.Wait()
			before := len(cs.ToServer())
			repliesBefore := len(cs.ToClient())
			err2 := w.Close()
			h.Wait()
			if err2 == nil {
				f = h.F("c16-second-close-nil", "%s: a second Close returned nil", desc)
				return
			}
			if after := cs.ToServer(); len(after) != before {
				f = h.F("c16-second-close-wrote", "%s: a second Close wrote %q to the server", desc, after[before:])
				return
			}
			if len(cs.ToClient()) != repliesBefore {
				f = h.F("c16-second-close-exchange", "%s: a second Close caused another server reply", desc)
				return
			}
			// the connection is still usable and in step - also a long while later (longer than any of the client's
			// timeouts: no deadline armed for the transfer may linger)
			time.Sleep(13 * time.Minute)
			if err := cl.Noop(); err != nil {
				f = h.F("c16-out-of-step", "%s: Noop after the transfer failed: %v", desc, err)
				return
			}
			if c.Limit > 0 {
				return // the fixed second message is about transfers without a limit
			}
			// a second message on the same connection, to another recipient
			if err := cl.Mail("sender2@a.example", nil); err != nil {
				f = h.F("c16-second-message", "%s: second Mail: %v", desc, err)
				return
			}
			if err := cl.Rcpt("r3@b.example", nil); err != nil {
				f = h.F("c16-second-message", "%s: second Rcpt: %v", desc, err)
				return
			}
			w2, err := cl.Data()
			if err != nil {
				f = h.F("c16-second-message", "%s: second Data: %v", desc, err)
				return
			}
			w2.Write([]byte(c16Second))
			if cerr2 := w2.Close(); (cerr2 != nil) != c.Reject {
				f = h.F("c16-second-message", "%s: Close of the second message returned %v", desc, cerr2)
				return
			}
		})
	})
	if f != nil {
		return f
	}
	if pan != "" {
		return h.F("c16-harness-panic", "%s: %s", desc, pan)
	}
	if leak != "" {
		return h.F("c16-deadlock", "%s: client and server are stuck (no goroutine can run): %.300s", desc, leak)
	}
	var data []h.Event
	var mails, rc []string
	for _, e := range be.Trace() {
		switch e.Kind {
		case "Data", "LMTPData":
			data = append(data, e)
		case "Mail":
			mails = append(mails, e.Arg)
		case "Rcpt":
			rc = append(rc, e.Arg)
		}
	}
	if a := be.FirstAnomaly(); a != "" {
		return h.F("c16-backend-anomaly", "%s: %s", desc, a)
	}
	if c.Limit > 0 {
		if len(data) != 1 {
			return h.F("c16-data-calls", "%s: %d Data calls, want 1", desc, len(data))
		}
		if over {
			if data[0].ReadErr == "EOF" || int64(len(data[0].Body)) > c.Limit || !bytes.HasPrefix(want, data[0].Body) {
				return h.F("c16-body-differs", "%s: backend read %q (%s) of an over-limit message %q", desc, data[0].Body, data[0].ReadErr, want)
			}
		} else if !bytes.Equal(data[0].Body, want) || data[0].ReadErr != "EOF" {
			return h.F("c16-body-differs", "%s: backend read %q (%s), want %q", desc, data[0].Body, data[0].ReadErr, want)
		}
		if len(mails) != 1 || mails[0] != from || strings.Join(rc, ",") != strings.Join(rcpts, ",") {
			return h.F("c16-envelope", "%s: backend envelope from=%v rcpts=%v", desc, mails, rc)
		}
		return nil
	}
	if len(data) != 2 {
		return h.F("c16-data-calls", "%s: %d Data calls, want 2", desc, len(data))
	}
	if string(data[1].Body) != c16Second || data[1].ReadErr != "EOF" || strings.Join(data[1].Rcpts, ",") != "r3@b.example" || data[1].From != "sender2@a.example" {
		return h.F("c16-second-message", "%s: the second message arrived as from=%q rcpts=%v body=%q (%s)", desc, data[1].From, data[1].Rcpts, data[1].Body, data[1].ReadErr)
	}
	if !bytes.Equal(data[0].Body, want) || data[0].ReadErr != "EOF" {
		return h.F("c16-body-differs", "%s: backend read %q (%s), want %q", desc, data[0].Body, data[0].ReadErr, want)
	}
	if strings.Join(mails, ",") != from+",sender2@a.example" || strings.Join(rc, ",") != strings.Join(rcpts, ",")+",r3@b.example" {
		return h.F("c16-envelope", "%s: backend envelope from=%v rcpts=%v", desc, mails, rc)
	}
	return nil
}

// ---- long sessions ---------------------------------------------------------------------------------------

// C16LongCase: many messages with many recipients over ONE connection - far more octets in both directions than any
// line limit or buffer size, in short lines.
type C16LongCase struct {
	LMTP     bool `json:"lmtp"`
	Messages int  `json:"messages"`
	Rcpts    int  `json:"rcpts"`
	Lines    int  `json:"lines"`
}

func evalC16Long(c C16LongCase) *h.Finding {
	var f *h.Finding
	desc := fmt.Sprintf("long session lmtp=%t: %d messages x %d recipients x %d lines on one connection", c.LMTP, c.Messages, c.Rcpts, c.Lines)
	be := &h.Backend{}
	var bodies []string
	leak, pan := h.Bubble(func() {
		h.WithRealServer(h.Config{LMTP: c.LMTP}, be, false, func(cs *h.CS) {
			cl := cs.Client
			for m := 0; m < c.Messages; m++ {
				if err := cl.Mail(fmt.Sprintf("sender%d@a.example", m), nil); err != nil {
					f = h.F("c16-mail", "%s: Mail of message %d: %v", desc, m, err)
					return
				}
				for r := 0; r < c.Rcpts; r++ {
					if err := cl.Rcpt(fmt.Sprintf("r%d-%d@b.example", m, r), nil); err != nil {
						f = h.F("c16-rcpt", "%s: Rcpt %d of message %d: %v", desc, r, m, err)
						return
					}
				}
				w, err := cl.Data()
				if err != nil {
					f = h.F("c16-data", "%s: Data of message %d: %v", desc, m, err)
					return
				}
				var sb strings.Builder
				for l := 0; l < c.Lines; l++ {
					fmt.Fprintf(&sb, ".line %d of message %d\r\n", l, m)
				}
				bodies = append(bodies, sb.String())
				if _, err := w.Write([]byte(sb.String())); err != nil {
					f = h.F("c16-write", "%s: Write of message %d: %v", desc, m, err)
					return
				}
				if err := w.Close(); err != nil {
					f = h.F("c16-verdict", "%s: Close of message %d returned %v", desc, m, err)
					return
				}
			}
			if err := cl.Noop(); err != nil {
				f = h.F("c16-out-of-step", "%s: Noop at the end: %v", desc, err)
			}
		})
	})
	if f != nil {
		return f
	}
	if pan != "" {
		return h.F("c16-harness-panic", "%s: %s", desc, pan)
	}
	if leak != "" {
		return h.F("c16-deadlock", "%s: %.300s", desc, leak)
	}
	n := 0
	for _, e := range be.Trace() {
		if e.Kind == "Data" || e.Kind == "LMTPData" {
			if n >= len(bodies) || string(e.Body) != bodies[n] || e.ReadErr != "EOF" || len(e.Rcpts) != c.Rcpts || e.From != fmt.Sprintf("sender%d@a.example", n) {
				return h.F("c16-body-differs", "%s: message %d arrived as from=%q with %d recipients and %d octets (%s)", desc, n, e.From, len(e.Rcpts), len(e.Body), e.ReadErr)
			}
			n++
		}
	}
	if n != c.Messages {
		return h.F("c16-data-calls", "%s: %d messages arrived", desc, n)
	}
	return nil
}

func init() {
	h.RegisterReplayer("c16", evalC16)
	h.RegisterReplayer("c16-long", evalC16Long)
}

func C16(tier string) int {
	run := h.NewRun("C16", tier, "exploration", "", 25*time.Minute)
	maxTok := 6
	if tier == "thorough" {
		maxTok = 7
	}
	tokens := []string{".", "\n", "\r\n", "a"}
	run.Rule = fmt.Sprintf("all message bodies of <=%d tokens over {'.', LF, CRLF, 'a'} (and the empty body) x partitions into Write calls {one Write, one octet per Write, every 2-split} x server verdict {accept, reject} x {SMTP, LMTP}, cycling through 5 envelopes (plain; '%%' in sender and recipients; atext specials; the null sender; mixed case with recipients differing in case only and an address literal), each a complete real-client -> real-server conversation in a synctest bubble (a client waiting for a reply that never comes is reported by the runtime as a deadlock). Distinct by construction; non-trivial = body contains '.' or a line break. Oracle: backend octets == ref.DotStuffNormalize(body) then EOF; envelope as given; Close returns the server's verdict; a second Close returns an error, writes nothing and causes no reply; the connection stays in step. Every body also against a server with MaxMessageBytes = every value 1..message size (one Write, accepting backend): over the limit Close returns 552 and the backend never sees a complete message, at the limit the message arrives intact. Every body also against an SMTP server whose backend sessions implement LMTPSession as well. Long sessions: {12 messages x 3 recipients, 2 x 60, 3 messages of 400 lines, 40 short messages} over ONE connection (many times the line limit and the buffer sizes in both directions). Labelled supplement: seeded random 8-bit bodies.", maxTok)
	run.Assumptions = []string{"CR occurs only as part of CRLF (as the statement requires)", "an empty body arrives as a single CRLF ('final CRLF ensured')"}
	var bodies [][]byte
	var rec func(cur []byte, n int)
	rec = func(cur []byte, n int) {
		bodies = append(bodies, append([]byte(nil), cur...))
		if n == maxTok {
			return
		}
		for _, t := range tokens {
			rec(append(append([]byte(nil), cur...), t...), n+1)
		}
	}
	rec(nil, 0)
	// distinct bodies only (".\n" can arise from different token sequences? no: tokens are prefix-free except CRLF vs LF: "\r\n" is one token; unique)
	h.ParallelFor(len(bodies), func(i int) {
		if run.Expired() {
			return
		}
		b := bodies[i]
		cutsList := [][]int{nil, {-1}}
		for k := 1; k < len(b); k++ {
			cutsList = append(cutsList, []int{k})
		}
		for _, cuts := range cutsList {
			for _, rej := range []bool{false, true} {
				for _, lmtp := range []bool{false, true} {
					c := C16Case{LMTP: lmtp, Body: b, Cuts: cuts, Reject: rej, Env: (i + len(cuts)) % len(c16Envelopes)}
					f := evalC16(c)
					run.Eval(bytes.ContainsAny(b, ".\n"))
					if f != nil {
						c.Show = fmt.Sprintf("%q", b)
						run.Violate("c16", c, f, func() *h.Finding { return evalC16(c) })
						run.Outcome("violation:" + f.Sig)
					}
				}
			}
		}
		// an SMTP server whose backend sessions implement LMTPSession as well
		for _, rej := range []bool{false, true} {
			c := C16Case{Body: b, Reject: rej, Env: i % len(c16Envelopes), LSess: true}
			f := evalC16(c)
			run.Eval(true)
			if f != nil {
				c.Show = fmt.Sprintf("%q", b)
				run.Violate("c16", c, f, func() *h.Finding { return evalC16(c) })
				run.Outcome("violation:" + f.Sig)
			}
		}
		// against a server with a size limit: every limit from 1 to the message size
		wantLen := int64(len(ref.DotStuffNormalize(b)))
		for lim := int64(1); lim <= wantLen; lim++ {
			for _, lmtp := range []bool{false, true} {
				c := C16Case{LMTP: lmtp, Body: b, Env: i % len(c16Envelopes), Limit: lim}
				f := evalC16(c)
				run.Eval(true)
				if f != nil {
					c.Show = fmt.Sprintf("%q", b)
					run.Violate("c16", c, f, func() *h.Finding { return evalC16(c) })
					run.Outcome("violation:" + f.Sig)
				}
			}
		}
		if i%911 == 3 {
			run.Sample("body", 6, fmt.Sprintf("%q", b))
		}
	})
	run.Outcome("ok")
	rng := rand.New(rand.NewSource(run.Seed))
	nrand := 2000
	if tier == "thorough" {
		nrand = 20000
	}
	var rcs []C16Case
	for i := 0; i < nrand; i++ {
		n := rng.Intn(200)
		b := make([]byte, 0, n)
		for len(b) < n {
			switch rng.Intn(6) {
			case 0:
				b = append(b, '\r', '\n')
			case 1:
				b = append(b, '.')
			case 2:
				b = append(b, '\n')
			default:
				ch := byte(rng.Intn(256))
				if ch == '\r' {
					ch = 'r'
				}
				b = append(b, ch)
			}
		}
		var cuts []int
		for k := 1; k < len(b); k++ {
			if rng.Intn(10) == 0 {
				cuts = append(cuts, k)
			}
		}
		rcs = append(rcs, C16Case{LMTP: i%2 == 0, Body: b, Cuts: cuts, Reject: i%3 == 0})
	}
	h.ParallelFor(len(rcs), func(i int) {
		if f := evalC16(rcs[i]); f != nil {
			run.Violate("c16", rcs[i], f, nil)
		}
	})
	run.Counter("random_supplement", int64(len(rcs)))
	// bodies whose line ends fall on and around the 4096-octet boundaries of the client's write buffer, the neighbouring lines
	// each within the line limit but not together
	for _, shift := range []int{-2, -1, 0, 1, 2} {
		l3 := 4095 - 3004 + shift
		body := []byte(strings.Repeat("a", 1500) + "\r\n" + strings.Repeat("b", 1500) + "\r\n" + strings.Repeat("c", l3) + "\r\n" + strings.Repeat("d", 1500) + "\r\n.e\r\n" + strings.Repeat("f", 1990) + "\r\n")
		for _, lmtp := range []bool{false, true} {
			for _, cuts := range [][]int{nil, {4096}, {4095}, {1000, 5000}} {
				c := C16Case{LMTP: lmtp, Body: body, Cuts: cuts, Env: 0}
				f := evalC16(c)
				run.Eval(true)
				if f != nil {
					c.Show = fmt.Sprintf("4 lines with a line end at octet %d", 4095+shift)
					run.Violate("c16", c, f, func() *h.Finding { return evalC16(c) })
					run.Outcome("violation:" + f.Sig)
				}
			}
		}
	}
	// a slow sender against a server with a write timeout: the transfer takes many times WriteTimeout, the verdict
	// for the message arrives all the same (a write deadline belongs to one write, not to the command)
	for _, body := range []string{"one line\r\n", "a\r\n.b\r\n..\r\nc", "x\ny\n.\nz\r\n"} {
		for _, lmtp := range []bool{false, true} {
			for _, rej := range []bool{false, true} {
				for _, cuts := range [][]int{nil, {-1}, {3}} {
					c := C16Case{LMTP: lmtp, Body: []byte(body), Cuts: cuts, Reject: rej, Env: 0, Slow: true}
					f := evalC16(c)
					run.Eval(true)
					if f != nil {
						c.Show = fmt.Sprintf("%q", body)
						run.Violate("c16", c, f, func() *h.Finding { return evalC16(c) })
						run.Outcome("violation:" + f.Sig)
					}
				}
			}
		}
	}
	// long sessions
	var lcs []C16LongCase
	for _, lmtp := range []bool{false, true} {
		lcs = append(lcs, C16LongCase{LMTP: lmtp, Messages: 12, Rcpts: 3, Lines: 5}, C16LongCase{LMTP: lmtp, Messages: 2, Rcpts: 60, Lines: 2}, C16LongCase{LMTP: lmtp, Messages: 3, Rcpts: 2, Lines: 400}, C16LongCase{LMTP: lmtp, Messages: 40, Rcpts: 1, Lines: 1})
	}
	h.ParallelFor(len(lcs), func(i int) {
		f := evalC16Long(lcs[i])
		run.Eval(true)
		if f != nil {
			run.Violate("c16-long", lcs[i], f, func() *h.Finding { return evalC16Long(lcs[i]) })
		}
	})
	// the connection ends or falls silent in the middle of an answer (checks/c17.go)
	run.Rule += clientFaultRule
	clientFaultFamily(run, "C16")
	// histories of client calls (explicit-state search, checks/clientbfs.go)
	run.Rule += clientSearchRule
	clientSearch(run, "C16", 0)
	return run.Finish()
}
