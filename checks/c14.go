package checks

import (
	"fmt"
	"strings"
	"time"
	_ "time/tzdata" // the zone database, so that the check does not depend on the host's
	"unicode/utf8"

	"github.com/emersion/go-sasl"
	smtp "github.com/emersion/go-smtp"
	"verif/h"
)

var _ sasl.Client = goodClient{}

// C14: envelope and options survive the client-to-server trip unchanged.

type C14Case struct {
	Field string `json:"field"` // envid | auth | orcpt-rfc822 | orcpt-utf8 | mailopts | rcptopts | address
	Value string `json:"value"`
	Show  string `json:"show"`
	UTF8  bool   `json:"utf8"` // server advertises SMTPUTF8 (selects unitext for utf-8 ORCPT)
	Mail  *MailO `json:"mail,omitempty"`
	Rcpt  *RcptO `json:"rcpt,omitempty"`
	TLS   bool   `json:"tls,omitempty"`
	// Route: what happened on the connection before the judged transaction: "" nothing | "second" an earlier
	// transaction with every option set to other values, then Reset | "auth-second" the same after a successful Auth
	Route string `json:"route,omitempty"`
	// Limit: the server's MaxMessageBytes (0: none); a declared Size up to the limit is legal there
	Limit int64 `json:"limit,omitempty"`
	// To: the recipient address to use with an ORCPT value ("" = the plain ASCII one)
	To string `json:"to,omitempty"`
}

// goodClient authenticates with the backend's one-step mechanism.
type goodClient struct{}

func (goodClient) Start() (string, []byte, error) { return "ONE", []byte("good"), nil }
func (goodClient) Next([]byte) ([]byte, error)    { return nil, nil }

type MailO struct {
	Size       int64
	RequireTLS bool
	UTF8       bool
	Return     string
	EnvelopeID string
	Auth       *string
}
type RcptO struct {
	Notify []string
	OType  string
	ORcpt  string
	RRVS   string // RFC3339 or ""
	Zone   string // IANA zone the time.Time given to the client is in ("" = the fixed offset of the text)
}

func printable(s string) bool {
	for i := 0; i < len(s); i++ {
		if s[i] < 32 || s[i] > 126 {
			return false
		}
	}
	return true
}

// c14Judged: is the value inside the domain the statement speaks about?
func c14Judged(field, v string) bool {
	if !utf8.ValidString(v) {
		return false
	}
	switch field {
	case "envid", "orcpt-rfc822":
		return printable(v) // xtext: 7-bit printable text
	case "auth":
		// a mailbox-shaped printable ASCII string: atext local part, our fixed domain
		if !printable(v) {
			return false
		}
		i := strings.LastIndexByte(v, '@')
		if i <= 0 {
			return false
		}
		local := v[:i]
		for k := 0; k < len(local); k++ {
			c := local[k]
			ok := c >= 'a' && c <= 'z' || c >= 'A' && c <= 'Z' || c >= '0' && c <= '9' || strings.IndexByte("!#$%&'*+-/=?^_`{|}~.", c) >= 0
			if !ok {
				return false
			}
		}
		return v[i+1:] == "d.example"
	case "orcpt-utf8":
		// printable ASCII, DEL, non-ASCII UTF-8
		for _, r := range v {
			if r < 32 {
				return false
			}
		}
		return true
	}
	return true
}

func evalC14(c C14Case) (*h.Finding, string) {
	var f *h.Finding
	outcome := ""
	desc := fmt.Sprintf("field=%s value=%q serverUTF8=%t", c.Field, c.Value, c.UTF8)
	cfg := h.Config{DSN: true, RRVS: true, RequireTLS: true, BinaryMIME: true, UTF8: c.UTF8, AllowInsecureAuth: true, MaxMessageBytes: c.Limit}
	be := &h.Backend{Auth: true, Mechs: saslMechs, NewSASL: newSASL}
	greetRefused := 0
	if strings.HasPrefix(c.Route, "greeting-refused-") {
		// the backend refuses the FIRST greeting of the connection with that code and accepts every later one
		fmt.Sscanf(c.Route, "greeting-refused-%d", &greetRefused)
		first := true
		be.Override = func(kind, arg string) (error, bool) {
			if kind == "NewSession" && first {
				first = false
				return &smtp.SMTPError{Code: greetRefused, EnhancedCode: smtp.EnhancedCode{greetRefused / 100, 3, 2}, Message: "not now"}, true
			}
			return nil, false
		}
	}
	var mo *smtp.MailOptions
	var ro *smtp.RcptOptions
	from, to := "ok@a.example", "ok@b.example"
	switch c.Field {
	case "envid":
		mo = &smtp.MailOptions{EnvelopeID: c.Value}
	case "auth":
		v := c.Value
		mo = &smtp.MailOptions{Auth: &v}
	case "orcpt-rfc822":
		ro = &smtp.RcptOptions{OriginalRecipientType: smtp.DSNAddressTypeRFC822, OriginalRecipient: c.Value}
	case "orcpt-utf8":
		ro = &smtp.RcptOptions{OriginalRecipientType: smtp.DSNAddressTypeUTF8, OriginalRecipient: c.Value}
		if c.To != "" {
			to = c.To
			desc += fmt.Sprintf(" to=%q", to)
		}
	case "mailopts":
		mo = &smtp.MailOptions{Size: c.Mail.Size, RequireTLS: c.Mail.RequireTLS, UTF8: c.Mail.UTF8, Return: smtp.DSNReturn(c.Mail.Return), EnvelopeID: c.Mail.EnvelopeID, Auth: c.Mail.Auth}
		desc = fmt.Sprintf("MailOptions=%+v auth=%v tls=%t serverUTF8=%t", *c.Mail, strp(c.Mail.Auth), c.TLS, c.UTF8)
	case "rcptopts":
		ro = &smtp.RcptOptions{OriginalRecipientType: smtp.DSNAddressType(c.Rcpt.OType), OriginalRecipient: c.Rcpt.ORcpt}
		for _, n := range c.Rcpt.Notify {
			ro.Notify = append(ro.Notify, smtp.DSNNotify(n))
		}
		if c.Rcpt.RRVS != "" {
			t, err := time.Parse(time.RFC3339Nano, c.Rcpt.RRVS)
			if err != nil {
				return h.F("harness-error", "bad time %q", c.Rcpt.RRVS), ""
			}
			if c.Rcpt.Zone != "" {
				// the same instant as a time.Time in a real zone with daylight-saving rules
				if loc, err := time.LoadLocation(c.Rcpt.Zone); err == nil {
					t = t.In(loc)
				}
			}
			ro.RequireRecipientValidSince = t
		}
		desc = fmt.Sprintf("RcptOptions=%+v serverUTF8=%t", *c.Rcpt, c.UTF8)
	case "address":
		from, to = c.Value, c.Value
		if !printable(c.Value) {
			mo = &smtp.MailOptions{UTF8: true}
		}
	}
	if c.Route != "" || c.Limit != 0 {
		desc += fmt.Sprintf(" route=%q serverlimit=%d", c.Route, c.Limit)
	}
	var mailErr, rcptErr, preErr error
	n0 := 0
	leak, pan := h.Bubble(func() {
		h.WithRealServer(cfg, be, c.TLS, func(cs *h.CS) {
			cl := cs.Client
			if c.Route != "" && c.Route != "same-pointer" && greetRefused == 0 {
				if c.Route == "auth-second" {
					if preErr = cl.Auth(goodClient{}); preErr != nil {
						return
					}
				}
				prevAuth := "prev@p.example"
				if preErr = cl.Mail("ok@prev.example", &smtp.MailOptions{Size: 5, Return: smtp.DSNReturnHeaders, EnvelopeID: "prev", Auth: &prevAuth, UTF8: c.UTF8, RequireTLS: c.TLS}); preErr != nil {
					return
				}
				if preErr = cl.Rcpt("ok@prevr.example", &smtp.RcptOptions{Notify: []smtp.DSNNotify{smtp.DSNNotifyDelayed}, OriginalRecipientType: smtp.DSNAddressTypeRFC822, OriginalRecipient: "prev@o.example", RequireRecipientValidSince: time.Unix(1e9, 0)}); preErr != nil {
					return
				}
				if preErr = cl.Reset(); preErr != nil {
					return
				}
				n0 = len(be.Trace())
			}
			if c.Route == "same-pointer" && mo != nil && mo.Auth != nil {
				// a caller that keeps ONE MailOptions value (and one string behind Auth) for all its messages and only
				// changes the string: the first message goes out with another identity, no Reset in between
				want := *mo.Auth
				authVar := "prev@p.example"
				mo.Auth = &authVar
				if preErr = cl.Mail("ok@prev.example", mo); preErr != nil {
					return
				}
				if preErr = cl.Rcpt("ok@prevr.example", nil); preErr != nil {
					return
				}
				w, err := cl.Data()
				if err != nil {
					preErr = err
					return
				}
				w.Write([]byte("first message\r\n"))
				if preErr = w.Close(); preErr != nil {
					return
				}
				n0 = len(be.Trace())
				authVar = want
			}
			mailErr = cl.Mail(from, mo)
			if mailErr != nil {
				return
			}
			rcptErr = cl.Rcpt(to, ro)
		})
	})
	if pan != "" {
		return h.F("c14-harness-panic", "%s: %s", desc, pan), ""
	}
	if leak != "" {
		return h.F("c14-deadlock", "%s: %.200s", desc, leak), ""
	}
	if preErr != nil {
		return h.F("c14-earlier-transaction", "%s: the earlier transaction on the connection failed: %v", desc, preErr), ""
	}
	var mail, rcpt *h.Event
	tr := be.Trace()[n0:]
	for i := range tr {
		switch tr[i].Kind {
		case "Mail":
			mail = &tr[i]
		case "Rcpt":
			rcpt = &tr[i]
		}
	}
	judged := c14Judged(c.Field, c.Value)
	refusedBy := func(err error) string {
		if _, ok := err.(*smtp.SMTPError); ok {
			return "server"
		}
		return "client"
	}
	wantMail := smtp.MailOptions{}
	if mo != nil {
		wantMail = *mo
	}
	wantMail.Body = smtp.Body8BitMIME // the client always adds BODY=8BITMIME when it is offered
	wantMailStr := h.MailOptsString(&wantMail)
	wantRcpt := smtp.RcptOptions{}
	if ro != nil {
		wantRcpt = *ro
	}
	if len(wantRcpt.Notify) == 0 {
		wantRcpt.Notify = nil
	}
	// RRVS is preserved "to the second": a fraction of a second is dropped, never rounded up into the next second
	wantRcpt.RequireRecipientValidSince = wantRcpt.RequireRecipientValidSince.Truncate(time.Second)
	wantRcptStr := h.RcptOptsString(&wantRcpt)
	if wantRcpt.OriginalRecipient == "" {
		// an empty address means "no ORCPT"; the type alone is not transmitted
		wr := wantRcpt
		wr.OriginalRecipientType = ""
		wantRcptStr = h.RcptOptsString(&wr)
	}
	if c.Field == "envid" && c.Value == "" {
		judged = true
	}
	switch {
	case mailErr != nil:
		who := refusedBy(mailErr)
		outcome = "mail-refused-by-" + who
		if who == "server" && judged && greetRefused == 0 {
			return h.F("c14-server-refused", "%s: the client accepted the value but the server refused its own client's encoding: %v", desc, mailErr), outcome
		}
	case mail == nil:
		return h.F("c14-no-mail", "%s: no Mail callback", desc), outcome
	default:
		if (mail.Arg != from || mail.Opts != wantMailStr) && judged {
			return h.F("c14-mail-differs", "%s: backend saw from=%q {%s}, the client was given from=%q {%s}", desc, mail.Arg, mail.Opts, from, wantMailStr), "differs"
		}
		if rcptErr != nil {
			who := refusedBy(rcptErr)
			outcome = "rcpt-refused-by-" + who
			if who == "server" && judged {
				return h.F("c14-server-refused", "%s: the client accepted the value but the server refused its own client's encoding: %v", desc, rcptErr), outcome
			}
		} else if rcpt == nil {
			return h.F("c14-no-rcpt", "%s: no Rcpt callback", desc), outcome
		} else if (rcpt.Arg != to || rcpt.Opts != wantRcptStr) && judged {
			return h.F("c14-rcpt-differs", "%s: backend saw to=%q {%s}, the client was given to=%q {%s}", desc, rcpt.Arg, rcpt.Opts, to, wantRcptStr), "differs"
		} else {
			outcome = "identical"
		}
	}
	if !judged {
		outcome = "unjudged:" + outcome
	}
	return f, outcome
}

func strp(p *string) string {
	if p == nil {
		return "nil"
	}
	return fmt.Sprintf("%q", *p)
}

func init() {
	h.RegisterReplayer("c14", func(c C14Case) *h.Finding { f, _ := evalC14(c); return f })
	h.RegisterReplayer("c14-codec", func(c C14Codec) *h.Finding { return evalC14Codec(c) })
}

type C14Codec struct {
	Codec string `json:"codec"` // xtext | utf8-xtext | utf8-unitext
	S     string `json:"s"`
}

func evalC14Codec(c C14Codec) (f *h.Finding) {
	defer func() {
		if p := recover(); p != nil {
			f = h.F("c14-codec-panic", "%s codec panicked on %q: %v", c.Codec, c.S, p)
		}
	}()
	var enc string
	var dec string
	var err error
	switch c.Codec {
	case "xtext":
		enc = smtp.VerifEncodeXtext(c.S)
		dec, err = smtp.VerifDecodeXtext(enc)
	case "utf8-xtext":
		enc = smtp.VerifEncodeUTF8AddrXtext(c.S)
		dec, err = smtp.VerifDecodeUTF8AddrXtext(enc)
	case "utf8-unitext":
		enc = smtp.VerifEncodeUTF8AddrUnitext(c.S)
		dec, err = smtp.VerifDecodeUTF8AddrXtext(enc)
	}
	if err != nil || dec != c.S {
		return h.F("c14-codec-"+c.Codec, "%s: decode(encode(%q)) = %q, %v (encoded form %q)", c.Codec, c.S, dec, err, enc)
	}
	for i := 0; i < len(enc); i++ {
		if enc[i] <= 32 || enc[i] == 127 || (c.Codec != "utf8-unitext" && enc[i] > 126) {
			return h.F("c14-codec-"+c.Codec+"-raw", "%s: the encoded form of %q contains the raw octet %#x: %q", c.Codec, c.S, enc[i], enc)
		}
	}
	return nil
}

var c14Alphabet = []string{"+", "=", " ", "\\", "{", "}", "x", "0", "9", "A", "F", "\x7f", "é", "€", "😀", "a", "@", "."}

func C14(tier string) int {
	run := h.NewRun("C14", tier, "exploration", "", 25*time.Minute)
	strLen, asciiLen := 3, 2
	wireScalarsTo := rune(0x2fff)
	if tier == "thorough" {
		strLen, asciiLen = 4, 3
		wireScalarsTo = 0x10ffff
	}
	run.Rule = fmt.Sprintf("(a) codec pairs called directly: decodeXtext(encodeXtext(s)) for ALL strings of <=%d octets over the 128 ASCII octets; utf-8-addr-xtext and -unitext pairs for EVERY Unicode scalar value individually; (b) over the wire (real Client.Mail/Rcpt -> real server, all extensions on, SMTPUTF8 on/off): ALL strings of <=%d symbols over %q as EnvelopeID, Auth (with '@d.example' appended), ORCPT rfc822 and ORCPT utf-8; every scalar up to U+%X (and every UTF-8 length / surrogate boundary +-2) inside a utf-8 ORCPT; (c) option subsets: all 2^4 NOTIFY subsets in two orders, RET, SIZE {0,1,2^31}, SMTPUTF8, REQUIRETLS over implicit TLS, RRVS times with zones and with fractions of a second, a backend that refuses the first greeting with one of nine codes, Auth nil / empty / mailbox, address forms; every option subset with an Auth identity also as the second message of a caller that reuses ONE MailOptions value and one string behind Auth (no Reset in between); every option subset also as the SECOND transaction of a connection (after a transaction with other values and Reset, with and without a successful AUTH before it) and, for SIZE, against a server whose limit is exactly that size or one more. Distinct by construction; non-trivial = value in the judged domain (printable ASCII; for utf-8 ORCPT also DEL and non-ASCII; for Auth mailbox-shaped ASCII). Oracle: options seen by Session.Mail/Rcpt == options given; 'refused locally by the client' is fine, 'refused by the server' or 'different' is a violation inside the judged domain.", asciiLen, strLen, c14Alphabet, wireScalarsTo)
	run.Assumptions = []string{"Body is excluded: the client documents that it always sends BODY=8BITMIME", "RRVS compared to the second", "values outside the judged domain (control characters, non-ASCII in xtext fields, non-mailbox Auth) are executed but only counted"}

	// (a) codec pairs
	var ascii []byte
	for i := 0; i < 128; i++ {
		ascii = append(ascii, byte(i))
	}
	n1 := pow(128, asciiLen-1)
	h.ParallelFor(128, func(first int) {
		for l := 0; l < asciiLen; l++ {
			cnt := pow(128, l)
			for i := 0; i < cnt; i++ {
				s := string(append([]byte{byte(first)}, nthString(ascii, l, i)...))
				c := C14Codec{Codec: "xtext", S: s}
				run.Eval(true)
				if f := evalC14Codec(c); f != nil {
					run.Violate("c14-codec", c, f, nil)
					run.Outcome("violation:" + f.Sig)
				}
			}
		}
		_ = n1
	})
	run.Eval(true)
	if f := evalC14Codec(C14Codec{Codec: "xtext", S: ""}); f != nil {
		run.Violate("c14-codec", C14Codec{Codec: "xtext"}, f, nil)
	}
	h.ParallelFor(0x110, func(blk int) {
		for r := rune(blk << 12); r < rune((blk+1)<<12) && r <= 0x10ffff; r++ {
			if r >= 0xd800 && r <= 0xdfff {
				continue
			}
			for _, codec := range []string{"utf8-xtext", "utf8-unitext"} {
				c := C14Codec{Codec: codec, S: "a" + string(r) + "b"}
				run.Eval(r >= 32)
				if f := evalC14Codec(c); f != nil && r >= 32 {
					run.Violate("c14-codec", c, f, nil)
					run.Outcome("violation:" + f.Sig)
				}
			}
		}
	})
	run.Outcome("codec-ok")

	// (b) strings over the wire
	var cases []C14Case
	var strs []string
	var rec func(cur string, n int)
	rec = func(cur string, n int) {
		strs = append(strs, cur)
		if n == strLen {
			return
		}
		for _, a := range c14Alphabet {
			rec(cur+a, n+1)
		}
	}
	rec("", 0)
	for _, s := range strs {
		cases = append(cases, C14Case{Field: "envid", Value: s, UTF8: true})
		cases = append(cases, C14Case{Field: "auth", Value: s + "@d.example", UTF8: true})
		cases = append(cases, C14Case{Field: "orcpt-rfc822", Value: s, UTF8: true})
		cases = append(cases, C14Case{Field: "orcpt-utf8", Value: s, UTF8: true})
		cases = append(cases, C14Case{Field: "orcpt-utf8", Value: s, UTF8: false})
	}
	addScalar := func(r rune) {
		if r < 0 || r > 0x10ffff || (r >= 0xd800 && r <= 0xdfff) {
			return
		}
		v := "u" + string(r) + "@d.example"
		cases = append(cases, C14Case{Field: "orcpt-utf8", Value: v, UTF8: true}, C14Case{Field: "orcpt-utf8", Value: v, UTF8: false})
		if r >= 0x80 {
			// the scalar as the last character of the line (ORCPT is the last parameter)
			cases = append(cases, C14Case{Field: "orcpt-utf8", Value: "u@d.example" + string(r), UTF8: true})
		}
	}
	for r := rune(0); r <= wireScalarsTo; r++ {
		addScalar(r)
	}
	for _, b := range []rune{0x7f, 0x80, 0x7ff, 0x800, 0xfff, 0x1000, 0xd7ff, 0xe000, 0xffff, 0x10000, 0xfffff, 0x100000, 0x10ffff} {
		for d := rune(-2); d <= 2; d++ {
			if b+d > wireScalarsTo {
				addScalar(b + d)
			}
		}
	}
	// (c) option subsets
	notify := []string{"NEVER", "SUCCESS", "FAILURE", "DELAY"}
	for mask := 0; mask < 16; mask++ {
		var set, rev []string
		for i, n := range notify {
			if mask&(1<<i) != 0 {
				set = append(set, n)
				rev = append([]string{n}, rev...)
			}
		}
		for _, s := range [][]string{set, rev} {
			for _, rrvs := range []string{"", "2014-04-03T23:01:00Z", "1999-12-31T23:59:59+05:30", "2030-06-01T00:00:00-08:00"} {
				for _, oc := range []struct{ t, a string }{{"", ""}, {"RFC822", "orig@o.example"}, {"UTF-8", "orig+é@o.example"}} {
					cases = append(cases, C14Case{Field: "rcptopts", UTF8: mask%2 == 0, Rcpt: &RcptO{Notify: s, OType: oc.t, ORcpt: oc.a, RRVS: rrvs}})
					cases = append(cases, C14Case{Field: "rcptopts", UTF8: mask%2 == 0, Rcpt: &RcptO{Notify: s, OType: oc.t, ORcpt: oc.a, RRVS: rrvs}, Route: "auth-second"})
				}
			}
		}
	}
	// RRVS with a fraction of a second (time.Now() has one): preserved to the second means the fraction is dropped
	for _, rrvs := range []string{"2014-04-03T23:01:00.4Z", "2014-04-03T23:01:00.5Z", "2014-04-03T23:01:00.999999999Z", "1999-12-31T23:59:59.6Z", "1999-12-31T23:59:59.500000001+05:30", "2030-06-01T00:00:00.000000001-08:00"} {
		cases = append(cases, C14Case{Field: "rcptopts", UTF8: true, Rcpt: &RcptO{RRVS: rrvs}}, C14Case{Field: "rcptopts", UTF8: false, Rcpt: &RcptO{Notify: []string{"FAILURE"}, RRVS: rrvs}, Route: "auth-second"})
	}
	// a backend that refuses the first greeting of a connection (whatever the client does about it - give up, or
	// greet again some other way): an envelope the client then ACCEPTS must still arrive with every option
	for _, code := range []int{421, 450, 451, 501, 503, 504, 521, 550, 554} { // (not 500/502: for those the client falls back to HELO by design, and a HELO server offers no extension)
		box2 := "auth+id@d.example"
		route := fmt.Sprintf("greeting-refused-%d", code)
		cases = append(cases,
			C14Case{Field: "mailopts", UTF8: true, Mail: &MailO{Size: 1000, Return: "HDRS", EnvelopeID: "QQ314159", Auth: &box2}, Route: route},
			C14Case{Field: "mailopts", UTF8: true, Mail: &MailO{UTF8: true}, Route: route},
			C14Case{Field: "rcptopts", UTF8: true, Rcpt: &RcptO{Notify: []string{"FAILURE", "DELAY"}, OType: "RFC822", ORcpt: "orig@o.example", RRVS: "2014-04-03T23:01:00Z"}, Route: route})
	}
	empty, box := "", "auth+id@d.example"
	for _, size := range []int64{0, 1, 1 << 31} {
		for _, ret := range []string{"", "FULL", "HDRS"} {
			for _, envid := range []string{"", "QQ314159", "a+b=c d"} {
				for _, auth := range []*string{nil, &empty, &box} {
					for _, u8 := range []bool{false, true} {
						for _, rtls := range []bool{false, true} {
							m := &MailO{Size: size, RequireTLS: rtls, UTF8: u8, Return: ret, EnvelopeID: envid, Auth: auth}
							cases = append(cases, C14Case{Field: "mailopts", UTF8: true, TLS: rtls, Mail: m})
							for _, route := range []string{"second", "auth-second"} {
								cases = append(cases, C14Case{Field: "mailopts", UTF8: true, TLS: rtls, Mail: m, Route: route})
							}
							if auth != nil {
								cases = append(cases, C14Case{Field: "mailopts", UTF8: true, TLS: rtls, Mail: m, Route: "same-pointer"})
							}
							if size > 0 {
								// a server with a size limit: a declared size up to the limit is legal
								cases = append(cases, C14Case{Field: "mailopts", UTF8: true, TLS: rtls, Mail: m, Limit: size}, C14Case{Field: "mailopts", UTF8: true, TLS: rtls, Mail: m, Limit: size + 1})
							}
						}
					}
				}
			}
		}
	}
	for _, a := range []string{"simple@d.example", "user+tag@sub.d.example", "a.b.c@d.example", "x@[192.0.2.1]", "pelé@exämple.example", "日本@例え.example", "!#$%&'*+-/=?^_`{|}~@d.example",
		"user@d.example.", "UPPER.lower@D.Example", "a@b", "x@[IPv6:2001:db8::1]", "1234567890@0.example", "a-b_c@d-e.example"} {
		cases = append(cases, C14Case{Field: "address", Value: a, UTF8: true})
	}
	// long values (the xtext form of a value can be three times as long as the value)
	for _, v := range []string{strings.Repeat("+", 34), strings.Repeat("a=b c+", 16), strings.Repeat("x", 98) + "==", strings.Repeat("id ", 33), strings.Repeat("é", 50), strings.Repeat("k", 100), strings.Repeat("=", 100), strings.Repeat("q+", 150), strings.Repeat("z", 500)} {
		cases = append(cases, C14Case{Field: "envid", Value: v, UTF8: true}, C14Case{Field: "orcpt-rfc822", Value: v + "@o.example", UTF8: true}, C14Case{Field: "orcpt-utf8", Value: v + "@o.example", UTF8: true}, C14Case{Field: "orcpt-utf8", Value: v + "@o.example", UTF8: false})
		if len(v) <= 64 {
			cases = append(cases, C14Case{Field: "auth", Value: v + "@d.example", UTF8: true})
		}
	}
	// non-ASCII mailboxes whose UTF-8 contains the octets 0x85 / 0xA0 and other continuation octets
	for _, a := range []string{"info@università.example", "jan@książka.example", "x@慠.example", "àą@d.example", "Å@Åland.example"} {
		cases = append(cases, C14Case{Field: "address", Value: a, UTF8: true})
	}
	// RRVS times in real zones with daylight saving, in the hour that occurs twice (both passes) and the hour that does not
	// exist, and with odd offsets
	for _, z := range []struct{ zone, local string }{{"Europe/Berlin", "2021-10-31T02:30:00"}, {"America/New_York", "2021-11-07T01:30:00"}, {"Europe/Berlin", "2021-03-28T03:30:00"}, {"Asia/Kathmandu", "2021-06-01T12:00:00"}, {"Australia/Lord_Howe", "2021-04-04T01:45:00"}} {
		loc, err := time.LoadLocation(z.zone)
		if err != nil {
			continue
		}
		t0, _ := time.ParseInLocation("2006-01-02T15:04:05", z.local, loc)
		for _, t := range []time.Time{t0, t0.Add(time.Hour), t0.Add(-time.Hour), t0.Add(30 * time.Minute)} {
			cases = append(cases, C14Case{Field: "rcptopts", UTF8: true, Rcpt: &RcptO{RRVS: t.Format(time.RFC3339), Zone: z.zone}})
		}
	}
	// the decoded AUTH identity goes through the same mailbox parser as the paths
	for _, a := range []string{"user@d.example.", "UPPER.lower@D.Example"} {
		v := a
		cases = append(cases, C14Case{Field: "mailopts", UTF8: true, Mail: &MailO{Auth: &v}})
	}
	// a non-ASCII recipient together with a non-ASCII utf-8 ORCPT, on servers with and without SMTPUTF8
	for _, v := range []string{"orig+é@o.example", "пользователь@пример.example", "a b@o.example"} {
		for _, u8 := range []bool{true, false} {
			cases = append(cases, C14Case{Field: "orcpt-utf8", Value: v, UTF8: u8, To: "pelé@b.example"}, C14Case{Field: "orcpt-utf8", Value: v, UTF8: u8, To: "ok@exämple.example"})
		}
	}
	h.ParallelFor(len(cases), func(i int) {
		if i%64 == 0 && run.Expired() {
			return
		}
		if run.Expired() {
			return
		}
		c := cases[i]
		f, out := evalC14(c)
		run.Eval(!strings.HasPrefix(out, "unjudged"))
		if f != nil {
			c.Show = fmt.Sprintf("%q", c.Value)
			run.Violate("c14", c, f, func() *h.Finding { g, _ := evalC14(c); return g })
			run.Outcome("violation:" + f.Sig)
		} else {
			run.Outcome(c.Field + ":" + out)
		}
		if i%7919 == 11 {
			run.Sample("case", 8, map[string]interface{}{"field": c.Field, "value": fmt.Sprintf("%q", c.Value), "server_utf8": c.UTF8})
		}
	})
	// histories of client calls (explicit-state search, checks/clientbfs.go)
	run.Rule += clientSearchRule
	clientSearch(run, "C14", 0)
	return run.Finish()
}
