package checks

import (
	"bytes"
	"fmt"
	"strings"
	"time"

	"verif/h"
)

// C05: BDAT chunks are framed by octet count and delivered binary-transparent.

type C05Case struct {
	Mode      string `json:"mode"`
	State     string `json:"state"` // ok | nomail | norcpt | badlast | overlimit | overlimit2 | malformed
	Msg       []byte `json:"msg"`
	Show      string `json:"show"`
	Chunks    []int  `json:"chunks"` // chunk sizes; the last carries LAST (state ok); refused states use one chunk
	Seg       string `json:"seg"`    // sep | pipe | one | octet
	LineLimit int    `json:"line_limit"`
	BadCmd    string `json:"bad_cmd,omitempty"`  // state malformed: the BDAT line to send (no payload)
	LastTok   string `json:"last_tok,omitempty"` // spelling of the LAST token ("" = LAST); RFC 3030: case-insensitive
	// WithErr: the connection returns its last octets TOGETHER with io.EOF (one Read with n > 0 and an error)
	WithErr bool `json:"with_err,omitempty"`
	// Helo: the client greets with HELO (mode smtp): BDAT is framed by its octet count all the same - accepted or
	// refused, the chunk is never executed
	Helo bool `json:"helo,omitempty"`
}

// payload of the second message of the "ok" conversations
const c05Second = "2nd\x00\r\n.\r\nQUIT\r\n\xff"

type part struct {
	b       []byte
	payload bool
	group   int // pipelining group ("pipe" segmentation keeps a group in one segment)
}

// c05Build returns the conversation parts, the server configuration and the
// expected reply classes/codes ("5xx" = any 5xx).
func c05Build(c C05Case) (parts []part, cfg h.Config, be *h.Backend, want []string) {
	cfg, be = modeConfig(c.Mode)
	cfg.MaxLineLength = c.LineLimit
	g := 0
	cmd := func(s string) { parts = append(parts, part{b: []byte(s + "\r\n"), group: g}) }
	pay := func(b []byte) {
		if len(b) > 0 {
			parts = append(parts, part{b: b, payload: true, group: g})
		}
	}
	want = []string{"220"}
	if c.Helo {
		cmd("HELO c.example")
	} else {
		cmd(strings.TrimSuffix(hello(c.Mode), "\r\n"))
	}
	want = append(want, "250")
	switch c.State {
	case "ok":
		if c.Seg == "pipe" {
			// a size limit that each of the two messages fits, but not both together: the count is per message
			cfg.MaxMessageBytes = int64(len(c.Msg))
			if cfg.MaxMessageBytes < int64(len(c05Second)) {
				cfg.MaxMessageBytes = int64(len(c05Second))
			}
		}
		cmd("MAIL FROM:<ok@a.example>")
		cmd("RCPT TO:<ok@b.example>")
		want = append(want, "250", "250")
		off := 0
		for i, k := range c.Chunks {
			g++
			last := i == len(c.Chunks)-1
			if last {
				tok := c.LastTok
				if tok == "" {
					tok = "LAST"
				}
				cmd(fmt.Sprintf("BDAT %d %s", k, tok))
			} else {
				cmd(fmt.Sprintf("BDAT %d", k))
			}
			pay(c.Msg[off : off+k])
			off += k
			cmd("NOOP")
			want = append(want, "250", "250")
		}
		g++
		cmd("MAIL FROM:<okmark@x>")
		cmd("NOOP")
		want = append(want, "250", "250")
		// a second chunked message on the same connection: nothing of the first transfer may linger
		g++
		cmd("RCPT TO:<ok@b2.example>")
		cmd(fmt.Sprintf("BDAT %d", 3))
		pay([]byte(c05Second[:3]))
		cmd(fmt.Sprintf("BDAT %d LAST", len(c05Second)-3))
		pay([]byte(c05Second[3:]))
		cmd("NOOP")
		want = append(want, "250", "250", "250", "250")
	case "nomail", "norcpt", "nomail2", "norcpt2", "badlast", "overlimit", "overlimit2":
		k := len(c.Msg)
		if strings.HasSuffix(c.State, "2") && c.State != "overlimit2" {
			// the same refusal in the SECOND transaction of the connection: that the first one had an envelope and was
			// delivered gives this one neither a sender nor a recipient
			cmd("MAIL FROM:<ok@a0.example>")
			cmd("RCPT TO:<ok@b0.example>")
			g++
			cmd("BDAT 2 LAST")
			pay([]byte("zz"))
			want = append(want, "250", "250", "250")
			g++
		}
		switch c.State {
		case "norcpt", "norcpt2":
			cmd("MAIL FROM:<ok@a.example>")
			cmd("RCPT TO:<rej@b.example>")
			want = append(want, "250", "550")
		case "badlast", "overlimit", "overlimit2":
			cmd("MAIL FROM:<ok@a.example>")
			cmd("RCPT TO:<ok@b.example>")
			want = append(want, "250", "250")
		}
		g++
		switch c.State {
		case "badlast":
			cmd(fmt.Sprintf("BDAT %d LSAT", k))
			want = append(want, "5xx")
		case "overlimit":
			cmd(fmt.Sprintf("BDAT %d LAST", k))
			if k < 2 {
				// a limit of k-1 < 1 cannot be configured (0 means none): accepted
				want = append(want, "250")
			} else {
				cfg.MaxMessageBytes = int64(k) - 1
				want = append(want, "552")
			}
		case "overlimit2":
			cfg.MaxMessageBytes = int64(k) + 1
			if k == 0 {
				cfg.MaxMessageBytes = 2
			}
			cmd("BDAT 2")
			pay([]byte("zz"))
			want = append(want, "250")
			g++
			cmd(fmt.Sprintf("BDAT %d LAST", k))
			if k == 0 {
				want = append(want, "250") // an empty last chunk does not exceed anything
			} else {
				want = append(want, "552")
			}
		default:
			cmd(fmt.Sprintf("BDAT %d LAST", k))
			want = append(want, "5xx")
		}
		pay(c.Msg)
		cmd("NOOP")
		want = append(want, "250")
		if (c.State == "overlimit" && k >= 2) || (c.State == "overlimit2" && k > 0) {
			// the refusal ended the transaction: a further chunk that would fit into what is left is refused
			// too (its payload skipped), and nothing is ever delivered as a complete message
			g++
			cmd("BDAT 1 LAST")
			pay([]byte("q"))
			cmd("NOOP")
			want = append(want, "5xx", "250")
		}
	case "earlyfail", "earlyfail-last":
		// the backend gives up without reading: the chunk is answered with its error, the rest of the
		// declared octets is skipped (binary-transparent, no line limit), the next command is parsed behind it
		be.Plan = func(int) h.DataPlan { return h.DataPlan{Max: 0, Verdict: h.RejErr("message"), KeepErr: true} }
		cmd("MAIL FROM:<ok@a.example>")
		cmd("RCPT TO:<ok@b.example>")
		cmd("RCPT TO:<ok2@b.example>")
		want = append(want, "250", "250", "250")
		g++
		if c.State == "earlyfail-last" {
			cmd(fmt.Sprintf("BDAT %d LAST", len(c.Msg)))
		} else {
			cmd(fmt.Sprintf("BDAT %d", len(c.Msg)))
		}
		pay(c.Msg)
		cmd("NOOP")
		switch {
		case len(c.Msg) == 0 && c.State == "earlyfail":
			want = append(want, "250", "250") // an empty chunk is copied before the backend's failure can show
		case c.State == "earlyfail-last" && strings.HasPrefix(c.Mode, "lmtp"):
			want = append(want, "550", "550", "250") // LMTP: the LAST chunk is answered once per recipient
		default:
			want = append(want, "550", "250") // every other BDAT command gets exactly one reply
		}
	case "padded-size":
		// a chunk size written with leading zeros is a decimal number like any other
		cmd("MAIL FROM:<ok@a.example>")
		cmd("RCPT TO:<ok@b.example>")
		want = append(want, "250", "250")
		g++
		cmd(fmt.Sprintf("BDAT %s", c.BadCmd)) // BadCmd carries the size as written, e.g. "010"
		pay(c.Msg[:len(c.Msg)/2])
		cmd(fmt.Sprintf("BDAT 00%d LAST", len(c.Msg)-len(c.Msg)/2))
		pay(c.Msg[len(c.Msg)/2:])
		cmd("NOOP")
		want = append(want, "250", "250", "250")
	case "odd-separator":
		// white space other than one SP between the arguments: the server may take it or refuse it, but it knows the
		// size and must not execute the chunk either way
		cmd("MAIL FROM:<ok@a.example>")
		cmd("RCPT TO:<ok@b.example>")
		want = append(want, "250", "250")
		g++
		cmd(c.BadCmd)
		pay(c.Msg)
		cmd("NOOP")
		want = append(want, "2xx|5xx", "250")
	case "malformed":
		cmd("MAIL FROM:<ok@a.example>")
		cmd("RCPT TO:<ok@b.example>")
		want = append(want, "250", "250")
		g++
		cmd(c.BadCmd)
		cmd("NOOP")
		want = append(want, "5xx", "250")
	case "malformed-later", "malformed-later-noenv":
		// the same malformed line BEHIND a delivered chunked message (whose declared sizes are history), inside a new
		// envelope or without one: one 5xx, and the NOOPs behind it are the next commands - no octet is skipped
		cmd("MAIL FROM:<ok@a0.example>")
		cmd("RCPT TO:<ok@b0.example>")
		g++
		cmd("BDAT 7")
		pay([]byte("earlier"))
		cmd("BDAT 5 LAST")
		pay([]byte(" one\n"))
		want = append(want, "250", "250", "250", "250")
		g++
		if c.State == "malformed-later" {
			cmd("MAIL FROM:<ok@a.example>")
			cmd("RCPT TO:<ok@b.example>")
			want = append(want, "250", "250")
			g++
		}
		cmd(c.BadCmd)
		cmd("NOOP")
		cmd("NOOP")
		cmd("NOOP")
		want = append(want, "5xx", "250", "250", "250")
	}
	return
}

func c05Segments(parts []part, seg string) [][]byte {
	var segs [][]byte
	switch seg {
	case "sep":
		var cur []byte
		for _, p := range parts {
			isBdat := bytes.HasPrefix(p.b, []byte("BDAT"))
			if p.payload || isBdat {
				if len(cur) > 0 {
					segs = append(segs, cur)
					cur = nil
				}
				segs = append(segs, p.b)
				continue
			}
			cur = append(cur, p.b...)
		}
		if len(cur) > 0 {
			segs = append(segs, cur)
		}
	case "pipe":
		var cur []byte
		g := -1
		for _, p := range parts {
			if p.group != g && len(cur) > 0 {
				segs = append(segs, cur)
				cur = nil
			}
			g = p.group
			cur = append(cur, p.b...)
		}
		if len(cur) > 0 {
			segs = append(segs, cur)
		}
	case "one", "octet":
		var all []byte
		for _, p := range parts {
			all = append(all, p.b...)
		}
		if seg == "one" {
			segs = h.OneSeg(all)
		} else {
			segs = h.PerOctet(all)
		}
	}
	return segs
}

// c05LimiterCountsPayload simulates the server's line-length limiter, which
// sits below the buffered reader and therefore counts every octet that
// arrives in a raw read made while a command line is awaited - including
// chunk payload that shares the read. It reports whether that limiter trips
// although no command line is over the limit (the sub-space of finding D6).
func c05LimiterCountsPayload(parts []part, seg string, limit int) bool {
	if limit <= 0 {
		return false
	}
	if seg == "octet" {
		return false // payload octets are read one by one while the limit is lifted
	}
	cur := 0
	for i, p := range parts {
		if p.payload && seg == "sep" {
			continue // read on its own, during the chunk copy, limit lifted
		}
		_ = i
		for _, ch := range p.b {
			if ch == '\n' {
				cur = 0
			}
			cur++
			if cur > limit {
				return true
			}
		}
	}
	return false
}

func evalC05(c C05Case) *h.Finding {
	parts, cfg, be, want := c05Build(c)
	segs := c05Segments(parts, c.Seg)
	cfg.FinalWithErr = c.WithErr
	o := h.RunS(cfg, be, segs, h.TermEOF)
	desc := fmt.Sprintf("mode=%s state=%s msg=%q chunks=%v seg=%s linelimit=%d cmd=%q lasttoken=%q", c.Mode, c.State, c.Msg, c.Chunks, c.Seg, c.LineLimit, c.BadCmd, c.LastTok)
	if f := o.Sanity("c05", desc); f != nil {
		return f
	}
	if strings.Contains(o.Log, "panic") {
		return h.F("c05-recovered-panic", "%s: recovered panic: %.300s", desc, o.Log)
	}
	if o.ParseErr != nil {
		return h.F("c05-bad-wire", "%s: %v", desc, o.ParseErr)
	}
	match := func(r string, code int) bool {
		if r == "5xx" {
			return code/100 == 5
		}
		if r == "2xx|5xx" {
			return code/100 == 5 || code/100 == 2
		}
		return r == fmt.Sprint(code)
	}
	// Known sub-space D6: the limiter counted payload octets.
	limit := c.LineLimit
	if limit == 0 {
		limit = 2000
	}
	for _, e := range o.Trace {
		if strings.Contains(e.Arg, "bait@") {
			return h.F("c05-payload-executed", "%s: chunk payload was executed as a command: backend saw %s(%s); replies %s", desc, e.Kind, e.Arg, o.Codes())
		}
	}
	okAll := len(o.Replies) == len(want)
	for i := 0; okAll && i < len(want); i++ {
		okAll = match(want[i], o.Replies[i].Code)
	}
	if !okAll {
		n := len(o.Replies)
		if n >= 1 && o.Replies[n-1].Code == 500 && o.Replies[n-1].Enh == "5.4.0" && n-1 <= len(want) {
			prefixOK := true
			for i := 0; i < n-1; i++ {
				prefixOK = prefixOK && match(want[i], o.Replies[i].Code)
			}
			if prefixOK && c05LimiterCountsPayload(parts, c.Seg, limit) {
				return h.F("linelimit-counts-bdat-payload", "%s: connection ended with '500 5.4.0 Too long line' although no command line is over the limit (replies %s, want %v)", desc, o.Codes(), want)
			}
		}
		return h.F("c05-replies", "%s: replies %s, want %v", desc, o.Codes(), want)
	}
	if c.State == "padded-size" {
		for _, e := range o.Trace {
			if (e.Kind == "Data" || e.Kind == "LMTPData") && (!bytes.Equal(e.Body, c.Msg) || e.ReadErr != "EOF") {
				return h.F("c05-body-differs", "%s: backend read %d octets (%s), want the %d octets of the two chunks", desc, len(e.Body), e.ReadErr, len(c.Msg))
			}
		}
	}
	if c.State == "ok" {
		var data []h.Event
		marks := 0
		for _, e := range o.Trace {
			if e.Kind == "Data" || e.Kind == "LMTPData" {
				data = append(data, e)
			}
			if e.Kind == "Mail" && e.Arg == "okmark@x" {
				marks++
			}
		}
		if len(data) != 2 {
			return h.F("c05-data-calls", "%s: %d Data calls, want 2 (the message and the follow-up message) (%s)", desc, len(data), h.Calls(o.Trace))
		}
		if string(data[1].Body) != c05Second || data[1].ReadErr != "EOF" {
			return h.F("c05-second-message", "%s: the follow-up message arrived as %q (%s), want %q then EOF", desc, data[1].Body, data[1].ReadErr, c05Second)
		}
		if !bytes.Equal(data[0].Body, c.Msg) {
			return h.F("c05-body-differs", "%s: backend read %q, want %q", desc, data[0].Body, c.Msg)
		}
		if data[0].ReadErr != "EOF" {
			return h.F("c05-no-eof", "%s: reader ended with %q", desc, data[0].ReadErr)
		}
		if marks != 1 {
			return h.F("c05-marker", "%s: marker command executed %d times", desc, marks)
		}
	} else if c.State == "padded-size" {
		// judged above
	} else if c.State == "odd-separator" {
		// taken (250, delivered as it is) or refused (5xx, skipped): the two must agree
		delivered := false
		for _, e := range o.Trace {
			if (e.Kind == "Data" || e.Kind == "LMTPData") && e.ReadErr == "EOF" {
				delivered = bytes.Equal(e.Body, c.Msg)
				if !delivered {
					return h.F("c05-body-differs", "%s: backend read %q, want %q", desc, e.Body, c.Msg)
				}
			}
		}
		n := len(o.Replies)
		if accepted := n >= 2 && o.Replies[n-2].Class() == 2; accepted != delivered {
			return h.F("c05-replies", "%s: the chunk was answered %s but delivered=%t", desc, o.Codes(), delivered)
		}
	} else if !(c.State == "overlimit" && len(c.Msg) < 2) && !(c.State == "overlimit2" && len(c.Msg) == 0) { // without a configurable limit below its size the chunk is accepted
		first := c.State == "nomail2" || c.State == "norcpt2" || strings.HasPrefix(c.State, "malformed-later") // these begin with a delivered message
		for _, e := range o.Trace {
			if (e.Kind == "Data" || e.Kind == "LMTPData") && e.ReadErr == "EOF" {
				if first && (string(e.Body) == "zz" || string(e.Body) == "earlier one\n") {
					first = false
					continue
				}
				return h.F("c05-refused-but-delivered", "%s: a refused transfer reached the backend as complete: %q", desc, e.Body)
			}
		}
	}
	return nil
}

func init() { h.RegisterReplayer("c05", evalC05) }

var c05Alphabet = []byte{'\r', '\n', '.', 0, 0xff, 'a'}

func C05(tier string) int {
	run := h.NewRun("C05", tier, "exploration", "", 25*time.Minute)
	maxLen, maxParts, refLen := 4, 3, 3
	if tier == "thorough" {
		maxLen, maxParts, refLen = 5, 4, 4
	}
	const lim = 50
	fixed := [][]byte{
		[]byte("\r\n.\r\n"), []byte("QUIT\r\n"), []byte("MAIL FROM:<bait@x>\r\n"), []byte("x\r\nMAIL FROM:<bait@x>\r\nRCPT TO:<bait@y>\r\n"),
		bytes.Repeat([]byte("a"), lim-1), bytes.Repeat([]byte("b"), lim+1), bytes.Repeat([]byte("c"), 3*lim),
		append(bytes.Repeat([]byte{0xfe}, lim+1), '\n'), append([]byte("\n"), bytes.Repeat([]byte("d"), lim+1)...),
	}
	run.Rule = fmt.Sprintf("messages = all strings of <=%d octets over {CR,LF,'.',NUL,0xFF,'a'} plus %d fixed payloads (CRLF.CRLF, command look-alikes, LF-free runs of line-limit-1, +1, x3 with the line limit set to %d) x every division into <=%d chunks (empty chunks, LAST on empty or non-empty) x segmentation {command/payload in separate segments, pipelined group per segment, everything in one segment, one octet per segment} x {SMTP, LMTP, LMTP per-recipient}; refused BDAT (no MAIL, all RCPT rejected - each also as the second transaction behind a delivered one -, bad LAST token, over the size limit on the first and on a later chunk) (each followed by a further chunk that would fit: refused as well) and a backend that fails without reading the chunk (two recipients: one reply per BDAT, one per recipient only for LMTP LAST) x payloads (all strings <=%d + fixed) x segmentations; malformed BDAT lines (also behind a delivered chunked message, with and without a new envelope: no octet is skipped for a line whose size does not parse); chunk sizes with leading zeros; chunks of 5000..150000 octets (beyond every internal buffer); BDAT lines with TAB / several spaces between the arguments, and BDAT from a client that greeted with HELO, with a bait chunk (taken or refused, never executed). Every accepted short conversation also with the last octets and io.EOF delivered by ONE Read (n > 0 together with an error, as crypto/tls does for a waiting close_notify). Distinct by construction; non-trivial = payload contains CR, LF, '.', NUL, 0xFF or is longer than the line limit, or the command is refused. every accepted conversation continues with a second two-chunk message (in the 'pipelined group' segmentation under a size limit that each message fits but not both together). Oracle: one Data call per message whose reader yields the concatenation then EOF; exactly the expected reply per command; markers executed once; no payload octet executed.", maxLen, len(fixed), lim, maxParts, refLen)
	run.Assumptions = []string{"payload octet classes {CR, LF, '.', NUL, 0xFF, other}", "known finding linelimit-counts-bdat-payload (DESIGN.md D6) is matched by signature AND by an independent simulation of the limiter's sub-space; any other mismatch is a violation"}
	var cases []C05Case
	modes := []string{"smtp", "lmtp", "lmtp-rcpt"}
	segsAll := []string{"sep", "pipe", "one", "octet"}
	addOK := func(msg []byte, ll int, parts int) {
		compositions(len(msg), parts, func(ch []int) {
			for _, mode := range modes {
				for _, seg := range segsAll {
					cases = append(cases, C05Case{Mode: mode, State: "ok", Msg: msg, Chunks: append([]int(nil), ch...), Seg: seg, LineLimit: ll})
				}
			}
		})
	}
	_ = addOK
	// the big family (every short message x every division x modes x segmentations) is generated on the fly, one
	// message per work item: materialised it would be tens of millions of case records
	var okMsgs [][]byte
	enumStrings(c05Alphabet, maxLen, func(s []byte) { okMsgs = append(okMsgs, append([]byte(nil), s...)) })
	judge := func(c C05Case, sample bool) {
		f := evalC05(c)
		nontrivial := c.State != "ok" || bytes.ContainsAny(c.Msg, "\r\n.\x00\xff") || len(c.Msg) > lim
		run.Eval(nontrivial)
		if f != nil {
			c.Show = fmt.Sprintf("%q", c.Msg)
			run.Violate("c05", c, f, func() *h.Finding { return evalC05(c) })
			run.Outcome("finding:" + f.Sig)
		} else {
			run.Outcome("ok:" + c.State)
		}
		if sample {
			run.Sample("case", 8, map[string]interface{}{"mode": c.Mode, "state": c.State, "msg": fmt.Sprintf("%q", c.Msg), "chunks": c.Chunks, "seg": c.Seg})
		}
	}
	for _, f := range fixed {
		// fixed payloads: chunkings into <=2 chunks at every position
		for _, mode := range modes {
			for _, seg := range segsAll {
				cases = append(cases, C05Case{Mode: mode, State: "ok", Msg: f, Chunks: []int{len(f)}, Seg: seg, LineLimit: lim})
				for _, tok := range []string{"last", "Last", "lAST"} {
					cases = append(cases, C05Case{Mode: mode, State: "ok", Msg: f, Chunks: []int{3, len(f) - 3}, Seg: seg, LineLimit: lim, LastTok: tok})
				}
				cases = append(cases, C05Case{Mode: mode, State: "ok", Msg: f, Chunks: []int{len(f), 0}, Seg: seg, LineLimit: lim})
				for k := 0; k <= len(f); k += 1 + len(f)/12 {
					cases = append(cases, C05Case{Mode: mode, State: "ok", Msg: f, Chunks: []int{k, len(f) - k}, Seg: seg, LineLimit: lim})
				}
			}
		}
	}
	var refPayloads [][]byte
	enumStrings(c05Alphabet, refLen, func(s []byte) { refPayloads = append(refPayloads, append([]byte(nil), s...)) })
	refPayloads = append(refPayloads, fixed...)
	for _, st := range []string{"nomail", "norcpt", "nomail2", "norcpt2", "badlast", "overlimit", "overlimit2", "earlyfail", "earlyfail-last"} {
		for _, p := range refPayloads {
			for _, mode := range modes {
				for _, seg := range segsAll {
					ll := 0
					if len(p) > 10 {
						ll = lim
					}
					cases = append(cases, C05Case{Mode: mode, State: st, Msg: p, Seg: seg, LineLimit: ll})
				}
			}
		}
	}
	// sizes with leading zeros (read as octal or refused by a parser with base 0)
	for _, n := range []int{8, 9, 10, 18, 19, 64, 100} {
		for _, mode := range modes {
			for _, seg := range []string{"sep", "one"} {
				msg := bytes.Repeat([]byte("z\n"), n) // 2n octets: first chunk n, second chunk n
				cases = append(cases, C05Case{Mode: mode, State: "padded-size", Msg: msg, BadCmd: fmt.Sprintf("0%d", n), Seg: seg}, C05Case{Mode: mode, State: "padded-size", Msg: msg, BadCmd: fmt.Sprintf("000%d", n), Seg: seg})
			}
		}
	}
	// chunks far beyond every internal buffer (4096, 32 KiB, 64 KiB), in one chunk and in three
	for _, n := range []int{5000, 33000, 70000, 150000} {
		big := bytes.Repeat([]byte("0123456789abcdef0123456789abcde\n"), n/32+1)[:n]
		for _, mode := range modes {
			for _, seg := range []string{"sep", "one"} {
				cases = append(cases, C05Case{Mode: mode, State: "ok", Msg: big, Chunks: []int{n}, Seg: seg}, C05Case{Mode: mode, State: "ok", Msg: big, Chunks: []int{n / 3, n / 3, n - 2*(n/3)}, Seg: seg})
			}
		}
	}
	for _, sep := range []string{"\t", "  ", " \t "} {
		for _, mode := range modes {
			for _, seg := range segsAll {
				bait := []byte("MAIL FROM:<bait@x>\r\n")
				cases = append(cases, C05Case{Mode: mode, State: "odd-separator", Msg: bait, BadCmd: fmt.Sprintf("BDAT %d%sLAST", len(bait), sep), Seg: seg})
			}
		}
	}
	// a client that greeted with HELO: whether the server takes the chunk or refuses the command, the chunk is framed by
	// its octet count and never executed
	for _, seg := range segsAll {
		for _, bait := range []string{"MAIL FROM:<bait@x>\r\n", "QUIT\r\n", "RSET\r\nNOOP\r\n"} {
			cases = append(cases, C05Case{Mode: "smtp", State: "odd-separator", Msg: []byte(bait), BadCmd: fmt.Sprintf("BDAT %d LAST", len(bait)), Seg: seg, Helo: true})
		}
	}
	for _, bad := range []string{"BDAT", "BDAT x", "BDAT -1", "BDAT 1 LAST X", "BDAT 99999999999", "BDAT 1.5", "BDAT LAST", "BDAT  "} {
		for _, mode := range modes {
			for _, seg := range []string{"one", "octet"} {
				cases = append(cases, C05Case{Mode: mode, State: "malformed", BadCmd: bad, Seg: seg})
				cases = append(cases, C05Case{Mode: mode, State: "malformed-later", BadCmd: bad, Seg: seg}, C05Case{Mode: mode, State: "malformed-later-noenv", BadCmd: bad, Seg: seg})
			}
		}
	}
	h.ParallelFor(len(cases), func(i int) {
		if i%64 == 0 && run.Expired() {
			return
		}
		if run.Expired() {
			return
		}
		judge(cases[i], i%1999 == 7)
	})
	// the big family last: if the time budget runs out it is this one that is cut short (and reported as such)
	h.ParallelFor(len(okMsgs), func(i int) {
		if run.Expired() {
			return
		}
		msg := okMsgs[i]
		n := 0
		compositions(len(msg), maxParts, func(ch []int) {
			if run.Expired() {
				return
			}
			for _, mode := range modes {
				for _, seg := range segsAll {
					n++
					judge(C05Case{Mode: mode, State: "ok", Msg: msg, Chunks: append([]int(nil), ch...), Seg: seg}, i%1999 == 7 && n == 5)
					if seg == "sep" || seg == "one" {
						// the end of the last chunk and the end of the connection arrive in one Read
						judge(C05Case{Mode: mode, State: "ok", Msg: msg, Chunks: append([]int(nil), ch...), Seg: seg, WithErr: true}, false)
					}
				}
			}
		})
	})
	return run.Finish()
}
