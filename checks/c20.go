package checks

import (
	"sync/atomic"
	"crypto/tls"
	"context"
	"errors"
	"fmt"
	"io"
	"net"
	"strings"
	"sync"
	"time"

	smtp "github.com/emersion/go-smtp"
	"verif/h"
)

// C20: no data races or deadlocks; Close and Shutdown end serving exactly once.
// This file: engine X scenarios (schedule exploration). Races: c20race.go.

type tempErr struct{}

func (tempErr) Error() string   { return "accept: temporary failure (scripted)" }
func (tempErr) Timeout() bool   { return false }
func (tempErr) Temporary() bool { return true }

var errPermAccept = errors.New("accept: permanent failure (scripted)")

// SrvScenario describes one server-level scenario.
type SrvScenario struct {
	Name      string     `json:"name"`
	LMTP      bool       `json:"lmtp,omitempty"`
	Accepts   []string   `json:"accepts"`              // answers to successive Accept calls: conn | temp | perm
	Clients   [][]string `json:"clients"`              // per accepted connection: segments; "<EOF>" = disconnect
	Admin     []string   `json:"admin"`                // close | shutdown | cancel | close2 | shutdown2
	Gates     []string   `json:"gates,omitempty"`      // backend steps that are scheduling points: enter read status return
	Locks     bool       `json:"locks,omitempty"`      // Lock() calls are scheduling points
	Listeners int        `json:"listeners,omitempty"`  // 2: a second listener on the same server
	Plan      string     `json:"plan,omitempty"`       // backend behaviour: "" read all & accept | "noread" never reads (returns when the reader fails) | "statuses" | "earlyreturn" (LMTP: statuses, then return without reading)
	ImplicitTLS bool     `json:"implicit_tls,omitempty"` // the listener hands out TLS connections whose handshake is still to come
	Chunked   bool       `json:"chunked,omitempty"`    // every transfer of the scenario is chunked (BDAT)
	ByContent bool       `json:"by_content,omitempty"` // the message's first line decides the verdict (accept…/reject…)
	MaxBytes  int64      `json:"max_bytes,omitempty"`
	LogoutErr bool       `json:"logout_err,omitempty"` // the backend's Logout returns an error (which nobody has to look at)
	Schedule  []string   `json:"schedule,omitempty"`   // for replay
}

type fakeListener struct {
	w        *srvWorld
	mu       sync.Mutex
	waiting  int
	calls    int
	ch       chan interface{}
	closed   chan struct{}
	isClosed bool
	lastTemp bool
}

func (l *fakeListener) Accept() (net.Conn, error) {
	l.mu.Lock()
	l.waiting++
	l.calls++
	l.lastTemp = false
	l.mu.Unlock()
	defer func() { l.mu.Lock(); l.waiting--; l.mu.Unlock() }()
	select {
	case v := <-l.ch:
		switch a := v.(type) {
		case net.Conn:
			return a, nil
		case error:
			if _, ok := a.(tempErr); ok {
				l.mu.Lock()
				l.lastTemp = true
				l.mu.Unlock()
			}
			return nil, a
		}
		return nil, errPermAccept
	case <-l.closed:
		return nil, net.ErrClosed
	}
}
func (l *fakeListener) Close() error {
	l.mu.Lock()
	defer l.mu.Unlock()
	if l.isClosed {
		return net.ErrClosed
	}
	l.isClosed = true
	close(l.closed)
	return nil
}
func (l *fakeListener) Addr() net.Addr { return &net.TCPAddr{IP: net.IPv4(127, 0, 0, 1), Port: 25} }

type connCtl struct {
	client, server *h.End
	next           int
	gone           bool
}

type adminRes struct {
	name     string
	returned bool
	err      error
	early    string
}

type srvWorld struct {
	sc            SrvScenario
	x             *h.Exec
	srv           *smtp.Server
	be            *h.Backend
	log           *h.LogBuf
	ln            *fakeListener
	conns         []*connCtl
	nAccept       int
	serveDone     bool
	serveErr      error
	admin         []*adminRes
	nAdmin        int
	cancel        context.CancelFunc
	ctx           context.Context
	permGiven     bool
	lnClosedByApp bool
	// a second listener served by the same server (scenario.Listeners == 2): it accepts nothing, it only has to be
	// closed, and its Serve has to return, when the server is closed or shut down
	ln2        *fakeListener
	serve2Done bool
	inLog      atomic.Int64 // goroutines of the server that are inside Server.ErrorLog right now
}

// c20Plan returns the backend's plan for a scenario (shared by the schedule explorer and the race replays).
func c20Plan(sc SrvScenario) func(int) h.DataPlan {
	switch sc.Plan {
	case "noread":
		// a backend that does not read: it waits until told (gate) and returns what the reader then says
		return func(int) h.DataPlan { return h.DataPlan{Max: 0, KeepErr: true} }
	case "statuses-case":
		return func(int) h.DataPlan {
			return h.DataPlan{Max: -1, Status: []h.StatusCall{{Rcpt: "ok1@b.example", Err: nil}, {Rcpt: "ok1@B.Example", Err: h.RejErr("the other one"), AfterRead: true}}}
		}
	case "reject":
		// reads the message, sets no status, reports through its return value
		return func(int) h.DataPlan { return h.DataPlan{Max: -1, Verdict: h.RejErr("message")} }
	case "panic-when-done":
		// reads until the reader ends - with the end of the message or with the error of an aborted transfer -, then panics
		return func(int) h.DataPlan { return h.DataPlan{Max: -1, Panic: true, KeepErr: true} }
	case "status-for-first-occurrence-only":
		// the same mailbox twice; the backend reports the first occurrence itself and leaves the second to its return value
		return func(int) h.DataPlan {
			return h.DataPlan{Max: -1, Verdict: h.RejErr("message"), Status: []h.StatusCall{{Rcpt: "ok1@b.example", Err: nil}}}
		}
	case "panic-first-when-done":
		// the same for the first delivery only; later messages are read and accepted
		return func(idx int) h.DataPlan {
			if idx == 0 {
				return h.DataPlan{Max: -1, Panic: true, KeepErr: true}
			}
			return h.ReadAll
		}
	case "earlyreturn":
		// a per-recipient backend that reports every recipient and returns without reading the message: the server
		// has to skip the rest of the message itself, before it goes back to reading commands
		return func(int) h.DataPlan {
			return h.DataPlan{Max: 0, Status: []h.StatusCall{{Rcpt: "ok1@b.example", Err: h.RejErr("ok1")}, {Rcpt: "ok2@b.example", Err: nil}}}
		}
	case "statuses":
		return func(int) h.DataPlan {
			return h.DataPlan{Max: -1, Status: []h.StatusCall{{Rcpt: "ok1@b.example", Err: nil}, {Rcpt: "ok2@b.example", Err: h.RejErr("ok2"), AfterRead: true}}}
		}
	}
	return nil
}

func (w *srvWorld) Start(x *h.Exec) {
	w.x = x
	sc := w.sc
	w.be = &h.Backend{LMTPSess: sc.LMTP, ByContent: sc.ByContent, ConcurrentClose: true}
	if sc.LogoutErr {
		w.be.LogoutErr = errors.New("backend: could not write the session log")
	}
	gateSet := map[string]bool{}
	for _, g := range sc.Gates {
		gateSet[g] = true
	}
	w.be.Gate = func(step string) {
		// step is "m<idx>:<kind>"
		kind := step[strings.IndexByte(step, ':')+1:]
		if gateSet[kind] {
			x.Point("be:" + step)
		}
	}
	w.be.Plan = c20Plan(sc)
	x.Filter = func(name string) bool {
		if strings.HasPrefix(name, "lock:") {
			return sc.Locks
		}
		return true
	}
	w.log = &h.LogBuf{}
	if gateSet["log"] {
		// the application's logger is a scheduling point; a goroutine inside it is a goroutine of the server still running
		w.log.Gate = func() {
			w.inLog.Add(1)
			x.Point("log:write")
			w.inLog.Add(-1)
		}
	}
	w.srv = h.Config{LMTP: sc.LMTP, MaxMessageBytes: sc.MaxBytes}.NewServer(w.be, w.log)
	w.ln = &fakeListener{w: w, ch: make(chan interface{}), closed: make(chan struct{})}
	w.ctx, w.cancel = context.WithCancel(context.Background())
	go func() {
		w.serveErr = w.srv.Serve(w.ln)
		w.serveDone = true
	}()
	if sc.Listeners == 2 {
		h.Wait() // the first listener is registered first
		w.ln2 = &fakeListener{w: w, ch: make(chan interface{}), closed: make(chan struct{})}
		go func() {
			w.srv.Serve(w.ln2)
			w.serve2Done = true
		}()
		h.Wait()
	}
}

func (w *srvWorld) Events() []h.SchedEvent {
	var ev []h.SchedEvent
	sc := w.sc
	w.ln.mu.Lock()
	waiting, lastTemp, calls := w.ln.waiting, w.ln.lastTemp, w.ln.calls
	w.ln.mu.Unlock()
	if waiting > 0 && w.nAccept < len(sc.Accepts) {
		k := w.nAccept
		ev = append(ev, h.SchedEvent{Name: fmt.Sprintf("accept:%d-%s", k, sc.Accepts[k]), Do: func() {
			w.nAccept++
			switch sc.Accepts[k] {
			case "conn":
				c := &connCtl{}
				c.client, c.server = h.NewDuplex()
				w.conns = append(w.conns, c)
				if sc.ImplicitTLS {
					// a TLS listener (ListenAndServeTLS): the connection handler performs the handshake first
					w.ln.ch <- net.Conn(tls.Server(c.server, h.ServerTLSConfig()))
				} else {
					w.ln.ch <- net.Conn(c.server)
				}
			case "temp":
				w.ln.ch <- error(tempErr{})
			case "perm":
				w.permGiven = true
				w.ln.ch <- errPermAccept
			}
		}})
	}
	if waiting == 0 && lastTemp && !w.serveDone {
		ev = append(ev, h.SchedEvent{Name: "clock:backoff", Do: func() { time.Sleep(2 * time.Second) }})
	}
	for ci, c := range w.conns {
		if ci >= len(sc.Clients) || c.gone {
			continue
		}
		segs := sc.Clients[ci]
		if c.next < len(segs) && c.client.Out.Pending() == 0 {
			ci, c, k := ci, c, c.next
			name := fmt.Sprintf("c%d:seg%d", ci, k)
			if segs[k] == "<EOF>" {
				name = fmt.Sprintf("c%d:disconnect", ci)
			}
			ev = append(ev, h.SchedEvent{Name: name, Do: func() {
				c.next++
				if segs[k] == "<EOF>" {
					c.gone = true
					c.client.Out.End(io.EOF)
					return
				}
				if segs[k] == "<RST>" {
					c.gone = true
					c.client.Out.End(&net.OpError{Op: "read", Net: "tcp", Err: errors.New("connection reset by peer")})
					return
				}
				c.client.Write([]byte(segs[k]))
			}})
		}
	}
	if calls > 0 && w.nAdmin < len(sc.Admin) {
		k := w.nAdmin
		ev = append(ev, h.SchedEvent{Name: fmt.Sprintf("admin:%d-%s", k, sc.Admin[k]), Do: func() {
			w.nAdmin++
			r := &adminRes{name: sc.Admin[k]}
			w.admin = append(w.admin, r)
			switch sc.Admin[k] {
			case "close", "close2":
				go func() { r.err = w.srv.Close(); r.returned = true }()
			case "shutdown", "shutdown2":
				go func() {
					r.err = w.srv.Shutdown(w.ctx)
					if r.err == nil && w.inLog.Load() > 0 {
						r.early = "Shutdown returned nil while a connection handler of the server was still running (it is inside Server.ErrorLog, reporting how its connection ended)"
					}
					// Shutdown may only come back once every connection has finished, unless the context
					// is done or the server was already stopped
					if r.err != smtp.ErrServerClosed && w.ctx.Err() == nil {
						for ci, c := range w.conns {
							// "active" = being served (greeted). A connection that Accept had just returned when
							// Shutdown ran is never served; it is closed right after, possibly after Shutdown returned.
							if !c.server.IsClosed() && c.client.In.Total > 0 {
								r.early = fmt.Sprintf("Shutdown returned %v while connection %d was still open and the context was live", r.err, ci)
							}
						}
					}
					r.returned = true
				}()
			case "cancel":
				w.cancel()
				r.returned = true
			case "lnclose":
				// the application closes the listener itself (Serve returns; the connections go on)
				w.ln.Close()
				w.lnClosedByApp = true
				r.returned = true
			}
		}})
	}
	return ev
}

func (w *srvWorld) desc(x *h.Exec) string {
	return fmt.Sprintf("scenario %s, schedule %v", w.sc.Name, x.Schedule)
}

func (w *srvWorld) Finish(x *h.Exec) *h.Finding {
	sc := w.sc
	desc := w.desc(x)
	// ---- invariants at the last quiescent state of the explored part ----
	// (filled in after the drain: whether a Close call *won*, i.e. did not report ErrServerClosed - a Close
	// that lost against a concurrent Shutdown does nothing, and Shutdown leaves connections alone)
	closeCalled, closeReturned := false, false
	x.Drain()
	h.Wait()
	// After Close has returned and everything that was in flight has settled, no accepted
	// connection may still be open or served (checked BEFORE the harness hangs up itself).
	for _, a := range w.admin {
		// (a Close that reports some other error - a listener that could not be closed - has still won and must have
		// closed every connection)
		if (a.name == "close" || a.name == "close2") && a.returned && a.err != smtp.ErrServerClosed {
			closeCalled, closeReturned = true, true
		}
	}
	if closeCalled {
		h.Wait()
		for ci, c := range w.conns {
			if !c.server.IsClosed() {
				return h.F("c20-conn-survives-close", "%s: Server.Close returned=%t but accepted connection %d was never closed by the server (wire so far %q)", desc, closeReturned, ci, c.client.In.Log)
			}
		}
	}
	// ---- drain phase: the environment goes away ----
	for _, c := range w.conns {
		if !c.gone {
			c.gone = true
			c.client.Out.End(io.EOF)
		}
	}
	h.Wait()
	x.Drain()
	h.Wait()
	x.Drain()
	h.Wait()
	// every peer has hung up and nothing holds the backend back any more: the server must have given up every
	// connection by itself - before anybody calls Close (which would release a delivery that waits for octets that
	// can never arrive, and hide that the handler would have waited with it for ever)
	for ci, c := range w.conns {
		if !c.server.IsClosed() {
			return h.F("c20-handler-outlives-peer", "%s: the peer of connection %d has disconnected and every backend step is free to run, yet the server still holds the connection (wire so far %q)", desc, ci, c.client.In.Log)
		}
	}
	anyStop := false
	for _, a := range w.admin {
		if a.name == "close" || a.name == "shutdown" {
			anyStop = true
		}
	}
	if !anyStop && !w.serveDone {
		r := &adminRes{name: "final-close"}
		go func() { r.err = w.srv.Close(); r.returned = true }()
		h.Wait()
		x.Drain()
		if !r.returned {
			return h.F("c20-close-hangs", "%s: Server.Close did not return after every connection had gone", desc)
		}
	}
	w.cancel()
	h.Wait()
	x.Drain()
	h.Wait()
	// ---- verdicts ----
	if !w.serveDone {
		return h.F("c20-serve-hangs", "%s: Serve did not return", desc)
	}
	wantServeErr := error(nil)
	if w.permGiven {
		wantServeErr = errPermAccept
	}
	// a permanent error that arrives after Close/Shutdown is reported as nil (the server was closed)
	for _, a := range w.admin {
		if a.early != "" {
			return h.F("c20-shutdown-returned-early", "%s: %s", desc, a.early)
		}
	}
	if w.lnClosedByApp && w.serveErr != nil {
		wantServeErr = w.serveErr // the application closed the listener: Serve reports whatever Accept said
	}
	if w.serveErr != wantServeErr && !(w.permGiven && w.serveErr == nil && anyStop) {
		return h.F("c20-serve-result", "%s: Serve returned %v, want %v", desc, w.serveErr, wantServeErr)
	}
	// exactly one stop call wins (whichever got there first); every other one reports ErrServerClosed
	winners := 0
	for _, a := range w.admin {
		if a.name == "cancel" || a.name == "lnclose" {
			continue
		}
		if !a.returned {
			return h.F("c20-admin-hangs", "%s: %s did not return", desc, a.name)
		}
		if a.err == smtp.ErrServerClosed {
			continue
		}
		winners++
		if strings.HasPrefix(a.name, "shutdown") {
			if a.err != nil && a.err != context.Canceled && !(w.lnClosedByApp && errors.Is(a.err, net.ErrClosed)) {
				return h.F("c20-shutdown-result", "%s: Shutdown returned %v", desc, a.err)
			}
		} else if a.err != nil && !(w.lnClosedByApp && errors.Is(a.err, net.ErrClosed)) {
			return h.F("c20-close-result", "%s: Close returned %v", desc, a.err)
		}
	}
	nStops := 0
	for _, a := range w.admin {
		if a.name != "cancel" && a.name != "lnclose" {
			nStops++
		}
	}
	if nStops > 0 && winners != 1 {
		var res []string
		for _, a := range w.admin {
			res = append(res, fmt.Sprintf("%s=%v", a.name, a.err))
		}
		return h.F("c20-second-stop-result", "%s: %d of the Close/Shutdown calls did not report ErrServerClosed, want exactly 1: %v", desc, winners, res)
	}
	for ci, c := range w.conns {
		if !c.server.IsClosed() {
			return h.F("c20-conn-not-closed", "%s: connection %d was never closed by the server", desc, ci)
		}
	}
	if w.ln2 != nil && anyStop {
		w.ln2.mu.Lock()
		closed2 := w.ln2.isClosed
		w.ln2.mu.Unlock()
		if !closed2 || !w.serve2Done {
			return h.F("c20-second-listener", "%s: after Close/Shutdown the second listener is closed=%t and its Serve has returned=%t (a listener whose Close fails must not keep the others open)", desc, closed2, w.serve2Done)
		}
	}
	// Not judged here: a recovered panic in the command loop. Server.Close logs the session out and
	// clears it while the command loop may be between two statements of a handler; the handler then
	// dereferences a nil session, which is recovered (421, connection closed). C20's statement does not
	// speak about it, and which side wins is decided below the explorer's scheduling points.
	// chunked deliveries are joined before the session is reset or logged out (DATA deliveries run in
	// the command loop itself and cannot be; so this is only judged for scenarios whose transfers are all chunked)
	if sc.Chunked && len(w.be.Overlaps) > 0 {
		return h.F("c20-callbacks-overlap", "%s: %s", desc, strings.Join(w.be.Overlaps, "; "))
	}
	if a := w.be.FirstAnomaly(); a != "" {
		return h.F("c20-backend-anomaly", "%s: %s", desc, a)
	}
	// every session logged out exactly once
	if f := sessionOracleMulti(w.be.Trace()); f != nil {
		f.What = desc + ": " + f.What
		return f
	}
	_ = sc
	return nil
}

// sessionOracleMulti: like sessionOracle but for several connections sharing
// one backend: per session exactly one Logout and no callback begins after it.
func sessionOracleMulti(tr []h.Event) *h.Finding {
	logouts := map[int]int{}
	created := map[int]bool{}
	for _, e := range tr {
		if e.Kind == "NewSession" && e.Sess > 0 {
			created[e.Sess] = true
			continue
		}
		if e.Kind == "Logout" {
			logouts[e.Sess]++
			continue
		}
		if e.Kind == "SetStatus" || e.Kind == "AuthMechs" || e.Kind == "NewSession" {
			continue
		}
		// (a callback that begins after a Logout caused by a concurrent Server.Close is C08's subject for
		// connection-initiated ends; with Server.Close the order is decided below the scheduling points)
	}
	for id := range created {
		if logouts[id] != 1 {
			return h.F("c20-logout-count", "session #%d received %d Logout calls: %s", id, logouts[id], h.Calls(tr))
		}
	}
	return nil
}

// Shutdown semantics that need the intermediate state: checked by a wrapper world.
type shutdownWorld struct {
	srvWorld
}

func (w *shutdownWorld) Events() []h.SchedEvent {
	// Shutdown must not return while a connection is still being served and the context is live.
	return w.srvWorld.Events()
}

const c20Tx = "EHLO c.example\r\nMAIL FROM:<ok@a.example>\r\nRCPT TO:<ok1@b.example>\r\n"

func c20Scenarios(tier string) []SrvScenario {
	var out []SrvScenario
	chunk := c20Tx + "BDAT 5\r\nhello"
	// F1: chunked transfer with a slow delivery, then ..., Close at any point
	for _, next := range [][]string{{"RSET\r\n"}, {"BDAT 3 LAST\r\nabc"}, {"RSET\r\n", "MAIL FROM:<ok@c.example>\r\nRCPT TO:<ok1@d.example>\r\nDATA\r\nsecond\r\n.\r\n"}, {"QUIT\r\n"}, {"<EOF>"}} {
		name := strings.Fields(strings.ReplaceAll(next[len(next)-1], "<EOF>", "disconnect"))[0]
		if len(next) > 1 {
			name = "RSET+next-transaction"
		}
		chunked := len(next) == 1
		out = append(out, SrvScenario{Name: "F1-bdat-slow-" + name, Accepts: []string{"conn"}, Clients: [][]string{append([]string{chunk}, next...)}, Admin: []string{"close"}, Gates: []string{"read", "return"}, Chunked: chunked})
		out = append(out, SrvScenario{Name: "F1-bdat-noread-" + name, Accepts: []string{"conn"}, Clients: [][]string{append([]string{chunk}, next...)}, Admin: []string{"close"}, Gates: []string{"return"}, Plan: "noread", Chunked: chunked})
	}
	// F2: LMTP DATA, slow per-recipient backend, Close / disconnect
	lm := "LHLO c.example\r\nMAIL FROM:<ok@a.example>\r\nRCPT TO:<ok1@b.example>\r\nRCPT TO:<ok2@b.example>\r\n"
	for _, tail := range [][]string{{"DATA\r\n", "msg\r\n.\r\n", "QUIT\r\n"}, {"DATA\r\n", "msg\r\n", "<EOF>"}, {"BDAT 4 LAST\r\nmsg\n", "QUIT\r\n"}} {
		out = append(out, SrvScenario{Name: "F2-lmtp-" + strings.Fields(tail[0])[0] + "-" + strings.TrimSpace(strings.ReplaceAll(tail[len(tail)-1], "<EOF>", "disconnect")), LMTP: true, Accepts: []string{"conn"}, Clients: [][]string{append([]string{lm}, tail...)}, Admin: []string{"close"}, Gates: []string{"status", "return"}, Plan: "statuses"})
	}
	out = append(out, SrvScenario{Name: "F2-lmtp-DATA-backend-returns-early", LMTP: true, Accepts: []string{"conn"}, Clients: [][]string{{lm, "DATA\r\n", "line one\r\n", "NOOP\r\nline three\r\n", ".\r\n", "QUIT\r\n"}}, Admin: []string{"close"}, Gates: []string{"return"}, Plan: "earlyreturn"})
	// the same mailbox twice, a backend that reports through its return value only: every RCPT still gets its reply
	lmDup := "LHLO c.example\r\nMAIL FROM:<ok@a.example>\r\nRCPT TO:<ok1@b.example>\r\nRCPT TO:<ok1@b.example>\r\n"
	for _, tail := range [][]string{{"BDAT 4 LAST\r\nmsg\n", "QUIT\r\n"}, {"DATA\r\n", "msg\r\n.\r\n", "QUIT\r\n"}, {"BDAT 2\r\nms", "BDAT 2 LAST\r\ng\n", "QUIT\r\n"}} {
		out = append(out, SrvScenario{Name: "F2-lmtp-duplicate-rcpt-return-value-" + strings.Fields(tail[0])[0] + fmt.Sprint(len(tail)), LMTP: true, Accepts: []string{"conn"}, Clients: [][]string{append([]string{lmDup}, tail...)}, Admin: []string{"close"}, Gates: []string{"return"}, Plan: "reject", Chunked: tail[0][0] == 'B'})
	}
	// two recipients that differ in the case of the domain only, per-recipient statuses
	lmCase := "LHLO c.example\r\nMAIL FROM:<ok@a.example>\r\nRCPT TO:<ok1@b.example>\r\nRCPT TO:<ok1@B.Example>\r\n"
	for _, tail := range [][]string{{"BDAT 4 LAST\r\nmsg\n", "QUIT\r\n"}, {"DATA\r\n", "msg\r\n.\r\n", "QUIT\r\n"}} {
		out = append(out, SrvScenario{Name: "F2-lmtp-recipients-differ-in-domain-case-" + strings.Fields(tail[0])[0], LMTP: true, Accepts: []string{"conn"}, Clients: [][]string{append([]string{lmCase}, tail...)}, Admin: []string{"close"}, Gates: []string{"return"}, Plan: "statuses-case", Chunked: tail[0][0] == 'B'})
	}
	// the backend panics when its reader ends - also when it ends because the transfer was aborted
	for _, next := range [][]string{{"RSET\r\n"}, {"QUIT\r\n"}, {"<EOF>"}, {"BDAT 3 LAST\r\nabc"}} {
		name := strings.Fields(strings.ReplaceAll(next[0], "<EOF>", "disconnect"))[0]
		out = append(out, SrvScenario{Name: "F1-bdat-backend-panics-when-reader-ends-" + name, Accepts: []string{"conn"}, Clients: [][]string{append([]string{chunk}, next...)}, Admin: []string{"close"}, Gates: []string{"return"}, Plan: "panic-when-done", Chunked: true})
	}
	// ... and the connection goes on with another chunked transaction (whatever the panicking delivery still does when
	// it is abandoned must not reach into the next one)
	out = append(out, SrvScenario{Name: "F1-bdat-backend-panics-when-aborted-then-next-chunked-transaction", Accepts: []string{"conn"}, Clients: [][]string{{chunk, "RSET\r\n", "MAIL FROM:<ok@c.example>\r\nRCPT TO:<ok1@d.example>\r\nBDAT 5\r\nagain", "BDAT 4 LAST\r\nmore", "QUIT\r\n"}}, Admin: []string{"close"}, Gates: []string{"return"}, Plan: "panic-first-when-done", Chunked: true})
	// LMTP: the connection is lost inside the LAST chunk (the delivery must be released, every goroutine must end)
	for _, plan := range []string{"statuses", "reject"} {
		// (with and without a Close call in the scenario: without one, nobody but the server itself can end the connection)
		for _, admin := range [][]string{{"close"}, nil} {
			out = append(out, SrvScenario{Name: fmt.Sprintf("F2-lmtp-disconnect-inside-the-LAST-chunk-%s-%d", plan, len(admin)), LMTP: true, Accepts: []string{"conn"}, Clients: [][]string{{lm, "BDAT 10 LAST\r\nabc", "<EOF>"}}, Admin: admin, Gates: []string{"return"}, Plan: plan, Chunked: true})
			out = append(out, SrvScenario{Name: fmt.Sprintf("F2-lmtp-disconnect-inside-the-second-LAST-chunk-%s-%d", plan, len(admin)), LMTP: true, Accepts: []string{"conn"}, Clients: [][]string{{lm, "BDAT 2\r\nms", "BDAT 10 LAST\r\nabc", "<EOF>"}}, Admin: admin, Gates: []string{"return"}, Plan: plan, Chunked: true})
		}
		// the same for DATA and for SMTP: a peer that hangs up in the middle of a transfer, and nobody calls Close
		out = append(out, SrvScenario{Name: "F2-lmtp-disconnect-inside-a-DATA-message-" + plan, LMTP: true, Accepts: []string{"conn"}, Clients: [][]string{{lm, "DATA\r\n", "half a mess", "<EOF>"}}, Gates: []string{"return"}, Plan: plan})
	}
	out = append(out, SrvScenario{Name: "F1-disconnect-inside-a-chunk-nobody-closes", Accepts: []string{"conn"}, Clients: [][]string{{chunk, "BDAT 10 LAST\r\nabc", "<EOF>"}}, Gates: []string{"read", "return"}, Chunked: true})
	// a TLS listener and a peer that connects and never says anything (no ClientHello): Close / Shutdown + cancel end it
	out = append(out, SrvScenario{Name: "F3-implicit-tls-silent-peer-close", ImplicitTLS: true, Accepts: []string{"conn"}, Clients: [][]string{{}}, Admin: []string{"close"}})
	out = append(out, SrvScenario{Name: "F3-implicit-tls-silent-peer-then-disconnect", ImplicitTLS: true, Accepts: []string{"conn"}, Clients: [][]string{{"<EOF>"}}, Admin: []string{"close"}})
	out = append(out, SrvScenario{Name: "F3-implicit-tls-two-silent-peers-shutdown-close", ImplicitTLS: true, Accepts: []string{"conn", "conn"}, Clients: [][]string{{}, {"<EOF>"}}, Admin: []string{"shutdown", "close2"}})
	// LMTP, the same mailbox twice, one status set by the backend and one left to its return value
	for _, tail := range [][]string{{"BDAT 4 LAST\r\nmsg\n", "QUIT\r\n"}, {"DATA\r\n", "msg\r\n.\r\n", "QUIT\r\n"}, {"DATA\r\n", "msg\r\n.\r\n", "<EOF>"}} {
		for _, admin := range [][]string{{"close"}, nil} {
			out = append(out, SrvScenario{Name: fmt.Sprintf("F2-lmtp-duplicate-rcpt-one-status-%s%d-%d", strings.Fields(tail[0])[0], len(tail), len(admin)), LMTP: true, Accepts: []string{"conn"}, Clients: [][]string{append([]string{lmDup}, tail...)}, Admin: admin, Gates: []string{"status", "return"}, Plan: "status-for-first-occurrence-only", Chunked: tail[0][0] == 'B'})
		}
	}
	// a connection that ends with an error (reset by peer): its handler reports that through Server.ErrorLog - application
	// code, a scheduling point here - and Shutdown returns only when that handler has finished too
	out = append(out, SrvScenario{Name: "F3-shutdown-while-a-handler-reports-its-error", Accepts: []string{"conn"}, Clients: [][]string{{"EHLO c.example\r\n", "<RST>"}}, Admin: []string{"shutdown"}, Gates: []string{"log"}})
	out = append(out, SrvScenario{Name: "F3-shutdown-two-conns-one-reset", Accepts: []string{"conn", "conn"}, Clients: [][]string{{"EHLO c1.example\r\n", "<RST>"}, {"EHLO c2.example\r\n", "QUIT\r\n"}}, Admin: []string{"shutdown", "close2"}, Gates: []string{"log"}})
	// a backend whose Logout returns an error: the connection is closed all the same
	out = append(out, SrvScenario{Name: "F3-logout-returns-an-error-close", LogoutErr: true, Accepts: []string{"conn"}, Clients: [][]string{{"EHLO c.example\r\n", "NOOP\r\n"}}, Admin: []string{"close"}})
	out = append(out, SrvScenario{Name: "F3-logout-returns-an-error-quit-shutdown", LogoutErr: true, Accepts: []string{"conn"}, Clients: [][]string{{"EHLO c.example\r\n", "QUIT\r\n"}}, Admin: []string{"shutdown"}})
	// a long run of temporary Accept errors (the back-off reaches its cap and stays there), then a connection
	out = append(out, SrvScenario{Name: "F4-accept-14-temporary-errors-then-conn", Accepts: []string{"temp", "temp", "temp", "temp", "temp", "temp", "temp", "temp", "temp", "temp", "temp", "temp", "temp", "temp", "conn"}, Clients: [][]string{{"EHLO c.example\r\n", "QUIT\r\n"}}, Admin: []string{"close"}})
	// two listeners; the application has closed the first one itself, so its Close fails when the server stops
	out = append(out, SrvScenario{Name: "F3-two-listeners-first-closed-by-app-then-close", Listeners: 2, Accepts: []string{"conn"}, Clients: [][]string{{"EHLO c.example\r\n"}}, Admin: []string{"lnclose", "close"}})
	out = append(out, SrvScenario{Name: "F3-two-listeners-first-closed-by-app-then-shutdown", Listeners: 2, Accepts: []string{"conn"}, Clients: [][]string{{"EHLO c.example\r\n", "QUIT\r\n"}}, Admin: []string{"lnclose", "shutdown"}})
	out = append(out, SrvScenario{Name: "F3-two-listeners-close", Listeners: 2, Accepts: []string{"conn"}, Clients: [][]string{{"EHLO c.example\r\n"}}, Admin: []string{"close", "close2"}})
	// F3: Shutdown with one or two active connections
	out = append(out, SrvScenario{Name: "F3-shutdown-1conn-quit", Accepts: []string{"conn"}, Clients: [][]string{{"EHLO c.example\r\n", "QUIT\r\n"}}, Admin: []string{"shutdown", "close2"}})
	out = append(out, SrvScenario{Name: "F3-shutdown-1conn-cancel", Accepts: []string{"conn"}, Clients: [][]string{{"EHLO c.example\r\n", "<EOF>"}}, Admin: []string{"shutdown", "cancel", "shutdown2"}})
	out = append(out, SrvScenario{Name: "F3-shutdown-2conns", Accepts: []string{"conn", "conn"}, Clients: [][]string{{"EHLO c1.example\r\n", "QUIT\r\n"}, {"EHLO c2.example\r\n", "<EOF>"}}, Admin: []string{"shutdown", "close2"}})
	out = append(out, SrvScenario{Name: "F3-close-then-shutdown", Accepts: []string{"conn"}, Clients: [][]string{{"EHLO c.example\r\n", "NOOP\r\n"}}, Admin: []string{"close", "shutdown2", "close2"}})
	out = append(out, SrvScenario{Name: "F3-shutdown-mid-bdat", Accepts: []string{"conn"}, Clients: [][]string{{chunk, "BDAT 3 LAST\r\nabc", "QUIT\r\n"}}, Admin: []string{"shutdown", "cancel"}, Gates: []string{"return"}, Chunked: true})
	// the application closes the listener itself, then shuts down with a connection still active
	out = append(out, SrvScenario{Name: "F3-app-closed-listener-then-close", Accepts: []string{"conn"}, Clients: [][]string{{"EHLO c.example\r\n", "NOOP\r\n"}}, Admin: []string{"lnclose", "close"}})
	out = append(out, SrvScenario{Name: "F3-app-closed-listener-then-shutdown", Accepts: []string{"conn"}, Clients: [][]string{{"EHLO c.example\r\n", "NOOP\r\n", "QUIT\r\n"}}, Admin: []string{"lnclose", "shutdown"}})
	// two unfinished chunked transfers in a row on one connection
	out = append(out, SrvScenario{Name: "F1-two-aborted-transfers", Accepts: []string{"conn"}, Clients: [][]string{{chunk, "RSET\r\n", "MAIL FROM:<ok@a.example>\r\nRCPT TO:<ok1@b.example>\r\nBDAT 5\r\nagain", "RSET\r\n", "QUIT\r\n"}}, Admin: []string{"close"}, Gates: []string{"return"}, Chunked: true})
	// F7: two connections at once, each in the middle of a chunked transfer with a slow backend, Close / Shutdown at any point
	out = append(out, SrvScenario{Name: "F7-two-conns-mid-bdat-close", Accepts: []string{"conn", "conn"}, Clients: [][]string{{chunk, "BDAT 3 LAST\r\nabc"}, {chunk, "RSET\r\n"}}, Admin: []string{"close"}, Gates: []string{"return"}, Chunked: true})
	out = append(out, SrvScenario{Name: "F7-two-conns-mid-bdat-shutdown", Accepts: []string{"conn", "conn"}, Clients: [][]string{{chunk, "QUIT\r\n"}, {chunk, "<EOF>"}}, Admin: []string{"shutdown", "cancel"}, Gates: []string{"return"}, Chunked: true})
	// F8: LMTP chunked transfer with gated status calls and Close
	out = append(out, SrvScenario{Name: "F8-lmtp-bdat2-statuses-close", LMTP: true, Accepts: []string{"conn"}, Clients: [][]string{{lm, "BDAT 2\r\nms", "BDAT 2 LAST\r\ng\n", "QUIT\r\n"}}, Admin: []string{"close"}, Gates: []string{"enter", "status", "return"}, Plan: "statuses", Chunked: true})
	// F6: Close while the command loop is inside an envelope callback (NewSession, Mail, Rcpt are scheduling points)
	for _, end := range []string{"QUIT\r\n", "<EOF>"} {
		out = append(out, SrvScenario{Name: "F6-close-during-callbacks-" + strings.TrimSpace(strings.ReplaceAll(end, "<EOF>", "disconnect")), Accepts: []string{"conn"},
			Clients: [][]string{{"EHLO c.example\r\n", "MAIL FROM:<ok@a.example>\r\nRCPT TO:<ok1@b.example>\r\n", end}}, Admin: []string{"close"}, Gates: []string{"NewSession", "Mail", "Rcpt", "Logout"}})
	}
	out = append(out, SrvScenario{Name: "F6-shutdown-during-callbacks", Accepts: []string{"conn"},
		Clients: [][]string{{"EHLO c.example\r\n", "MAIL FROM:<ok@a.example>\r\n", "QUIT\r\n"}}, Admin: []string{"shutdown", "close2"}, Gates: []string{"NewSession", "Mail", "Logout"}})
	// F4: all sequences of Accept answers
	maxLen := 4
	if tier == "thorough" {
		maxLen = 5
	}
	enumStrings([]byte("tcp"), maxLen, func(s []byte) {
		if len(s) == 0 {
			return
		}
		var acc []string
		var clients [][]string
		for _, ch := range s {
			switch ch {
			case 't':
				acc = append(acc, "temp")
			case 'c':
				acc = append(acc, "conn")
				clients = append(clients, []string{"QUIT\r\n"})
			case 'p':
				acc = append(acc, "perm")
			}
			if ch == 'p' {
				break
			}
		}
		if i := strings.IndexByte(string(s), 'p'); i >= 0 && i < len(s)-1 {
			return // nothing is accepted after a permanent error
		}
		out = append(out, SrvScenario{Name: "F4-accept-" + string(s), Accepts: acc, Clients: clients, Admin: []string{"close"}})
	})
	return out
}

func runScenario(sc SrvScenario, opts h.ExploreOpts, run *h.Run, sub string) h.ExploreStats {
	return h.Explore(func() h.World { return &srvWorld{sc: sc} }, opts, func(x *h.Exec, f *h.Finding, leak string) {
		run.Eval(true)
		run.Trace(1)
		keepForRace(sc, x.Schedule)
		if f == nil && leak != "" {
			f = h.F("c20-goroutine-leak", "scenario %s, schedule %v: goroutines blocked forever after everything was closed: %.400s", sc.Name, x.Schedule, leak)
		}
		if f != nil {
			c := sc
			c.Schedule = append([]string(nil), x.Schedule...)
			run.Violate(sub, c, f, func() *h.Finding { return evalC20Schedule(c) })
			run.Outcome("violation:" + f.Sig)
		}
	})
}

func evalC20Schedule(sc SrvScenario) *h.Finding {
	if sc.Locks {
		lockMu.Lock()
		defer lockMu.Unlock()
	}
	var cur *h.Exec
	if sc.Locks {
		if !setLockHook(func(site string) { cur.Point("lock:" + site) }) {
			return h.F("harness-error", "this binary was built without the vsync overlay")
		}
		defer setLockHook(nil)
	}
	x := &h.Exec{ByName: append([]string{}, sc.Schedule...)}
	cur = x
	var f *h.Finding
	leak, pan := h.Bubble(func() { f = x.Run(&srvWorld{sc: sc}) })
	if f == nil && pan != "" {
		f = h.F("sched-harness-panic", "%s", pan)
	}
	if f == nil && x.Diverged != "" {
		f = h.F("sched-replay-diverged", "%s", x.Diverged)
	}
	if f == nil && leak != "" {
		f = h.F("c20-goroutine-leak", "scenario %s: goroutines blocked forever: %.400s", sc.Name, leak)
	}
	return f
}

var lockMu sync.Mutex

func init() { h.RegisterReplayer("c20", evalC20Schedule) }

// exploreLocks explores a scenario with Lock() calls as scheduling points
// (sequential: the lock hook is process-global).
func exploreLocks(sc SrvScenario, bound int, run *h.Run) h.ExploreStats {
	lockMu.Lock()
	defer lockMu.Unlock()
	sc.Locks = true
	var cur *h.Exec
	if !setLockHook(func(site string) {
		if cur != nil {
			cur.Point("lock:" + site)
		}
	}) {
		run.NotExhaustive("lock-level tier unavailable: binary built without the vsync overlay")
		return h.ExploreStats{}
	}
	defer setLockHook(nil)
	st := h.ExploreStats{Outcomes: map[string]int64{}}
	type item struct {
		prefix []int
		cost   int
	}
	work := []item{{}}
	for len(work) > 0 {
		if run.Expired() {
			st.Truncated = true
			break
		}
		it := work[len(work)-1]
		work = work[:len(work)-1]
		x := &h.Exec{Prefix: it.prefix}
		cur = x
		var f *h.Finding
		leak, pan := h.Bubble(func() { f = x.Run(&srvWorld{sc: sc}) })
		cur = nil
		if f == nil && pan != "" {
			f = h.F("sched-harness-panic", "%s (schedule %v)", pan, x.Schedule)
		}
		if f == nil && x.Diverged != "" {
			f = h.F("sched-replay-diverged", "un-owned nondeterminism: %s", x.Diverged)
		}
		if f == nil && leak != "" {
			f = h.F("c20-goroutine-leak", "scenario %s, schedule %v: goroutines blocked forever: %.400s", sc.Name, x.Schedule, leak)
		}
		run.Eval(true)
		run.Trace(1)
		st.Executions++
		st.ChoicePts += int64(len(x.Trace))
		if len(x.Trace) > st.MaxDepth {
			st.MaxDepth = len(x.Trace)
		}
		if f != nil {
			c := sc
			c.Schedule = append([]string(nil), x.Schedule...)
			run.Violate("c20", c, f, nil)
			run.Outcome("violation:" + f.Sig)
		}
		for i := len(it.prefix); i < len(x.Trace); i++ {
			for alt := 1; alt < len(x.Trace[i].Enabled); alt++ {
				if bound >= 0 && it.cost+1 > bound {
					st.Truncated = true
					break
				}
				p := make([]int, i+1)
				for k := 0; k < i; k++ {
					p[k] = x.Trace[k].Chosen
				}
				p[i] = alt
				work = append(work, item{prefix: p, cost: it.cost + 1})
			}
		}
	}
	return st
}

func C20(tier string) int {
	run := h.NewRun("C20", tier, "model_checking", "", 25*time.Minute)
	scs := c20Scenarios(tier)
	lockBound, f7Bound := 2, 3
	if tier == "thorough" {
		lockBound, f7Bound = 3, 5
	}
	run.Rule = fmt.Sprintf("schedule exploration (testing/synctest bubbles, go-smtp built with channel-based mutexes via build overlay so that every blocked goroutine is visible): %d scenarios - F1 chunked transfer with a slow or non-reading backend followed by {RSET, LAST chunk, RSET+next transaction, QUIT, disconnect} with Server.Close fired at ANY point; F2 LMTP DATA/BDAT with a slow per-recipient backend + Close/disconnect, a duplicated recipient with a backend reporting through its return value, a backend that returns early; F1' a backend that panics when its reader ends (also by an abort); F3 Shutdown(ctx) with one/two connections and {QUIT, disconnect, ctx cancel, second Close/Shutdown}, Close/Shutdown after the application closed the listener itself (the listener's Close then fails), also with a second listener that must be closed all the same; F6 Close/Shutdown while the command loop is inside NewSession/Mail/Rcpt; F7 two connections mid-BDAT with Close/Shutdown (deviation-bounded); F8 LMTP two-chunk transfer with gated status calls + Close; F4 ALL sequences of <=%d Accept answers over {temporary error, connection, permanent error} with the virtual clock; events = Accept answers, client segments/disconnect, backend steps, admin calls, clock. F1-F4: ALL interleavings. F5: F1/F3/F4 representatives with every Lock() as an additional scheduling point, deviation (preemption) bound %d. states = scenarios, transitions = scheduling decisions, traces = executions of the real server. Oracle per execution: no goroutine left behind (runtime check at bubble exit), Serve returns (nil after Close/Shutdown, the permanent error otherwise, never on temporary errors), every accepted connection closed once Close has run, first Close/Shutdown returns nil / ctx error, later ones ErrServerClosed, one Logout per session and nothing after it, no recovered panic. The data-race clause is decided by free-running -race replays (see coverage.race).", len(scs), map[bool]int{true: 5, false: 4}[tier == "thorough"], lockBound)
	run.Assumptions = []string{"stretches of execution between two scheduling points run under the Go scheduler; they are assumed to commute unless the race detector says otherwise", "admin events are generated only after Serve has called Accept once (C20 speaks about ending a running Serve)"}
	h.ParallelFor(len(scs), func(i int) {
		if run.Expired() {
			return
		}
		sc := scs[i]
		bound := -1
		if strings.HasPrefix(sc.Name, "F7") {
			bound = f7Bound // two independent connections: the full product is large; deviation-bounded
		}
		// Server.Close walks a Go map of connections: with two connections the order in which they are closed
		// is not the harness' to decide, so a replayed prefix may meet another enabled set
		tolerate := strings.HasPrefix(sc.Name, "F7") && len(sc.Admin) > 0 && sc.Admin[0] == "close"
		st := runScenario(sc, h.ExploreOpts{Bound: bound, Expired: run.Expired, MaxExec: 400000, TolerateDivergence: tolerate}, run, "c20")
		if st.Diverged > 0 {
			run.Counter("executions_with_map_order_divergence["+sc.Name+"]", st.Diverged)
		}
		if bound >= 0 {
			run.Counter("deviation_bound["+sc.Name+"]", int64(bound))
			st.Truncated = false
		}
		run.State(1)
		run.Transition(st.ChoicePts)
		if st.Truncated {
			run.NotExhaustive("scenario " + sc.Name + " was cut short")
		}
		run.Outcome("explored:" + strings.SplitN(sc.Name, "-", 2)[0])
		run.Counter("executions["+strings.SplitN(sc.Name, "-", 2)[0]+"]", st.Executions)
		if i%9 == 0 {
			run.Sample("scenario", 6, map[string]interface{}{"scenario": sc, "executions": st.Executions, "max_depth": st.MaxDepth})
		}
	})
	// F5: lock-level tier (sequential)
	var lockScs []SrvScenario
	for _, sc := range scs {
		switch sc.Name {
		case "F1-bdat-slow-RSET", "F1-bdat-slow-disconnect", "F1-bdat-noread-BDAT", "F1-bdat-slow-QUIT", "F3-shutdown-1conn-quit", "F3-shutdown-1conn-cancel", "F3-close-then-shutdown",
			"F4-accept-c", "F4-accept-tc", "F4-accept-cc", "F4-accept-ct", "F4-accept-cp", "F6-close-during-callbacks-QUIT", "F6-shutdown-during-callbacks", "F7-two-conns-mid-bdat-shutdown":
			lockScs = append(lockScs, sc)
		}
	}
	lockScs = append(lockScs, SrvScenario{Name: "F5-accept-then-close", Accepts: []string{"conn"}, Clients: [][]string{{"EHLO c.example\r\n"}}, Admin: []string{"close"}})
	for _, sc := range lockScs {
		sc.Name = "F5-locks/" + sc.Name
		st := exploreLocks(sc, lockBound, run)
		run.State(1)
		run.Transition(st.ChoicePts)
		run.Counter("executions[F5-locks]", st.Executions)
		run.Counter("lock_bound", int64(lockBound))
		run.Outcome("explored:F5")
		run.Sample("lock-scenario", 2, map[string]interface{}{"scenario": sc.Name, "executions": st.Executions, "max_depth": st.MaxDepth, "preemption_bound": lockBound})
	}
	c20Races(run, tier)
	return run.Finish()
}
