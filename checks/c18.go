package checks

import (
	"errors"
	"fmt"
	"strings"
	"time"

	smtp "github.com/emersion/go-smtp"
	"verif/h"
)

// C18: LMTP client reports each recipient's own status, transaction after transaction.

// One recipient: 'r' refused at RCPT, or accepted with final verdict 'o' (ok), 't' (4xx), 'p' (5xx).
type C18Case struct {
	Tx    []string `json:"tx"`               // per transaction: one letter per recipient
	UseCB bool     `json:"use_cb"`           // LMTPData with callback / Data without
	Plain bool     `json:"plain"`            // server backend without per-recipient support (every recipient gets the single result)
	NilCB bool     `json:"nil_cb,omitempty"` // without callback: LMTPData(nil) instead of Data()
	Alt   bool     `json:"alt,omitempty"`    // odd-numbered transactions use the other way (callback <-> none)
}

func c18Verdict(ch byte, rcpt string) error {
	switch ch {
	case 't':
		return &smtp.SMTPError{Code: 451, EnhancedCode: smtp.EnhancedCode{4, 4, 316}, Message: "later " + rcpt} // (a three-digit detail, as Exchange Online sends)
	case 'p':
		// (the enhanced code's class need not match the reply code's: the recipient's own reply is what the backend said)
		return &smtp.SMTPError{Code: 550, EnhancedCode: smtp.EnhancedCode{4, 2, 2}, Message: "never " + rcpt}
	}
	return nil
}

func evalC18(c C18Case) *h.Finding {
	var f *h.Finding
	desc := fmt.Sprintf("transactions=%v callback=%t plainbackend=%t", c.Tx, c.UseCB, c.Plain)
	if c.NilCB {
		desc += " (LMTPData(nil))"
	}
	if c.Alt {
		desc += " (alternating: every second transaction the other way)"
	}
	cfg := h.Config{LMTP: true}
	be := &h.Backend{LMTPSess: !c.Plain}
	name := func(ti, ri int, ch byte) string {
		p := "ok"
		if ch == 'r' {
			p = "rej"
		}
		return fmt.Sprintf("%st%dr%d@x.example", p, ti, ri)
	}
	// server side: per transaction status script
	var txWithData []int
	for ti, tx := range c.Tx {
		if strings.Trim(tx, "r") != "" {
			txWithData = append(txWithData, ti)
		}
	}
	be.Plan = func(idx int) h.DataPlan {
		if idx >= len(txWithData) {
			return h.ReadAll
		}
		ti := txWithData[idx]
		p := h.DataPlan{Max: -1}
		if c.Plain {
			// single result: the first accepted recipient's verdict
			for ri := 0; ri < len(c.Tx[ti]); ri++ {
				if ch := c.Tx[ti][ri]; ch != 'r' {
					p.Verdict = c18Verdict(ch, "all")
					break
				}
			}
			return p
		}
		for ri := 0; ri < len(c.Tx[ti]); ri++ {
			ch := c.Tx[ti][ri]
			if ch != 'r' {
				n := name(ti, ri, ch)
				p.Status = append(p.Status, h.StatusCall{Rcpt: n, Err: c18Verdict(ch, n), AfterRead: ri%2 == 0})
			}
		}
		return p
	}
	leak, pan := h.Bubble(func() {
		h.WithRealServer(cfg, be, false, func(cs *h.CS) {
			cl := cs.Client
			for ti, tx := range c.Tx {
				// Alt: the way of (not) supplying a callback alternates from transaction to transaction
				useCB, nilCB := c.UseCB, c.NilCB
				if c.Alt && ti%2 == 1 {
					useCB = !useCB
					nilCB = false
				}
				if err := cl.Mail(fmt.Sprintf("ok-sender%d@a.example", ti), nil); err != nil {
					f = h.F("c18-mail", "%s: Mail in transaction %d: %v", desc, ti, err)
					return
				}
				type exp struct {
					rcpt string
					ch   byte
				}
				var want []exp
				for ri := 0; ri < len(tx); ri++ {
					n := name(ti, ri, tx[ri])
					err := cl.Rcpt(n, nil)
					if tx[ri] == 'r' {
						if err == nil {
							f = h.F("c18-rcpt", "%s: refused recipient %s was reported accepted", desc, n)
							return
						}
						continue
					}
					if err != nil {
						f = h.F("c18-rcpt", "%s: Rcpt(%s): %v", desc, n, err)
						return
					}
					want = append(want, exp{n, tx[ri]})
				}
				if len(want) == 0 {
					// nothing to send: abandon the transaction
					if err := cl.Reset(); err != nil {
						f = h.F("c18-reset", "%s: Reset: %v", desc, err)
						return
					}
					continue
				}
				if c.Plain {
					// every recipient gets the single result
					for i := range want {
						want[i].ch = want[0].ch
					}
				}
				type got struct {
					rcpt string
					st   *smtp.SMTPError
				}
				var calls []got
				var w interface {
					Write([]byte) (int, error)
					Close() error
				}
				var err error
				if useCB {
					w, err = cl.LMTPData(func(rcpt string, st *smtp.SMTPError) { calls = append(calls, got{rcpt, st}) })
				} else if nilCB {
					w, err = cl.LMTPData(nil)
				} else {
					w, err = cl.Data()
				}
				if err != nil {
					f = h.F("c18-data", "%s: DATA in transaction %d: %v", desc, ti, err)
					return
				}
				fmt.Fprintf(w, "message of transaction %d\r\n", ti)
				cerr := w.Close()
				if useCB {
					if cerr != nil {
						f = h.F("c18-close", "%s: Close in transaction %d returned %v although the callback reports refusals", desc, ti, cerr)
						return
					}
					if len(calls) != len(want) {
						f = h.F("c18-callback-count", "%s: transaction %d: callback fired %d times (%v) for %d accepted recipients", desc, ti, len(calls), calls, len(want))
						return
					}
					for i, w := range want {
						g := calls[i]
						ve, _ := c18Verdict(w.ch, "").(*smtp.SMTPError)
						ok := g.rcpt == w.rcpt && (ve == nil) == (g.st == nil)
						if ok && ve != nil {
							ok = g.st.Code == ve.Code && g.st.EnhancedCode == ve.EnhancedCode && strings.Contains(g.st.Message, strings.TrimSpace(ve.Message))
							if !c.Plain {
								ok = ok && strings.Contains(g.st.Message, w.rcpt)
							}
						}
						if !ok {
							f = h.F("c18-callback-status", "%s: transaction %d: callback %d was (%s, %v), want recipient %s with verdict %q", desc, ti, i, g.rcpt, g.st, w.rcpt, w.ch)
							return
						}
					}
				} else {
					anyRefusal := false
					for _, w := range want {
						if w.ch != 'o' {
							anyRefusal = true
						}
					}
					if anyRefusal && cerr == nil {
						f = h.F("c18-refusal-lost", "%s: transaction %d: recipients were refused after DATA but Close returned nil", desc, ti)
						return
					}
					if !anyRefusal && cerr != nil {
						f = h.F("c18-close", "%s: transaction %d: every recipient was accepted but Close returned %v", desc, ti, cerr)
						return
					}
				}
				// Close has read exactly this transaction's replies: the connection is in step
				if err := cl.Noop(); err != nil {
					f = h.F("c18-out-of-step", "%s: after transaction %d Noop failed: %v", desc, ti, err)
					return
				}
			}
		})
	})
	if f != nil {
		return f
	}
	if pan != "" {
		return h.F("c18-harness-panic", "%s: %s", desc, pan)
	}
	if leak != "" {
		return h.F("c18-deadlock", "%s: the client waits for replies the server will never send (all goroutines blocked): %.200s", desc, leak)
	}
	return nil
}

func init() { h.RegisterReplayer("c18", evalC18) }

func C18(tier string) int {
	run := h.NewRun("C18", tier, "exploration", "", 25*time.Minute)
	maxTx := 2
	if tier == "thorough" {
		maxTx = 3
	}
	run.Rule = fmt.Sprintf("1..%d consecutive LMTP transactions on one client connection x 1..3 recipients each x every recipient in {refused at RCPT, accepted+ok, accepted+4xx, accepted+5xx} x {LMTPData with callback, Data() without, LMTPData(nil), alternating from transaction to transaction} x server backend {per-recipient statuses (set before/after the message is read), single result}; real client <-> real server in a synctest bubble (a client blocked on a reply that never comes is a runtime-detected deadlock). Distinct by construction; non-trivial = more than one transaction or a refusal. Oracle: callback exactly once per recipient accepted in THIS transaction, in order, with that recipient's own reply; Close returns after exactly those replies (a following NOOP is in step); without callback a refusal comes back from Close. In addition a SCRIPTED LMTP server that accepts recipients with 250, 251 or 252 (or refuses with 550): all recipient lists of <=3 over {250,251,252,550} x all final verdict vectors x {callback, none} x a second transaction; final replies with byte-identical text and different codes (450/550), and 421 as the verdict for one recipient, each followed by another transaction.", maxTx)
	var txs []string
	enumStrings([]byte("rotp"), 3, func(s []byte) {
		if len(s) > 0 {
			txs = append(txs, string(s))
		}
	})
	var cases []C18Case
	var rec func(cur []string)
	rec = func(cur []string) {
		if len(cur) > 0 {
			for _, cb := range []bool{true, false} {
				for _, plain := range []bool{false, true} {
					cases = append(cases, C18Case{Tx: append([]string(nil), cur...), UseCB: cb, Plain: plain})
					if !cb {
						cases = append(cases, C18Case{Tx: append([]string(nil), cur...), Plain: plain, NilCB: true})
					}
					if len(cur) > 1 {
						cases = append(cases, C18Case{Tx: append([]string(nil), cur...), UseCB: cb, Plain: plain, Alt: true})
					}
				}
			}
		}
		if len(cur) == maxTx {
			return
		}
		for _, t := range txs {
			rec(append(cur, t))
		}
	}
	rec(nil)
	h.ParallelFor(len(cases), func(i int) {
		if run.Expired() {
			return
		}
		c := cases[i]
		f := evalC18(c)
		run.Eval(len(c.Tx) > 1 || strings.ContainsAny(c.Tx[0], "rtp"))
		if f != nil {
			run.Violate("c18", c, f, func() *h.Finding { return evalC18(c) })
			run.Outcome("violation:" + f.Sig)
		} else {
			run.Outcome(fmt.Sprintf("ok tx=%d cb=%t", len(c.Tx), c.UseCB))
		}
		if i%3001 == 7 {
			run.Sample("case", 5, c)
		}
	})
	scases := c18ScriptCases(maxTx)
	h.ParallelFor(len(scases), func(i int) {
		c := scases[i]
		f := evalC18Script(c)
		run.Eval(true)
		if f != nil {
			run.Violate("c18-script", c, f, func() *h.Finding { return evalC18Script(c) })
			run.Outcome("violation:" + f.Sig)
		} else {
			run.Outcome("scripted-ok")
		}
		if i%997 == 1 {
			run.Sample("scripted-case", 3, c)
		}
	})
	// the connection ends or falls silent in the middle of an answer (checks/c17.go)
	run.Rule += clientFaultRule
	clientFaultFamily(run, "C18")
	// histories of client calls (explicit-state search, checks/clientbfs.go)
	run.Rule += clientSearchRule
	clientSearch(run, "C18", 0)
	return run.Finish()
}

// ---- scripted LMTP server: recipients accepted with 250, 251 or 252 ---------------------------

type C18ScriptCase struct {
	Tx    []string `json:"tx"`    // per transaction, per recipient one letter: 0=250 1=251 2=252 (accepted) r=550 (refused at RCPT)
	Final []string `json:"final"` // per transaction, per ACCEPTED recipient: o (250) or p (550) after the end of data
	UseCB bool     `json:"use_cb"`
	// RefuseData: the server answers the first DATA command of every transaction with that code (451, 503, 554); the
	// client then issues DATA again in the same transaction - whose recipients are still the ones accepted before
	RefuseData int `json:"refuse_data,omitempty"`
}

func evalC18Script(c C18ScriptCase) *h.Finding {
	var f *h.Finding
	desc := fmt.Sprintf("scripted LMTP server: recipients=%v final=%v callback=%t first-DATA-refused-with=%d", c.Tx, c.Final, c.UseCB, c.RefuseData)
	tx := -1
	var accepted []string
	inData := false
	dataTries := map[int]int{}
	script := func(line string, n int) []byte {
		if inData {
			if line != "." {
				return []byte{}
			}
			inData = false
			var sb strings.Builder
			for i, r := range accepted {
				switch c.Final[tx][i] {
				case 'o':
					fmt.Fprintf(&sb, "250 2.1.5 <%s> delivered\r\n", r)
				case 't':
					// the same text as 'q' down to the last octet, another reply code
					sb.WriteString("450 4.2.2 over quota\r\n")
				case 'q':
					sb.WriteString("550 4.2.2 over quota\r\n")
				case 's':
					// a slow queue: six minutes pass before this recipient's (positive) reply - longer than the client's
					// CommandTimeout, well within its SubmissionTimeout
					fmt.Fprintf(&sb, "\x00SLEEP\x00250 2.1.5 <%s> delivered at last\r\n", r)
				case 'x':
					// 421 as the verdict for ONE recipient: a reply like any other, the connection goes on
					fmt.Fprintf(&sb, "421 4.3.2 <%s> shutting down this queue\r\n", r)
				default:
					fmt.Fprintf(&sb, "550 5.2.2 <%s> mailbox full\r\n", r)
				}
			}
			return []byte(sb.String())
		}
		up := strings.ToUpper(line)
		switch {
		case strings.HasPrefix(up, "LHLO"):
			return []byte("250-fake.example\r\n250 PIPELINING\r\n")
		case strings.HasPrefix(up, "MAIL"):
			tx++
			accepted = nil
			return []byte("250 2.1.0 ok\r\n")
		case strings.HasPrefix(up, "RCPT"):
			addr := line[strings.IndexByte(line, '<')+1 : strings.IndexByte(line, '>')]
			switch addr[0] {
			case '0':
				accepted = append(accepted, addr)
				return []byte("250 2.1.5 ok\r\n")
			case '1':
				accepted = append(accepted, addr)
				return []byte("251 2.1.5 user not local; will forward\r\n")
			case '2':
				accepted = append(accepted, addr)
				return []byte("252 2.1.5 cannot verify, will try\r\n")
			}
			return []byte("550 5.1.1 no such user\r\n")
		case strings.HasPrefix(up, "DATA"):
			if c.RefuseData != 0 && dataTries[tx] == 0 {
				dataTries[tx]++
				return []byte(fmt.Sprintf("%d %d.3.0 not right now\r\n", c.RefuseData, c.RefuseData/100))
			}
			inData = true
			return []byte("354 go ahead\r\n")
		case strings.HasPrefix(up, "QUIT"):
			return []byte("221 2.0.0 bye\r\n")
		}
		return []byte("250 2.0.0 ok\r\n")
	}
	leak, pan := h.Bubble(func() {
		h.WithScriptedServer("220 fake.example LMTP\r\n", script, true, func(cs *h.CS) {
			cl := cs.Client
			for ti, rc := range c.Tx {
				if err := cl.Mail("s@a.example", nil); err != nil {
					f = h.F("c18s-mail", "%s: Mail: %v", desc, err)
					return
				}
				var want []string
				for ri := 0; ri < len(rc); ri++ {
					addr := fmt.Sprintf("%ct%dr%d@x.example", rc[ri], ti, ri)
					err := cl.Rcpt(addr, nil)
					if rc[ri] == 'r' {
						if err == nil {
							f = h.F("c18s-rcpt", "%s: refused recipient reported accepted", desc)
							return
						}
						continue
					}
					if err != nil {
						f = h.F("c18s-accepted-rcpt-error", "%s: the server accepted %s with 25%c but Rcpt returned %v", desc, addr, rc[ri], err)
						return
					}
					want = append(want, addr)
				}
				if len(want) == 0 {
					cl.Reset()
					continue
				}
				type got struct {
					rcpt string
					ok   bool
					code int
				}
				var calls []got
				codeOf := map[byte]int{'o': 0, 's': 0, 'p': 550, 't': 450, 'q': 550, 'x': 421}
				var w interface {
					Write([]byte) (int, error)
					Close() error
				}
				var err error
				open := func() {
					if c.UseCB {
						w, err = cl.LMTPData(func(r string, st *smtp.SMTPError) {
							g := got{rcpt: r, ok: st == nil}
							if st != nil {
								g.code = st.Code
							}
							calls = append(calls, g)
						})
					} else {
						w, err = cl.Data()
					}
				}
				open()
				if c.RefuseData != 0 {
					var se *smtp.SMTPError
					if !errors.As(err, &se) || se.Code != c.RefuseData {
						f = h.F("c18s-data-refusal", "%s: the server answered DATA with %d; the client returned %v", desc, c.RefuseData, err)
						return
					}
					open() // once more, in the same transaction
				}
				if err != nil {
					f = h.F("c18s-data", "%s: DATA: %v", desc, err)
					return
				}
				w.Write([]byte("x\r\n"))
				cerr := w.Close()
				if c.UseCB {
					if cerr != nil || len(calls) != len(want) {
						f = h.F("c18s-callbacks", "%s: transaction %d: Close=%v, callback fired %d times for %d accepted recipients", desc, ti, cerr, len(calls), len(want))
						return
					}
					for i, wnt := range want {
						if calls[i].rcpt != wnt || calls[i].ok != (c.Final[ti][i] == 'o' || c.Final[ti][i] == 's') || calls[i].code != codeOf[c.Final[ti][i]] {
							f = h.F("c18s-callback-status", "%s: transaction %d: callback %d was (%s, ok=%t, code %d), want (%s, ok=%t, code %d)", desc, ti, i, calls[i].rcpt, calls[i].ok, calls[i].code, wnt, c.Final[ti][i] == 'o', codeOf[c.Final[ti][i]])
							return
						}
					}
				} else if (cerr != nil) != strings.ContainsAny(c.Final[ti], "ptqx") {
					f = h.F("c18s-close", "%s: transaction %d: Close returned %v", desc, ti, cerr)
					return
				}
				if err := cl.Noop(); err != nil {
					f = h.F("c18s-out-of-step", "%s: Noop after transaction %d: %v", desc, ti, err)
					return
				}
			}
		}, nil)
	})
	if f != nil {
		return f
	}
	if pan != "" {
		return h.F("c18-harness-panic", "%s: %s", desc, pan)
	}
	if leak != "" {
		return h.F("c18-deadlock", "%s: the client waits for replies the server will never send: %.200s", desc, leak)
	}
	return nil
}

func init() { h.RegisterReplayer("c18-script", evalC18Script) }

func reverse(s string) string {
	b := []byte(s)
	for i, j := 0, len(b)-1; i < j; i, j = i+1, j-1 {
		b[i], b[j] = b[j], b[i]
	}
	return string(b)
}

func c18ScriptCases(maxTx int) []C18ScriptCase {
	var txs []struct{ rc, fin string }
	enumStrings([]byte("012r"), 3, func(s []byte) {
		if len(s) == 0 {
			return
		}
		acc := 0
		for _, ch := range s {
			if ch != 'r' {
				acc++
			}
		}
		enumStrings([]byte("op"), acc, func(fin []byte) {
			if len(fin) == acc {
				txs = append(txs, struct{ rc, fin string }{string(s), string(fin)})
			}
		})
	})
	var out []C18ScriptCase
	// identical reply texts with different codes, and 421 as the verdict for one recipient - followed by another
	// transaction on the connection
	for _, fin := range []string{"tq", "qt", "tqt", "qtq", "tt", "qq", "xo", "ox", "oxo", "pxp", "xx", "x", "os", "so", "oso", "sp"} {
		rc := strings.Repeat("0", len(fin))
		for _, cb := range []bool{true, false} {
			out = append(out, C18ScriptCase{Tx: []string{rc}, Final: []string{fin}, UseCB: cb},
				C18ScriptCase{Tx: []string{rc, "01"}, Final: []string{fin, "op"}, UseCB: cb},
				C18ScriptCase{Tx: []string{rc, rc}, Final: []string{fin, reverse(fin)}, UseCB: cb})
		}
	}
	// DATA refused once and issued again in the same transaction, followed by another transaction
	for _, code := range []int{451, 503, 554} {
		for _, cb := range []bool{true, false} {
			for _, t := range []struct{ rc, fin string }{{"0", "o"}, {"01", "op"}, {"0r2", "po"}, {"012", "opo"}} {
				out = append(out, C18ScriptCase{Tx: []string{t.rc}, Final: []string{t.fin}, UseCB: cb, RefuseData: code},
					C18ScriptCase{Tx: []string{t.rc, "01"}, Final: []string{t.fin, "po"}, UseCB: cb, RefuseData: code})
			}
		}
	}
	for _, a := range txs {
		for _, cb := range []bool{true, false} {
			out = append(out, C18ScriptCase{Tx: []string{a.rc}, Final: []string{a.fin}, UseCB: cb})
			if maxTx >= 2 {
				for _, b := range []struct{ rc, fin string }{{"01", "op"}, {"2r1", "po"}} {
					out = append(out, C18ScriptCase{Tx: []string{a.rc, b.rc}, Final: []string{a.fin, b.fin}, UseCB: cb})
				}
			}
		}
	}
	return out
}
