package checks

import (
	"bytes"
	"fmt"
	"io"
	"strings"
	"sync"
	"time"

	"verif/h"
	"verif/ref"
)

// C02: only <CRLF>.<CRLF> ends DATA; commands resume exactly after it.

type C02Case struct {
	Mode    string `json:"mode"` // smtp | lmtp | lmtp-rcpt (per-recipient backend)
	Msg     []byte `json:"msg"`  // octets between the 354 reply and the final end marker
	Show    string `json:"show"`
	ReadMax int    `json:"readmax"` // backend reads at most this many octets (-1: all)
	Reject  bool   `json:"reject"`
	Limit   int64  `json:"limit"`
	Cuts    []int  `json:"cuts"`               // -1 in first position: one octet per segment; offsets are relative to the start of the message
	LineMax int    `json:"line_max,omitempty"` // Server.MaxLineLength (0: default); above 4096 it exceeds the read buffer
	// Verdict: "" (accept/reject as Reject says) | "unexpected-eof": the backend returns io.ErrUnexpectedEOF (wrapped), an
	// error value that ALSO means "the connection ended" elsewhere - here the connection is alive
	Verdict string `json:"verdict,omitempty"`
	// Slow: ReadTimeout 30 min, WriteTimeout 10 s, and the peer pauses 40 virtual seconds before every segment: longer than
	// the write timeout, far shorter than the read timeout - the transfer is slow, nothing times out
	Slow bool `json:"slow,omitempty"`
}

const c02Follow = "MAIL FROM:<okmark1@x>\r\nRCPT TO:<okmark2@x>\r\nNOOP\r\n"

func hello(mode string) string {
	if strings.HasPrefix(mode, "lmtp") {
		return "LHLO c.example\r\n"
	}
	return "EHLO c.example\r\n"
}

func modeConfig(mode string) (h.Config, *h.Backend) {
	cfg := h.Config{LMTP: strings.HasPrefix(mode, "lmtp"), AllowInsecureAuth: true}
	be := &h.Backend{LMTPSess: mode == "lmtp-rcpt", Auth: true, Mechs: saslMechs, NewSASL: newSASL}
	return cfg, be
}

type tailObs struct {
	replies []string
	calls   []string
	closed  bool
}

func tailOf(o *h.Obs, nPrefixReplies int) (tailObs, bool) {
	var t tailObs
	if len(o.Replies) < nPrefixReplies {
		return t, false
	}
	for _, r := range o.Replies[nPrefixReplies:] {
		t.replies = append(t.replies, r.String())
	}
	seen := false
	for _, e := range o.Trace {
		if seen && e.Kind != "SetStatus" {
			t.calls = append(t.calls, fmt.Sprintf("%s(%s)%s", e.Kind, e.Arg, e.Opts))
		}
		if e.Kind == "Data" || e.Kind == "LMTPData" {
			if !seen {
				seen = true
			}
		}
	}
	t.closed = o.Closed
	return t, seen
}

var c02RefCache sync.Map

// c02Reference: what the commands in rest do on a connection on which a
// trivial message has just been transferred (same mode).
func c02Reference(mode string, rest []byte) tailObs {
	key := mode + "\x00" + string(rest)
	if v, ok := c02RefCache.Load(key); ok {
		return v.(tailObs)
	}
	cfg, be := modeConfig(mode)
	in := hello(mode) + "MAIL FROM:<ok@a.example>\r\nRCPT TO:<ok@b.example>\r\nDATA\r\nx\r\n.\r\n" + string(rest)
	o := h.RunS(cfg, be, h.OneSeg([]byte(in)), h.TermEOF)
	o.Replies, o.ParseErr = ref.ParseRepliesLenient(o.Wire)
	t, _ := tailOf(o, 6)
	c02RefCache.Store(key, t)
	return t
}

func evalC02(c C02Case) *h.Finding {
	f, _ := evalC02o(c)
	return f
}

// evalC02o also returns a short description of what was observed (for the outcome histogram of the evidence).
func evalC02o(c C02Case) (*h.Finding, string) {
	f, o, rest := evalC02x(c)
	if f != nil || o == nil {
		return f, ""
	}
	out := "data-reply=?"
	if len(o.Replies) > 5 {
		out = fmt.Sprintf("data-reply=%d", o.Replies[5].Code)
	}
	if len(rest) > len(c02Follow) {
		out += " end-marker-inside-the-message"
	}
	return nil, fmt.Sprintf("%s replies-behind-it=%d closed=%t", out, len(o.Replies)-6, o.Closed)
}

func evalC02x(c C02Case) (*h.Finding, *h.Obs, []byte) {
	cfg, be := modeConfig(c.Mode)
	cfg.MaxMessageBytes = c.Limit
	cfg.MaxLineLength = c.LineMax
	if c.Slow {
		cfg.ReadTO, cfg.WriteTO, cfg.PeerPause = 30*time.Minute, 10*time.Second, true
	}
	var verdict error
	if c.Reject {
		verdict = h.RejErr("message")
	}
	if c.Verdict == "unexpected-eof" {
		verdict = fmt.Errorf("decoding the message: %w", io.ErrUnexpectedEOF)
	}
	be.Plan = func(int) h.DataPlan { return h.DataPlan{Max: c.ReadMax, Verdict: verdict, KeepErr: true} }
	pro := hello(c.Mode) + "MAIL FROM:<ok@a.example>\r\nRCPT TO:<ok@b.example>\r\nDATA\r\n"
	stream := append(append([]byte(nil), c.Msg...), "\r\n.\r\n"...)
	stream = append(stream, c02Follow...)
	_, rest, complete := ref.Unstuff(stream)
	if !complete {
		return h.F("harness-error", "no end marker"), nil, nil
	}
	full := append([]byte(pro), stream...)
	var segs [][]byte
	if len(c.Cuts) > 0 && c.Cuts[0] == -1 {
		segs = h.PerOctet(full)
	} else {
		var cuts []int
		for _, k := range c.Cuts {
			cuts = append(cuts, len(pro)+k)
		}
		segs = h.SplitAt(full, cuts...)
	}
	o := h.RunS(cfg, be, segs, h.TermEOF)
	desc := fmt.Sprintf("mode=%s msg=%q readmax=%d reject=%t limit=%d cuts=%v", c.Mode, c.Msg, c.ReadMax, c.Reject, c.Limit, c.Cuts)
	if f := o.Sanity("c02", desc); f != nil {
		return f, nil, nil
	}
	// lines after an early end marker are executed as (unknown) commands, and the server echoes them,
	// control octets included: the reply text is not C02's subject, so the wire is parsed leniently
	o.Replies, o.ParseErr = ref.ParseRepliesLenient(o.Wire)
	if o.ParseErr != nil {
		return h.F("c02-bad-wire", "%s: %v", desc, o.ParseErr), nil, nil
	}
	baitInRest := bytes.Contains(rest, []byte("bait@"))
	if !baitInRest {
		for _, e := range o.Trace {
			if strings.Contains(e.Arg, "bait@") {
				return h.F("c02-bait-executed", "%s: message content was executed as a command: backend saw %s(%s); replies %s", desc, e.Kind, e.Arg, o.Codes()), nil, nil
			}
		}
	}
	got, sawData := tailOf(o, 6)
	if !sawData {
		return h.F("c02-no-data", "%s: no Data call; replies %s", desc, o.Codes()), nil, nil
	}
	if len(o.Replies) < 6 || o.Replies[4].Code != 354 {
		return h.F("c02-prefix", "%s: unexpected replies before the message: %s", desc, o.Codes()), nil, nil
	}
	// when a segment ends exactly behind the first true end marker, the answer to DATA is due before the server takes a
	// single octet of the next segment: the end marker, and nothing later, ends the message
	if end := len(full) - len(rest); len(c.Cuts) == 1 && len(pro)+c.Cuts[0] == end && len(o.ReplyAt) > 5 && o.ReplyAt[5] > end {
		return h.F("c02-end-marker-did-not-end-the-message", "%s: the server answered DATA (%s) only after it had taken %d octets of input; the end marker ends at octet %d", desc, o.Replies[5].String(), o.ReplyAt[5], end), nil, nil
	}
	want := c02Reference(c.Mode, rest)
	if strings.Join(got.replies, "|") != strings.Join(want.replies, "|") {
		return h.F("c02-desync-replies", "%s: after the final DATA reply (%s) the server answered [%s]; the lines after the end marker %q call for [%s]",
			desc, o.Replies[5].String(), strings.Join(got.replies, " | "), rest, strings.Join(want.replies, " | ")), nil, nil
	}
	if strings.Join(got.calls, "|") != strings.Join(want.calls, "|") {
		return h.F("c02-desync-calls", "%s: backend calls after the message: %v, want %v", desc, got.calls, want.calls), nil, nil
	}
	if got.closed != want.closed {
		return h.F("c02-desync-closed", "%s: closed=%v want %v", desc, got.closed, want.closed), nil, nil
	}
	return nil, o, rest
}

func init() { h.RegisterReplayer("c02", evalC02) }

var c02Tokens = []string{
	"hello\r\n",
	"MAIL FROM:<bait@x>\r\n",
	"\n.\n",
	"\n.\r\n",
	"x\r\n.\n",
	"\r.\r",
	"\r\r\n",
	"..\r\n",
	".x\r\n",
	"QUIT\r\n",
}

// ---- a message line longer than the line limit -------------------------------------------------------------------

type C02LongCase struct {
	Mode  string `json:"mode"`
	Where string `json:"where"` // only | last | before-dot-line | middle
	Seg   string `json:"seg"`   // one | octet | split (two segments, cut at Cut)
	Cut   int    `json:"cut,omitempty"`
}

// evalC02Long: the server may refuse such a message and may even close the connection; but if it keeps the connection,
// the message still ends at its end marker and the commands behind it are executed - not swallowed.
func evalC02Long(c C02LongCase) *h.Finding {
	cfg, be := modeConfig(c.Mode)
	cfg.MaxLineLength = 40
	long := strings.Repeat("L", 60) + "\r\n"
	var msg string
	switch c.Where {
	case "only":
		msg = long
	case "last":
		msg = "first\r\n" + long
	case "before-dot-line":
		msg = "first\r\n" + long + "..stuffed\r\nlast\r\n"
	default:
		msg = "first\r\n" + long + "last\r\n"
	}
	in := []byte(hello(c.Mode) + "MAIL FROM:<ok@a.example>\r\nRCPT TO:<ok@b.example>\r\nDATA\r\n" + msg + ".\r\n" + c02Follow + "DATA\r\nsecond message\r\n.\r\nQUIT\r\n")
	segs := h.OneSeg(in)
	if c.Seg == "octet" {
		segs = h.PerOctet(in)
	}
	if c.Seg == "split" {
		if c.Cut <= 0 || c.Cut >= len(in) {
			return nil
		}
		segs = h.SplitAt(in, c.Cut)
	}
	if c.Seg == "msg" {
		// the commands up to DATA in one read, the message in two (cut at Cut; 0: in one) - the second one ending exactly
		// behind the end marker -, everything behind the end marker in a read of its own
		if c.Cut > len(msg) {
			return nil
		}
		pro := len(hello(c.Mode) + "MAIL FROM:<ok@a.example>\r\nRCPT TO:<ok@b.example>\r\nDATA\r\n")
		end := pro + len(msg) + 3
		if c.Cut == 0 {
			segs = h.SplitAt(in, pro, end)
		} else {
			segs = h.SplitAt(in, pro, pro+c.Cut, end)
		}
	}
	o := h.RunS(cfg, be, segs, h.TermEOF)
	desc := fmt.Sprintf("mode=%s: a message whose %s line has 60 octets (MaxLineLength 40), segmentation %s (cut %d)", c.Mode, c.Where, c.Seg, c.Cut)
	if f := o.Sanity("c02", desc); f != nil {
		return f
	}
	if c.Seg == "msg" {
		// the read that holds the end marker ends exactly behind it: the answer to DATA is due before the server takes
		// a single octet of what follows (whatever the answer is) - the end marker, and nothing later, ends the message
		end := len(hello(c.Mode)+"MAIL FROM:<ok@a.example>\r\nRCPT TO:<ok@b.example>\r\nDATA\r\n") + len(msg) + 3
		for i, r := range o.Replies {
			if r.Code == 354 && i+1 < len(o.Replies) && i+1 < len(o.ReplyAt) && o.ReplyAt[i+1] > end {
				return h.F("c02-end-marker-did-not-end-the-message", "%s: the server answered DATA (%s) only after it had taken %d octets of input; the end marker ends at octet %d: something later ended the message", desc, o.Replies[i+1].String(), o.ReplyAt[i+1], end)
			}
			if r.Code == 354 {
				break
			}
		}
	}
	marks := 0
	for _, e := range o.Trace {
		if (e.Kind == "Mail" && e.Arg == "okmark1@x") || (e.Kind == "Rcpt" && e.Arg == "okmark2@x") {
			marks++
		}
		if (e.Kind == "Mail" || e.Kind == "Rcpt") && !strings.HasPrefix(e.Arg, "ok") {
			return h.F("c02-bait-executed", "%s: message text was executed: %s(%s)", desc, e.Kind, e.Arg)
		}
	}
	second := false
	for _, e := range o.Trace {
		if (e.Kind == "Data" || e.Kind == "LMTPData") && string(e.Body) == "second message\r\n" && e.ReadErr == "EOF" {
			second = true
		}
	}
	// the server either gave up on the connection (it never gets to answer QUIT) or it stayed in the conversation -
	// then every command behind the first end marker was executed, in particular the second transfer
	n := len(o.Replies)
	if stayed := n > 0 && o.Replies[n-1].Code == 221; stayed && (marks != 2 || !second) {
		return h.F("c02-follow-up-swallowed", "%s: the server stayed in the conversation up to QUIT, yet the commands behind the first end marker were not all executed (%d of 2 markers, second message delivered: %t; replies %s): the message did not end at its end marker", desc, marks, second, o.Codes())
	}
	return nil
}

func init() { h.RegisterReplayer("c02-long", evalC02Long) }

// ---- a message before and a message after a STARTTLS upgrade ------------------------------------------------------------

type C02UpgradeCase struct {
	Mode  string `json:"mode"`
	First string `json:"first"` // what was transferred in plaintext before the upgrade: none | data | bdat | data+bdat
	Msg   int    `json:"msg"`   // index into c02UpgradeMsgs: the message sent with DATA inside TLS
	Via   string `json:"via"`   // data | bdat: how the message inside TLS is sent
}

var c02UpgradeMsgs = []string{
	"plain line\r\n",
	"MAIL FROM:<bait@x.example>\r\n\n.\nRCPT TO:<bait@x.example>\r\n",
	"a\n.\r\nMAIL FROM:<bait@x.example>\r\nb\r\n.\nQUIT\r\n",
	"..\r\n.x\r\n\r.\r\r\r\nMAIL FROM:<bait@x.example>\r\n",
	"",
}

// evalC02Upgrade: one connection, a message in plaintext, STARTTLS (real handshake), a message inside TLS followed by
// pipelined commands. Everything the server keeps per connection for reading messages has to follow the upgrade:
// the message inside TLS ends at ITS end marker and the commands behind it are executed, nothing of it is.
func evalC02Upgrade(c C02UpgradeCase) *h.Finding {
	cfg, be := modeConfig(c.Mode)
	cfg.TLSAvailable = true
	var f *h.Finding
	desc := fmt.Sprintf("mode=%s: plaintext transfer %q, STARTTLS, then message %q via %s inside TLS with NOOP and MAIL pipelined behind it", c.Mode, c.First, c02UpgradeMsgs[c.Msg], c.Via)
	var tail []byte
	leak, pan := h.Bubble(func() {
		live := h.NewLive(cfg, be, false)
		live.Greeting()
		hl := hello(c.Mode)
		live.Send([]byte(hl))
		env := "MAIL FROM:<ok@a.example>\r\nRCPT TO:<ok@b.example>\r\n"
		if strings.Contains(c.First, "data") {
			live.Send([]byte(env + "DATA\r\n"))
			live.Send([]byte("first, in plaintext\r\n.\r\n"))
		}
		if strings.Contains(c.First, "bdat") {
			live.Send([]byte(env + "BDAT 7\r\nchunked"))
			live.Send([]byte("BDAT 6 LAST\r\n first"))
		}
		if out := live.Send([]byte("STARTTLS\r\n")); !strings.HasPrefix(string(out), "220") {
			f = h.F("c02-upgrade-harness", "%s: STARTTLS answered %q", desc, out)
			return
		}
		if err := live.StartTLSHandshake(); err != nil {
			f = h.F("c02-upgrade-harness", "%s: handshake failed: %v", desc, err)
			return
		}
		live.Send([]byte(hl))
		live.NewEvents()
		msg := c02UpgradeMsgs[c.Msg]
		follow := "NOOP\r\nMAIL FROM:<okafter@a.example>\r\n"
		if c.Via == "data" {
			live.Send([]byte(env + "DATA\r\n"))
			tail = live.Send([]byte(msg + "\r\n.\r\n" + follow))
		} else {
			tail = live.Send([]byte(env + fmt.Sprintf("BDAT %d LAST\r\n%s", len(msg), msg) + follow))
		}
		live.Hangup(h.TermEOF)
	})
	if f != nil {
		return f
	}
	if pan != "" {
		return h.F("c02-harness-panic", "%s: %s", desc, pan)
	}
	if leak != "" {
		return h.F("c02-goroutine-leak", "%s: %.300s", desc, leak)
	}
	if a := be.FirstAnomaly(); a != "" {
		return h.F("c02-backend-anomaly", "%s: %s", desc, a)
	}
	want := []byte(c02UpgradeMsgs[c.Msg])
	if c.Via == "data" {
		want, _, _ = ref.Unstuff([]byte(c02UpgradeMsgs[c.Msg] + "\r\n.\r\n"))
	}
	var last *h.Event
	after := false
	tr := be.Trace()
	for i, e := range tr {
		if strings.Contains(e.Arg, "bait@") {
			return h.F("c02-bait-executed", "%s: message text was executed as a command: %s(%s)", desc, e.Kind, e.Arg)
		}
		if e.Kind == "Data" || e.Kind == "LMTPData" {
			last = &tr[i]
		}
		if e.Kind == "Mail" && strings.HasPrefix(e.Arg, "okafter@") {
			after = true
		}
	}
	if last == nil || !bytes.Equal(last.Body, want) || last.ReadErr != "EOF" {
		got := "no delivery"
		if last != nil {
			got = fmt.Sprintf("%q (%s)", last.Body, last.ReadErr)
		}
		return h.F("c02-upgrade-message", "%s: the backend read %s, want %q then EOF", desc, got, want)
	}
	rs, err := ref.ParseReplies(tail)
	nFinal := 1
	wantReplies := nFinal + 2
	if c.Via == "bdat" {
		wantReplies += 2 // MAIL and RCPT travel in the same send
	}
	if err != nil || len(rs) != wantReplies || rs[len(rs)-1].Code != 250 || rs[len(rs)-2].Code != 250 || !after {
		return h.F("c02-desync-after-upgrade", "%s: behind the message NOOP and MAIL must be executed next (250, 250; Mail callback: %t); the server answered %q", desc, after, tail)
	}
	return nil
}

func init() { h.RegisterReplayer("c02-upgrade", evalC02Upgrade) }

// ---- a silence longer than ReadTimeout inside the message -------------------------------------------------------------

type C02SilenceCase struct {
	Mode string `json:"mode"`
	Cut  int    `json:"cut"` // octets of the message that arrive before the silence
}

const c02SilenceMsg = "first line\r\nMAIL FROM:<bait@x.example>\r\nRCPT TO:<bait@x.example>\r\nlast line\r\n"

// evalC02Silence: ReadTimeout one minute; after Cut octets of the message the peer is silent for five minutes and then
// sends the rest. Whatever the server makes of the timeout, the rest of the message is message text or nothing at all:
// its lines are never executed as commands.
func evalC02Silence(c C02SilenceCase) *h.Finding {
	cfg, be := modeConfig(c.Mode)
	cfg.ReadTO, cfg.WriteTO = time.Minute, time.Minute
	pro := hello(c.Mode) + "MAIL FROM:<ok@a.example>\r\nRCPT TO:<ok@b.example>\r\nDATA\r\n"
	segs := [][]byte{[]byte(pro + c02SilenceMsg[:c.Cut]), []byte(c02SilenceMsg[c.Cut:] + ".\r\nNOOP\r\n")}
	cfg.LongPauseBefore = 2
	o := h.RunS(cfg, be, segs, h.TermEOF)
	desc := fmt.Sprintf("mode=%s: %d octets of the message, five minutes of silence (ReadTimeout 1m), then the rest", c.Mode, c.Cut)
	if f := o.Sanity("c02", desc); f != nil {
		return f
	}
	for _, e := range o.Trace {
		if strings.Contains(e.Arg, "bait@") {
			return h.F("c02-bait-executed", "%s: message text was executed as a command: %s(%s); replies %s", desc, e.Kind, e.Arg, o.Codes())
		}
	}
	return nil
}

func init() { h.RegisterReplayer("c02-silence", evalC02Silence) }

func C02(tier string) int {
	run := h.NewRun("C02", tier, "exploration", "", 20*time.Minute)
	maxTok := 3
	if tier == "thorough" {
		maxTok = 4
	}
	run.Rule = fmt.Sprintf("messages = all sequences of <=%d tokens from %q, terminated by CRLF.CRLF and followed by pipelined marker commands; x backend {reads all, 0, 1, n/2 octets} x {accept, reject} x size limit {none, n/2, n, n+10} x {SMTP, LMTP plain backend, LMTP per-recipient backend} x segmentation {one segment, one octet per segment, every 2-split from 4 octets before to 6 after the end marker; one segment also with MaxLineLength 8192, i.e. above the read-buffer size; every 2-split also from a SLOW peer: 40 virtual seconds of silence in the middle, WriteTimeout 10 s, ReadTimeout 30 min}. Distinct by construction; non-trivial = message contains a bait command or a terminator look-alike. Plus lines of 4090..12288 octets (around the multiples of the 4096-octet buffer), in the middle of the message and as its last line in front of the end marker, with a backend that returns early (after 0, 4, 10 octets), the backend verdict io.ErrUnexpectedEOF on a live connection, and messages with a line longer than MaxLineLength at 4 positions, in one segment, per octet, in every 2-split of the conversation and with the message in reads of its own (cut at every position, the last read ending exactly behind the end marker) (refused and closed, or the message still ends at its end marker). Oracle: no bait address reaches the backend; replies and backend calls after the final DATA reply equal those the lines after the first true end marker (ref.Unstuff) produce on a connection that just finished a trivial transaction (differential).", maxTok, c02Tokens)
	run.Rule += " Also: ReadTimeout 1 min and five minutes of silence at every offset of a message with bait lines, then the rest (3 modes): no line of the message is executed. Also: a message transferred in plaintext (DATA, BDAT, both), STARTTLS with a real handshake, then each of 5 messages with bait and look-alikes via DATA / BDAT LAST inside TLS with NOOP and MAIL pipelined behind it, x 3 modes: the message ends at its own end marker, the commands behind it run, none of its text does."
	run.Assumptions = []string{"reply codes of the DATA command itself are judged by C04/C06, not here", "the reference run (same server code, trivial message) defines what the follow-up commands do; only its agreement with the run under test is judged"}
	var msgs [][]int
	var rec func(cur []int)
	rec = func(cur []int) {
		msgs = append(msgs, append([]int(nil), cur...))
		if len(cur) == maxTok {
			return
		}
		for t := range c02Tokens {
			rec(append(cur, t))
		}
	}
	rec(nil)
	modes := []string{"smtp", "lmtp", "lmtp-rcpt"}
	h.ParallelFor(len(msgs), func(mi int) {
		if run.Expired() {
			return
		}
		var msg []byte
		nontrivial := false
		for _, t := range msgs[mi] {
			msg = append(msg, c02Tokens[t]...)
			if t != 0 {
				nontrivial = true
			}
		}
		body, _, _ := ref.Unstuff(append(append([]byte(nil), msg...), "\r\n.\r\n"...))
		n := len(body)
		out := map[string]int64{}
		var cutsList [][]int
		cutsList = append(cutsList, nil, []int{-1})
		for k := len(msg) - 4; k <= len(msg)+6; k++ {
			if k > 0 {
				cutsList = append(cutsList, []int{k})
			}
		}
		readMaxes := []int{-1, 0, 1, n / 2}
		limits := []int64{0, int64(n / 2), int64(n), int64(n + 10)}
		for _, mode := range modes {
			for _, rm := range readMaxes {
				for _, rej := range []bool{false, true} {
					for li, lim := range limits {
						if li > 0 && lim == 0 {
							continue // would mean "no limit" again
						}
						all := append(cutsList, nil)
						if li == 0 {
							all = append(all, cutsList[2:]...) // every 2-split once more, from a slow peer
						}
						for ci, cuts := range all {
							c := C02Case{Mode: mode, Msg: msg, ReadMax: rm, Reject: rej, Limit: lim, Cuts: cuts}
							if ci == len(cutsList) {
								c.LineMax = 8192 // everything in one segment once more, with a line limit above the buffer size
							}
							c.Slow = ci > len(cutsList)
							f, what := evalC02o(c)
							run.Eval(nontrivial)
							if f != nil {
								c.Show = fmt.Sprintf("%q", msg)
								cc := c
								run.Violate("c02", cc, f, func() *h.Finding { return evalC02(cc) })
								out["violation:"+f.Sig]++
							} else {
								out["ok: "+what]++
							}
						}
					}
				}
			}
		}
		if mi%97 == 5 {
			run.Sample("message", 6, fmt.Sprintf("%q", msg))
		}
		run.Outcomes(out)
	})
	// lines whose length is a multiple of the read-buffer size (4096), a backend that returns early (the server skips the
	// rest itself), a line limit above all that; and the backend verdict io.ErrUnexpectedEOF
	for _, mode := range []string{"smtp", "lmtp", "lmtp-rcpt"} {
		for _, n := range []int{4090, 4091, 4092, 4093, 4094, 4095, 4096, 4097, 4098, 8190, 8191, 8192, 8193, 8194, 12288} {
			for _, rm := range []int{0, 4, 10, -1} {
				// the long line in the middle of the message, and as its LAST line (the end marker right behind it)
				for _, tail := range []string{"\r\nMAIL FROM:<bait@x>\r\nlast", "", "\r\n.", "\r\n..\r\nMAIL FROM:<bait@x>"} {
					msg := []byte("first\r\n" + strings.Repeat("x", n) + tail)
					c := C02Case{Mode: mode, Msg: msg, ReadMax: rm, Reject: rm >= 0, LineMax: 20000}
					f := evalC02(c)
					run.Eval(true)
					if f != nil {
						c.Show = fmt.Sprintf("a line of %d octets followed by %q", n, tail)
						cc := c
						run.Violate("c02", cc, f, func() *h.Finding { return evalC02(cc) })
					}
				}
			}
		}
		for _, rm := range []int{0, 3, -1} {
			c := C02Case{Mode: mode, Msg: []byte("first\r\nMAIL FROM:<bait@x>\r\nlast"), ReadMax: rm, Verdict: "unexpected-eof"}
			f := evalC02(c)
			run.Eval(true)
			if f != nil {
				cc := c
				run.Violate("c02", cc, f, func() *h.Finding { return evalC02(cc) })
			}
		}
	}
	for _, mode := range []string{"smtp", "lmtp", "lmtp-rcpt"} {
		for _, where := range []string{"only", "last", "before-dot-line", "middle"} {
			for _, seg := range []string{"one", "octet"} {
				c := C02LongCase{Mode: mode, Where: where, Seg: seg}
				f := evalC02Long(c)
				run.Eval(true)
				if f != nil {
					run.Violate("c02-long", c, f, func() *h.Finding { return evalC02Long(c) })
				}
			}
			// every 2-split of the conversation: the read in which the limit trips may or may not hold the end marker,
			// and what follows the marker may or may not have arrived with it
			for cut := 0; cut < 100; cut++ {
				c := C02LongCase{Mode: mode, Where: where, Seg: "msg", Cut: cut}
				f := evalC02Long(c)
				run.Eval(true)
				if f != nil {
					run.Violate("c02-long", c, f, func() *h.Finding { return evalC02Long(c) })
					break
				}
			}
			for cut := 1; cut < 400; cut++ {
				c := C02LongCase{Mode: mode, Where: where, Seg: "split", Cut: cut}
				f := evalC02Long(c)
				run.Eval(true)
				if f != nil {
					run.Violate("c02-long", c, f, func() *h.Finding { return evalC02Long(c) })
					break
				}
			}
		}
	}
	for _, mode := range modes {
		for _, first := range []string{"none", "data", "bdat", "data+bdat"} {
			for mi := range c02UpgradeMsgs {
				for _, via := range []string{"data", "bdat"} {
					c := C02UpgradeCase{Mode: mode, First: first, Msg: mi, Via: via}
					f := evalC02Upgrade(c)
					run.Eval(first != "none")
					if f != nil {
						run.Violate("c02-upgrade", c, f, func() *h.Finding { return evalC02Upgrade(c) })
						run.Outcome("violation:" + f.Sig)
					} else {
						run.Outcome("upgrade-ok")
					}
				}
			}
		}
	}
	for _, mode := range modes {
		for cut := 0; cut <= len(c02SilenceMsg); cut++ {
			c := C02SilenceCase{Mode: mode, Cut: cut}
			f := evalC02Silence(c)
			run.Eval(true)
			if f != nil {
				run.Violate("c02-silence", c, f, func() *h.Finding { return evalC02Silence(c) })
				run.Outcome("violation:" + f.Sig)
			}
		}
	}
	return run.Finish()
}
