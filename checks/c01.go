package checks

import (
	"bufio"
	"bytes"
	"fmt"
	"io"
	"math/rand"
	"strings"
	"time"

	smtp "github.com/emersion/go-smtp"
	"verif/h"
	"verif/ref"
)

// C01: DATA body reaches the backend byte-exact after dot-unstuffing.

type C01Case struct {
	Seam   string `json:"seam"` // "reader" or "server"
	Stream []byte `json:"stream"`
	Show   string `json:"show"`
	Cuts   []int  `json:"cuts"` // segment boundaries inside Stream
	Buf    int    `json:"buf"`  // backend read size
	Limit  int64  `json:"limit"`
	// LineMax: Server.MaxLineLength (0: default 2000). Slow: ReadTimeout 30 min, WriteTimeout 10 s and a peer that
	// pauses 40 s (virtual) before every segment - slower than the write timeout, faster than the read timeout.
	LineMax int  `json:"line_max,omitempty"`
	Slow    bool `json:"slow,omitempty"`
	// AfterBdat: a chunked message of 10 octets is transferred on the same connection first, and the size limit is
	// one that both messages fit separately but not together
	AfterBdat bool `json:"after_bdat,omitempty"`
	// Debug: Server.Debug is set - a copy of the traffic goes to a writer, the traffic itself is unchanged
	Debug bool `json:"debug,omitempty"`
	// WithErr: the connection returns its last octets TOGETHER with io.EOF in one Read (n > 0 and an error, which
	// io.Reader allows and crypto/tls does when a close_notify is already waiting behind the data)
	WithErr bool `json:"with_err,omitempty"`
	// RideOut: ReadTimeout one minute, the peer is silent for five minutes before the LAST segment, and the backend
	// answers the timeout error of its reader by lifting the connection's read deadline and reading on
	RideOut bool `json:"ride_out,omitempty"`
	// ReadTO: the server has ReadTimeout 30 min (nothing ever waits that long: only the option is on)
	ReadTO bool `json:"read_timeout,omitempty"`
}

type segReader struct {
	segs [][]byte
	i    int
}

func (s *segReader) Read(b []byte) (int, error) {
	for s.i < len(s.segs) && len(s.segs[s.i]) == 0 {
		s.i++
	}
	if s.i >= len(s.segs) {
		return 0, io.EOF
	}
	n := copy(b, s.segs[s.i])
	s.segs[s.i] = s.segs[s.i][n:]
	return n, nil
}

func cutSegs(stream []byte, cuts []int) [][]byte {
	return h.SplitAt(stream, cuts...)
}

const c01Prologue = "EHLO c.example\r\nMAIL FROM:<ok@a.example>\r\nRCPT TO:<ok@b.example>\r\nDATA\r\n"

func evalC01(c C01Case) (f *h.Finding) {
	defer func() {
		if p := recover(); p != nil {
			f = h.F("c01-reader-panic", "stream %q (cuts %v, buf %d, limit %d): the reader panicked: %v", c.Stream, c.Cuts, c.Buf, c.Limit, p)
		}
	}()
	want, rest, complete := ref.Unstuff(c.Stream)
	if !complete {
		return h.F("harness-error", "stream has no end marker")
	}
	switch c.Seam {
	case "reader":
		segs := cutSegs(append([]byte(nil), c.Stream...), c.Cuts)
		br := bufio.NewReader(&segReader{segs: segs})
		r := smtp.VerifNewDataReader(br, c.Limit)
		var got []byte
		buf := make([]byte, c.Buf)
		var err error
		for steps := 0; ; steps++ {
			var n int
			n, err = r.Read(buf)
			got = append(got, buf[:n]...)
			if err != nil {
				break
			}
			if steps > 10*len(c.Stream)+100 {
				return h.F("c01-reader-stuck", "reader made no progress on %q", c.Stream)
			}
		}
		if err != io.EOF {
			return h.F("c01-reader-noeof", "stream %q: reader ended with %v after %q, want EOF after %q", c.Stream, err, got, want)
		}
		if !bytes.Equal(got, want) {
			return h.F("c01-body-differs", "stream %q (cuts %v, buf %d): backend would read %q, want %q", c.Stream, c.Cuts, c.Buf, got, want)
		}
		left, _ := io.ReadAll(br)
		if !bytes.Equal(left, rest) {
			return h.F("c01-rest-differs", "stream %q: after the message the connection holds %q, want %q", c.Stream, left, rest)
		}
		// a further Read keeps saying EOF and yields nothing
		if n, err2 := r.Read(buf); n != 0 || err2 != io.EOF {
			return h.F("c01-after-eof", "stream %q: Read after EOF gave %d,%v", c.Stream, n, err2)
		}
		return nil
	case "server":
		be := &h.Backend{Plan: func(int) h.DataPlan { return h.DataPlan{Buf: c.Buf, Max: -1, RideOut: c.RideOut} }}
		prologue := c01Prologue
		if c.AfterBdat {
			prologue = "EHLO c.example\r\nMAIL FROM:<ok@a0.example>\r\nRCPT TO:<ok@b0.example>\r\nBDAT 10 LAST\r\n0123456789" + strings.TrimPrefix(c01Prologue, "EHLO c.example\r\n")
		}
		full := append([]byte(prologue), c.Stream...)
		cuts := []int{len(prologue)}
		for _, k := range c.Cuts {
			cuts = append(cuts, len(prologue)+k)
		}
		cfg := h.Config{MaxMessageBytes: c.Limit, MaxLineLength: c.LineMax, Debug: c.Debug, FinalWithErr: c.WithErr}
		if c.Slow {
			cfg.ReadTO, cfg.WriteTO, cfg.PeerPause = 30*time.Minute, 10*time.Second, true
		}
		segs := cutSegs(full, cuts)
		if c.ReadTO {
			cfg.ReadTO = 30 * time.Minute
		}
		if c.RideOut {
			cfg.ReadTO = time.Minute
			cfg.LongPauseBefore = len(segs)
		}
		o := h.RunS(cfg, be, segs, h.TermEOF)
		if f := o.Sanity("c01", fmt.Sprintf("stream %q", c.Stream)); f != nil {
			return f
		}
		var data *h.Event
		for i := range o.Trace {
			if o.Trace[i].Kind == "Data" && o.Trace[i].From == "ok@a0.example" {
				continue // the chunked message in front
			}
			if o.Trace[i].Kind == "Data" {
				if data != nil {
					return h.F("c01-two-data", "stream %q: more than one Data call: %s", c.Stream, h.Calls(o.Trace))
				}
				data = &o.Trace[i]
			}
		}
		if data == nil {
			return h.F("c01-no-data", "stream %q: no Data call (replies %s)", c.Stream, o.Codes())
		}
		if data.ReadErr != "EOF" {
			return h.F("c01-reader-noeof", "stream %q: backend reader ended with %q after %q, want EOF after %q (replies %s)", c.Stream, data.ReadErr, data.Body, want, o.Codes())
		}
		if !bytes.Equal(data.Body, want) {
			return h.F("c01-body-differs", "stream %q (cuts %v, buf %d): backend read %q, want %q", c.Stream, c.Cuts, c.Buf, data.Body, want)
		}
		return nil
	}
	return h.F("harness-error", "unknown seam %q", c.Seam)
}

func init() { h.RegisterReplayer("c01", evalC01) }

func perOctetCuts(n int) []int {
	var c []int
	for i := 1; i < n; i++ {
		c = append(c, i)
	}
	return c
}

var c01Alphabet = []byte{'.', '\r', '\n', 'a'}

// enumStrings calls f for every string over alpha of length 0..maxLen
// (index order: shorter first, then lexicographic in alphabet order).
func enumStrings(alpha []byte, maxLen int, f func(s []byte)) {
	for l := 0; l <= maxLen; l++ {
		idx := make([]int, l)
		s := make([]byte, l)
		for {
			for i, k := range idx {
				s[i] = alpha[k]
			}
			f(s)
			p := l - 1
			for p >= 0 {
				idx[p]++
				if idx[p] < len(alpha) {
					break
				}
				idx[p] = 0
				p--
			}
			if p < 0 {
				break
			}
		}
	}
}

// nthString returns the i-th string of exactly length l over alpha.
func nthString(alpha []byte, l int, i int) []byte {
	s := make([]byte, l)
	for p := l - 1; p >= 0; p-- {
		s[p] = alpha[i%len(alpha)]
		i /= len(alpha)
	}
	return s
}

func pow(a, b int) int {
	r := 1
	for ; b > 0; b-- {
		r *= a
	}
	return r
}

func C01(tier string) int {
	run := h.NewRun("C01", tier, "exploration", "", 20*time.Minute)
	L, LS := 8, 6
	bufs := []int{1, 2, 3, 7, 4096}
	sbufs := []int{1, 3, 4096}
	limits := []int64{0}
	allSegUpTo := 0
	if tier == "thorough" {
		L, LS = 10, 7
		bufs = []int{1, 2, 3, 4, 5, 7, 64, 4096}
		limits = []int64{0, 1 << 20}
		allSegUpTo = 7
	}
	run.Rule = fmt.Sprintf("every octet stream body+CRLF.CRLF+tail and .CRLF+tail with body over the class alphabet {'.',CR,LF,'a'} of length<=%d (reader seam) / <=%d (full server path), each x segmentations {one segment, one octet per segment, every 2-split%s} x backend read sizes %v x size limit {none, exactly the message size (bodies <= 8; full server path, bodies <= 5: also with ReadTimeout configured)}; distinct by construction (enumeration), non-trivial = body contains '.', CR or LF. Plus (full server path) lines of exactly the maximal permitted length, 1 and 5 less, behind/in front of other lines with the segment boundary at EVERY position (MaxLineLength 32; default 2000 with the line's CR at octets 4094..4098 of the connection, i.e. around the server's read-buffer boundary), and all bodies <=4 from a SLOW peer (40 s virtual pause before every segment, WriteTimeout 10 s, ReadTimeout 30 min; the scripted connection honours the armed read deadline). A message transferred in plaintext, STARTTLS with a real handshake, then 5 messages via DATA inside TLS (x 3 modes x 3 kinds of plaintext transfer). All bodies <=5 x every cut point with a READ TIMEOUT at the cut (ReadTimeout 1 min, five minutes of silence) that the backend rides out by lifting the connection's deadline and reading on (the reader must resume where it was). All bodies <=5 once more as the SECOND message of the connection, behind a chunked one, under a size limit that each message fits but not both together. All bodies <=4 over {NUL, ESC, DEL, '.', CR, LF} with Server.Debug set (the traffic is copied to a writer). All bodies <=5 with the end of the message and the end of the connection delivered by ONE Read (n > 0 together with io.EOF, as crypto/tls does for a waiting close_notify) x {everything in one read, message in its own read, last 1..6 octets in the last read}. Oracle: ref.Unstuff. Random 256-octet streams are a labelled supplement (counters.random_supplement) and not part of 'exhaustive'.",
		L, LS, map[bool]string{true: fmt.Sprintf(", all 2^(n-1) segmentations for streams of <=%d+5 octets", allSegUpTo), false: ""}[allSegUpTo > 0], bufs)
	run.Assumptions = []string{
		"the reader branches only on '.', CR, LF vs. any other octet, so one representative 'a' stands for the 253 other octets (the random supplement exercises all 256 values)",
		"ref.Unstuff (30 lines, CRLF-delimited lines, first '.'-only line ends the message) is the specification",
	}
	tail := []byte("NOOP\r\n")
	mk := func(body []byte) []byte {
		s := append([]byte(nil), body...)
		s = append(s, "\r\n.\r\n"...)
		return append(s, tail...)
	}
	segVariants := func(stream []byte, mlen int, all bool) [][]int {
		v := [][]int{nil}
		var per []int
		for i := 1; i < len(stream); i++ {
			per = append(per, i)
			if i <= mlen {
				v = append(v, []int{i})
			}
		}
		v = append(v, per)
		if all {
			for mask := 1; mask < 1<<uint(mlen-1); mask++ {
				var cuts []int
				for i := 0; i < mlen-1; i++ {
					if mask&(1<<uint(i)) != 0 {
						cuts = append(cuts, i+1)
					}
				}
				if len(cuts) >= 2 && len(cuts) < mlen-1 {
					v = append(v, cuts)
				}
			}
		}
		return v
	}
	doStream := func(seam string, stream []byte, bodyLen int, bufList []int, nontrivial bool, out map[string]int64) {
		mlen := bodyLen + 5
		if mlen > len(stream) {
			mlen = len(stream)
		}
		want0, _, _ := ref.Unstuff(stream)
		lims := limits
		if len(want0) > 0 && bodyLen <= 8 {
			// a size limit that the message fits exactly: the result must still not depend on segmentation
			lims = append(append([]int64(nil), limits...), int64(len(want0)))
		}
		for _, cuts := range segVariants(stream, mlen, seam == "reader" && bodyLen <= allSegUpTo) {
			for _, buf := range bufList {
				for _, lim := range lims {
					c := C01Case{Seam: seam, Stream: stream, Cuts: cuts, Buf: buf, Limit: lim}
					f := evalC01(c)
					run.Eval(nontrivial)
					if f != nil {
						c.Show = fmt.Sprintf("%q", stream)
						cc := c
						run.Violate("c01", cc, f, func() *h.Finding { return evalC01(cc) })
					}
					if seam == "server" && lim > 0 && lim == int64(len(want0)) && bodyLen <= 5 {
						// the exact-fit limit once more with ReadTimeout configured (two options that meet in the reader's
						// look-ahead for the end marker)
						c2 := c
						c2.ReadTO = true
						if f := evalC01(c2); f != nil {
							c2.Show = fmt.Sprintf("%q", stream)
							run.Violate("c01", c2, f, func() *h.Finding { return evalC01(c2) })
						}
						run.Eval(nontrivial)
					}
				}
			}
		}
		want, _, _ := ref.Unstuff(stream)
		out[fmt.Sprintf("removed=%d", len(stream)-len(want)-len(tail)-3)]++
	}
	// enumerate: shard by (length, first-two-symbols)
	type shard struct{ l, lo, hi int }
	var shards []shard
	for l := 0; l <= L; l++ {
		n := pow(4, l)
		step := n / 64
		if step < 1 {
			step = n
		}
		for lo := 0; lo < n; lo += step {
			hi := lo + step
			if hi > n {
				hi = n
			}
			shards = append(shards, shard{l, lo, hi})
		}
	}
	h.ParallelFor(len(shards), func(si int) {
		sh := shards[si]
		out := map[string]int64{}
		for i := sh.lo; i < sh.hi; i++ {
			if i%256 == 0 && run.Expired() {
				break
			}
			body := nthString(c01Alphabet, sh.l, i)
			nontrivial := bytes.ContainsAny(body, ".\r\n")
			stream := mk(body)
			doStream("reader", stream, sh.l, bufs, nontrivial, out)
			if sh.l <= LS {
				doStream("server", stream, sh.l, sbufs, nontrivial, out)
			}
			if i == sh.lo && sh.l >= 3 {
				run.Sample("stream", 6, fmt.Sprintf("%q", stream))
			}
		}
		run.Outcomes(out)
	})
	// leading end marker
	out := map[string]int64{}
	lead := append([]byte(".\r\n"), tail...)
	doStream("reader", lead, 0, bufs, true, out)
	doStream("server", lead, 0, sbufs, true, out)
	run.Outcomes(out)

	// Lines of exactly the maximal permitted length (and a little less) in front of, between and behind other
	// lines, the segment boundary at every position (in particular between the CR and the LF of the long line):
	// a small configured limit, and the default limit with the line's CR as the last octet of the server's
	// 4096-octet read buffer.
	var lcases []C01Case
	const lm = 32
	for _, pre := range []string{"", ".", "a\r\n", "\n", "..\r\n"} {
		for _, k := range []int{0, 1, 5} {
			for _, suf := range []string{"", "b\r\n", ".x\r\n"} {
				body := pre + strings.Repeat("a", lm-2-k) + "\r\n" + suf
				if pre == "." {
					body = pre + strings.Repeat("a", lm-3-k) + "\r\n" + suf
				}
				stream := mk([]byte(strings.TrimSuffix(body, "\r\n")))
				if !strings.HasSuffix(body, "\r\n") {
					stream = mk([]byte(body))
				}
				lcases = append(lcases, C01Case{Seam: "server", Stream: stream, Buf: 4096, LineMax: lm}, C01Case{Seam: "server", Stream: stream, Buf: 3, LineMax: lm, Cuts: perOctetCuts(len(stream))})
				for cut := 1; cut < len(stream); cut++ {
					lcases = append(lcases, C01Case{Seam: "server", Stream: stream, Cuts: []int{cut}, Buf: 4096, LineMax: lm})
				}
			}
		}
	}
	for _, k := range []int{0, 1} {
		for shift := -2; shift <= 2; shift++ {
			// filler lines so that the CR of the 1998-character line is octet number 4096+shift of the connection
			fill := 4095 + shift - len(c01Prologue) - (1998 - k)
			var body []byte
			for fill > 0 {
				n := fill
				if n > 80 {
					n = 80
				}
				if fill-n == 1 {
					n--
				}
				if n < 2 {
					break
				}
				body = append(body, bytes.Repeat([]byte("f"), n-2)...)
				body = append(body, '\r', '\n')
				fill -= n
			}
			body = append(body, bytes.Repeat([]byte("a"), 1998-k)...)
			stream := mk(body)
			lcases = append(lcases, C01Case{Seam: "server", Stream: stream, Buf: 4096}, C01Case{Seam: "server", Stream: stream, Buf: 7})
			for d := -3; d <= 3; d++ {
				lcases = append(lcases, C01Case{Seam: "server", Stream: stream, Cuts: []int{len(body) + d}, Buf: 4096})
			}
		}
	}
	// A slow peer: every 2-split and the per-octet segmentation of all short bodies with 40 s (virtual) between the
	// segments, WriteTimeout 10 s, ReadTimeout 30 min. The message must arrive as with a fast peer.
	enumStrings(c01Alphabet, 4, func(b []byte) {
		stream := mk(b)
		lcases = append(lcases, C01Case{Seam: "server", Stream: stream, Buf: 4096, Slow: true, Cuts: perOctetCuts(len(stream))})
		for cut := 1; cut < len(b)+5; cut++ {
			lcases = append(lcases, C01Case{Seam: "server", Stream: stream, Cuts: []int{cut}, Buf: 4096, Slow: true})
		}
	})
	// A read timeout in the middle of the message that the backend rides out: ReadTimeout 1 min, five minutes of silence
	// at every cut point of all short bodies, a backend that lifts the deadline and reads on. The reader's position in
	// the dot-unstuffing state machine has to survive the failed Read.
	enumStrings(c01Alphabet, 5, func(b []byte) {
		stream := mk(b)
		for cut := 1; cut < len(b)+5; cut++ {
			for _, buf := range []int{1, 4096} {
				lcases = append(lcases, C01Case{Seam: "server", Stream: stream, Cuts: []int{cut}, Buf: buf, RideOut: true})
			}
		}
	})
	// A chunked message first, then the DATA message, under a size limit that each fits but not both together
	enumStrings(c01Alphabet, 5, func(b []byte) {
		stream := mk(b)
		want, _, _ := ref.Unstuff(stream)
		lim := int64(len(want))
		if lim < 10 {
			lim = 10
		}
		lcases = append(lcases, C01Case{Seam: "server", Stream: stream, Buf: 4096, AfterBdat: true, Limit: lim}, C01Case{Seam: "server", Stream: stream, Buf: 2, AfterBdat: true, Limit: lim, Cuts: perOctetCuts(len(stream))})
	})
	// Server.Debug set: all bodies <=4 over control octets, dots and line ends
	enumStrings([]byte{0, 0x1b, 0x7f, '.', '\r', '\n'}, 4, func(b []byte) {
		stream := mk(b)
		lcases = append(lcases, C01Case{Seam: "server", Stream: stream, Buf: 4096, Debug: true}, C01Case{Seam: "server", Stream: stream, Buf: 3, Debug: true, Cuts: perOctetCuts(len(stream))})
	})
	// the end of the message arrives together with the end of the connection (one Read returns both): all bodies <=5
	// over {x, '.', CR, LF} x {whole conversation in one read, message in its own read, last 1..6 octets in the last read}
	enumStrings([]byte{'x', '.', '\r', '\n'}, 5, func(b []byte) {
		stream := mk(b)
		stream = stream[:len(stream)-len(tail)] // the client hangs up right behind the end marker
		lcases = append(lcases, C01Case{Seam: "server", Stream: stream, Buf: 4096, WithErr: true}, C01Case{Seam: "server", Stream: stream, Buf: 2, WithErr: true, Cuts: []int{0}})
		for k := 1; k <= 6 && k < len(stream); k++ {
			lcases = append(lcases, C01Case{Seam: "server", Stream: stream, Buf: 4096, WithErr: true, Cuts: []int{len(stream) - k}})
		}
	})
	run.Counter("max_length_line_and_slow_peer_cases", int64(len(lcases)))
	h.ParallelFor(len(lcases), func(i int) {
		c := lcases[i]
		f := evalC01(c)
		run.Eval(true)
		if f != nil {
			c.Show = fmt.Sprintf("%.80q", c.Stream)
			run.Violate("c01", c, f, func() *h.Finding { return evalC01(c) })
		}
	})

	// Labelled supplement: seeded random streams over all 256 octets.
	rng := rand.New(rand.NewSource(run.Seed))
	nrand := 20000
	if tier == "thorough" {
		nrand = 200000
	}
	plant := [][]byte{[]byte("."), []byte("\r"), []byte("\n"), []byte("\r\n"), []byte("\r\n."), []byte("\r\n.."), []byte(".\r"), []byte("\n.\n"), []byte("\r\n.\n"), []byte("\n.\r\n")}
	var rcases []C01Case
	for i := 0; i < nrand; i++ {
		var body []byte
		n := rng.Intn(40)
		for len(body) < n {
			if rng.Intn(3) == 0 {
				body = append(body, plant[rng.Intn(len(plant))]...)
			} else {
				body = append(body, byte(rng.Intn(256)))
			}
		}
		stream := mk(body)
		var cuts []int
		for k := 1; k < len(stream); k++ {
			if rng.Intn(4) == 0 {
				cuts = append(cuts, k)
			}
		}
		seam := "reader"
		if i%10 == 0 {
			seam = "server"
		}
		rcases = append(rcases, C01Case{Seam: seam, Stream: stream, Cuts: cuts, Buf: 1 + rng.Intn(9), Limit: 0})
	}
	h.ParallelFor(len(rcases), func(i int) {
		c := rcases[i]
		if f := evalC01(c); f != nil {
			c.Show = fmt.Sprintf("%q", c.Stream)
			run.Violate("c01", c, f, func() *h.Finding { return evalC01(c) })
		}
	})
	run.Counter("random_supplement", int64(len(rcases)))
	run.Sample("random-supplement", 1, fmt.Sprintf("%q", rcases[0].Stream))
	// a message in plaintext, STARTTLS (real handshake), then a DATA message inside TLS: whatever the server keeps per
	// connection for reading messages has to follow the upgrade (the family of C02, judged here for the body)
	for _, mode := range []string{"smtp", "lmtp", "lmtp-rcpt"} {
		for _, first := range []string{"data", "bdat", "data+bdat"} {
			for mi := range c02UpgradeMsgs {
				c := C02UpgradeCase{Mode: mode, First: first, Msg: mi, Via: "data"}
				f := evalC02Upgrade(c)
				run.Eval(true)
				if f != nil {
					f.Sig = strings.Replace(f.Sig, "c02-", "c01-", 1)
					run.Violate("c02-upgrade", c, f, func() *h.Finding { return evalC02Upgrade(c) })
				}
			}
		}
	}
	return run.Finish()
}
