//go:build !vsync

package checks

func setLockHook(f func(site string)) bool { return false }

func haveVsync() bool { return false }
