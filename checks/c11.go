package checks

import (
	"fmt"
	"regexp"
	"strconv"
	"strings"
	"time"

	"verif/h"
	"verif/ref"
)

// C11: MAIL/RCPT arguments reach the backend exactly as sent, or are refused.

type C11Case struct {
	Cmd  string `json:"cmd"` // MAIL | RCPT
	Arg  string `json:"arg"` // text after "MAIL FROM:" / "RCPT TO:"
	Show string `json:"show"`
	Ext  bool   `json:"ext"`            // all extension flags on / off
	Verb string `json:"verb,omitempty"` // spelling of "MAIL FROM:" / "RCPT TO:" ("" = upper case); commands are case-insensitive
	// Pre: a predecessor line of the same command with every parameter set, which the line under test must
	// not inherit anything from: "" none | "tmp" the backend answered it 451 | "open" it was accepted (for
	// MAIL: the transaction is open and MAIL is repeated) | "refused" it was refused 5xx for its last parameter
	Pre string `json:"pre,omitempty"`
	// TLS: the same conversation over implicit TLS (real handshake): what a line means does not depend on it
	TLS bool `json:"tls,omitempty"`
	// BadVerb: Verb is NOT a spelling of "MAIL FROM:" / "RCPT TO:" (keyword missing, misspelled or the other
	// command's): whatever follows, the line is malformed
	BadVerb bool `json:"bad_verb,omitempty"`
}

// c11Predecessor returns the predecessor line, the number of backend calls of the judged kind it causes, and
// the class of reply it must get.
func c11Predecessor(cmd, route string, ext bool) (line string, calls int, class int) {
	box := "ok@pre.example"
	if route == "tmp" {
		box = "tmp@pre.example"
	}
	var params string
	if cmd == "MAIL" {
		params = " SIZE=77 BODY=8BITMIME AUTH=pre@x.example"
		if ext {
			params += " SMTPUTF8 REQUIRETLS RET=FULL ENVID=pre"
		}
	} else if ext {
		params = " NOTIFY=SUCCESS,DELAY ORCPT=rfc822;pre@o.example RRVS=2014-04-03T23:01:00Z"
	}
	verb := map[string]string{"MAIL": "MAIL FROM:", "RCPT": "RCPT TO:"}[cmd]
	switch route {
	case "tmp":
		return verb + "<" + box + ">" + params + "\r\n", 1, 4
	case "open":
		return verb + "<" + box + ">" + params + "\r\n", 1, 2
	case "refused":
		return verb + "<" + box + ">" + params + " XNOSUCHPARAM=1\r\n", 0, 5
	case "malformed":
		// every parameter well-formed except the last token, which the parameter parser itself cannot split
		return verb + "<" + box + ">" + params + " X=1=2\r\n", 0, 5
	}
	return "", 0, 0
}

func c11Ext(on bool) (h.Config, ref.Ext) {
	if on {
		return h.Config{UTF8: true, RequireTLS: true, BinaryMIME: true, DSN: true, RRVS: true},
			ref.Ext{UTF8: true, RequireTLS: true, BinaryMIME: true, DSN: true, RRVS: true}
	}
	return h.Config{}, ref.Ext{}
}

var c11SizeRe = regexp.MustCompile(`(?i) SIZE=([0-9]+)( |$)`)

func evalC11(c C11Case) (*h.Finding, ref.Class) {
	cfg, ext := c11Ext(c.Ext)
	be := &h.Backend{}
	var in string
	nPre := 2
	verb := c.Verb
	if verb == "" {
		verb = map[string]string{"MAIL": "MAIL FROM:", "RCPT": "RCPT TO:"}[c.Cmd]
	}
	preLine, preCalls, preClass := c11Predecessor(c.Cmd, c.Pre, c.Ext)
	if c.Cmd == "RCPT" && c.Pre != "" {
		// a recipient limit that the judged line just fits: only ACCEPTED recipients count against it
		cfg.MaxRecipients = preCalls*map[bool]int{true: 1, false: 0}[preClass == 2] + 1
	}
	if c.Cmd == "MAIL" {
		in = "EHLO c.example\r\n" + preLine + verb + c.Arg + "\r\n"
	} else {
		in = "EHLO c.example\r\nMAIL FROM:<ok@a.example>\r\n" + preLine + verb + c.Arg + "\r\n"
		nPre = 3
	}
	if preLine != "" {
		nPre++
	}
	var o *h.Obs
	if c.TLS {
		o = &h.Obs{}
		o.Leak, o.Panic = h.Bubble(func() {
			live := h.NewLive(cfg, be, true)
			o.Wire = append(o.Wire, live.Greeting()...)
			for _, l := range strings.SplitAfter(in, "\r\n") {
				if l != "" {
					o.Wire = append(o.Wire, live.Send([]byte(l))...)
				}
			}
			o.Wire = append(o.Wire, live.Hangup(h.TermEOF)...)
			o.Trace = be.Trace()
			o.Log = live.Log.String()
		})
		o.Replies, o.ParseErr = ref.ParseReplies(o.Wire)
	} else {
		o = h.RunS(cfg, be, h.OneSeg([]byte(in)), h.TermEOF)
	}
	desc := fmt.Sprintf("%s%s argument %q (extensions %s)", c.Cmd, map[bool]string{true: " spelled " + c.Verb, false: ""}[c.Verb != ""], c.Arg, map[bool]string{true: "on", false: "off"}[c.Ext])
	if c.TLS {
		desc += " over implicit TLS"
	}
	if preLine != "" {
		desc += fmt.Sprintf(" after the %s line %q", map[string]string{"tmp": "backend-refused (451)", "open": "accepted", "refused": "refused (5xx)"}[c.Pre], strings.TrimSpace(preLine))
	}
	if f := o.Sanity("c11", desc); f != nil {
		return f, ref.Unspecified
	}
	if strings.Contains(o.Log, "panic") {
		return h.F("c11-recovered-panic", "%s: recovered panic: %s", desc, firstLogLine(o.Log)), ref.Unspecified
	}
	if o.ParseErr != nil || len(o.Replies) != nPre+1 {
		return h.F("c11-replies", "%s: replies %s (%v)", desc, o.Codes(), o.ParseErr), ref.Unspecified
	}
	reply := o.Replies[nPre]
	var calls []h.Event
	kind := map[string]string{"MAIL": "Mail", "RCPT": "Rcpt"}[c.Cmd]
	for _, e := range o.Trace {
		if e.Kind == kind {
			calls = append(calls, e)
		}
	}
	if preLine != "" {
		// the predecessor itself is a fixed, valid line: it must have been treated as designed, or the case says nothing
		if got := o.Replies[nPre-1]; got.Class() != preClass || len(calls) < preCalls {
			return h.F("c11-predecessor", "%s: the predecessor line was answered %s with %d backend calls", desc, got.String(), len(calls)), ref.Unspecified
		}
		calls = calls[preCalls:]
	}
	var class ref.Class
	var wantBox []string
	var wantOpts, why string
	if c.Cmd == "MAIL" {
		cl, exp := ref.ClassifyMail(c.Arg, ext)
		class, wantBox, wantOpts, why = cl, exp.Mailbox, exp.Opts(), exp.Why
	} else {
		cl, exp := ref.ClassifyRcpt(c.Arg, ext)
		class, wantBox, wantOpts, why = cl, exp.Mailbox, exp.Opts(), exp.Why
	}
	if c.BadVerb {
		class, why = ref.Invalid, "the line does not begin with "+map[string]string{"MAIL": "MAIL FROM:", "RCPT": "RCPT TO:"}[c.Cmd]
	}
	if c.Cmd == "MAIL" && len(calls) == 1 {
		if m := c11SizeRe.FindStringSubmatch(c.Arg); m != nil && strings.Count(strings.ToUpper(c.Arg), "SIZE=") == 1 {
			num := m[1]
			if n, err := strconv.ParseUint(num, 10, 64); err == nil {
				want := fmt.Sprintf("Size=%d ", n)
				if strings.Contains(calls[0].Opts, "Size=-") || !strings.Contains(calls[0].Opts, want) {
					return h.F("c11-options-differ", "%s: the line declares SIZE=%s (decimal %d) and was accepted, but the backend received options {%s}", desc, num, n, calls[0].Opts), class
				}
			}
		}
	}
	switch class {
	case ref.Valid:
		if reply.Code != 250 || len(calls) != 1 {
			return h.F("c11-valid-refused", "%s is well-formed but was answered %s with %d backend calls", desc, reply.String(), len(calls)), class
		}
		okBox := false
		for _, b := range wantBox {
			if b == calls[0].Arg {
				okBox = true
			}
		}
		if !okBox {
			return h.F("c11-mailbox-differs", "%s: backend received mailbox %q, want one of %q", desc, calls[0].Arg, wantBox), class
		}
		if calls[0].Opts != wantOpts {
			return h.F("c11-options-differ", "%s: backend received options {%s}, want {%s}", desc, calls[0].Opts, wantOpts), class
		}
	case ref.Invalid:
		if reply.Class() != 5 || len(calls) != 0 {
			return h.F("c11-invalid-accepted", "%s is malformed (%s) but was answered %s with %d backend calls", desc, why, reply.String(), len(calls)), class
		}
	default:
		if (reply.Code == 250) != (len(calls) == 1) || len(calls) > 1 {
			return h.F("c11-reply-call-mismatch", "%s: answered %s with %d backend calls", desc, reply.String(), len(calls)), class
		}
	}
	return nil, class
}

func init() {
	h.RegisterReplayer("c11", func(c C11Case) *h.Finding { f, _ := evalC11(c); return f })
}

var c11Paths = []string{
	"<>", "<l@d.example>", "<@r1.example,@r2.example:l@d.example>", `<"quoted local"@d.example>`, `<"q\"x\\y"@d.example>`,
	"<l@[192.0.2.1]>", "<user+tag.x=y@sub.d.example>", "<pelé@exämple.example>",
}
var c11MailParams = []string{
	"SIZE=123", "size=0", "BODY=8BITMIME", "BODY=7bit", "BODY=BINARYMIME", "SMTPUTF8", "REQUIRETLS", "RET=FULL", "ret=hdrs",
	"ENVID=abc", "ENVID=a+2Bb+3Dc", "AUTH=<>", "AUTH=x@y.example", "AUTH=a+2Bb@c.example",
}
var c11RcptParams = []string{
	"NOTIFY=SUCCESS", "NOTIFY=never", "NOTIFY=SUCCESS,FAILURE,DELAY", "NOTIFY=DELAY,SUCCESS", "ORCPT=rfc822;a@b.example", "ORCPT=rfc822;a+2Bb+20c@d.example",
	`ORCPT=utf-8;a\x{2B}b@c.example`, "ORCPT=UTF-8;pelé@d.example", "RRVS=2014-04-03T23:01:00Z", "RRVS=2014-04-03T23:01:00+02:00;C",
}

func keyOf(p string) string {
	k, _, _ := strings.Cut(p, "=")
	return strings.ToUpper(k)
}

func paramSubsets(params []string, max int) [][]string {
	var out [][]string
	var rec func(start int, cur []string)
	rec = func(start int, cur []string) {
		out = append(out, append([]string(nil), cur...))
		if len(cur) == max {
			return
		}
		for i := start; i < len(params); i++ {
			dup := false
			for _, c := range cur {
				if keyOf(c) == keyOf(params[i]) {
					dup = true
				}
			}
			if !dup {
				rec(i+1, append(cur, params[i]))
			}
		}
	}
	rec(0, nil)
	return out
}

var c11Alphabet = []byte{'<', '>', '@', '"', '\\', ':', ',', ' ', '=', 'a', '.', '+'}
var c11Mutators = []byte{'<', '>', '@', '"', '\\', ':', ';', ',', '=', '+', ' '}

func C11(tier string) int {
	run := h.NewRun("C11", tier, "exploration", "", 25*time.Minute)
	strLen, mutParams := 5, 1
	if tier == "thorough" {
		strLen, mutParams = 6, 2
	}
	run.Rule = fmt.Sprintf("(a) grammar-derived lines: %d path forms (null, plain, source-routed, quoted local part, quoted pairs, address literal, atext specials, UTF-8) x every subset of <=3 parameters with distinct keywords out of %d MAIL / %d RCPT parameter variants; (b) EVERY single-point mutation (delete, duplicate, replace by each of %q) of the lines with <=%d parameters; (c) ALL strings of <=%d characters over %q as the text after 'MAIL FROM:' and after 'RCPT TO:'; plus single-parameter lines with hexchars / code points that are well-formed but not permitted in the value (8-bit and control octets, beyond Unicode, surrogates, NUL); all x extension flags {all on, all off}; (d) every unmutated line of (a) once more as the line FOLLOWING a predecessor of the same command that sets every parameter and was {refused by the backend with 451, accepted (MAIL repeated inside the open transaction / a further RCPT), refused with 5xx for an unknown last parameter, refused for a last token the parameter parser cannot split} - the judged line must reach the backend with its own values only (RCPT: under a recipient limit that the judged line just fits, since only accepted recipients count); (e) every unmutated line of (a) over implicit TLS (real handshake): same verdict as in plaintext; (f) lines whose keyword in front of the path is missing, misspelled or the other command's ('MAIL FORM:', 'MAIL TO:', 'RCPT FROM:', 'RCPT TOO:' ...): refused, no callback. Distinct by construction (enumeration; mutations may coincide, counted once per generating position); non-trivial = classified valid or definitely invalid by the independent reference grammar (ref/pathgrammar.go) - the 'unspecified' class is only checked for 'reply 250 <=> exactly one callback'. Oracle: valid => 250 and the backend receives exactly the mailbox and the decoded option values, every other field zero; invalid => 5xx and no callback.", len(c11Paths), len(c11MailParams), len(c11RcptParams), c11Mutators, mutParams, strLen, c11Alphabet)
	run.Assumptions = []string{"deliberately unspecified (not judged): missing angle brackets, space after the colon, irregular spacing, duplicate keywords, value on a flag parameter, domain syntax beyond non-empty, dot-strings with empty atoms, unknown ORCPT address types, SIZE >= 2^32, non-ASCII addresses without SMTPUTF8", "a quoted local part may reach the backend quoted or de-quoted"}
	var cases []C11Case
	seen := map[string]bool{}
	add := func(cmd, arg string) {
		if strings.ContainsAny(arg, "\r\n") {
			return
		}
		k := cmd + "\x00" + arg
		if seen[k] {
			return
		}
		seen[k] = true
		cases = append(cases, C11Case{Cmd: cmd, Arg: arg, Ext: true}, C11Case{Cmd: cmd, Arg: arg, Ext: false})
	}
	plain := map[int]bool{} // indices of the unmutated grammar-derived lines
	mutate := func(cmd, l string) {
		for i := 0; i < len(l); i++ {
			add(cmd, l[:i]+l[i+1:])
			add(cmd, l[:i+1]+l[i:])
			for _, m := range c11Mutators {
				add(cmd, l[:i]+string(m)+l[i+1:])
			}
		}
	}
	for _, p := range c11Paths {
		for _, ps := range paramSubsets(c11MailParams, 3) {
			l := p
			for _, x := range ps {
				l += " " + x
			}
			add("MAIL", l)
			plain[len(cases)-1], plain[len(cases)-2] = true, true
			if len(ps) <= mutParams {
				mutate("MAIL", l)
			}
		}
		if p == "<>" {
			continue
		}
		for _, ps := range paramSubsets(c11RcptParams, 3) {
			l := p
			for _, x := range ps {
				l += " " + x
			}
			add("RCPT", l)
			plain[len(cases)-1], plain[len(cases)-2] = true, true
			if len(ps) <= mutParams {
				mutate("RCPT", l)
			}
		}
	}
	// hexchars and code points that are well-formed but decode to something the parameter may not carry (8-bit or
	// control octets in ENVID / AUTH / rfc822 ORCPT; code points beyond Unicode, surrogates, NUL, over-long HEXPOINTs in
	// utf-8 ORCPT) - one parameter per line
	for _, pth := range c11Paths[1:4] {
		// the boundary characters of the printable range, which must be accepted as they are
		for _, x := range []string{"ENVID=~x!", "ENVID=!#$%&'()*,-./:;<>?@[]^_`{|}~", "ENVID=x+7Ey+21z", "AUTH=~x!@c.example"} {
			add("MAIL", pth+" "+x)
		}
		for _, x := range []string{"ORCPT=rfc822;~x!@d.example", "ORCPT=rfc822;x+7Ey+21@d.example", "ORCPT=utf-8;~x!@c.example"} {
			add("RCPT", pth+" "+x)
		}
		for _, x := range []string{"ENVID=x+3dy", "ENVID=x+3Dy", "ENVID=x+2by", "AUTH=x+3dy@c.example", "AUTH=x+3Dy@c.example", "BODY=8bitmime", "BODY=7bit", "body=BinaryMime", "BODY=8BitMime SIZE=5", "ENVID=", "AUTH=", "RET=", "BODY=", "SIZE=", "SIZE=-1", "SIZE=1x", "ENVID=x+FFy", "ENVID=+80", "ENVID=x+07y", "ENVID=+00", "ENVID=x+7Fy", "AUTH=x+FFy@c.example", "AUTH=+80@c.example", "AUTH=x+00y@c.example", "AUTH=x+0Ay@c.example", "AUTH=a@c.example>", "AUTH=a@c.example,b@c.example", "AUTH=a@c.example+3E"} {
			add("MAIL", pth+" "+x)
		}
		for _, x := range []string{"NOTIFY=NEVER,SUCCESS", "NOTIFY=SUCCESS,NEVER", "NOTIFY=never,delay", "NOTIFY=NEVER,NEVER", "NOTIFY=SUCCESS,SUCCESS", "NOTIFY=NEVER,FAILURE,DELAY", "NOTIFY=FAILURE,NEVER,DELAY",
			"ORCPT=rfc822;x+3dy@d.example", "ORCPT=rfc822;x+3Dy@d.example", "ORCPT=rfc822;", "ORCPT=utf-8;", "ORCPT=;a@d.example", "ORCPT=rfc822", "NOTIFY=", "NOTIFY=,", "NOTIFY=SUCCESS,", "RRVS=", "ORCPT=rfc822;x+FFy@d.example", "ORCPT=rfc822;x+07y@d.example", "ORCPT=rfc822;+80@d.example", "ORCPT=rfc822;x+00@d.example",
			`ORCPT=utf-8;a\x{FFFFFFF}y@c.example`, `ORCPT=utf-8;a\x{110000}@c.example`, `ORCPT=utf-8;a\x{D800}@c.example`, `ORCPT=utf-8;a\x{DFFF}@c.example`, `ORCPT=utf-8;a\x{0}@c.example`, `ORCPT=utf-8;a\x{00}@c.example`,
			`ORCPT=utf-8;a\x{FFFFFFFFFFFFFFFFF}@c.example`, `ORCPT=utf-8;a\x{10FFFF}@c.example`, `ORCPT=utf-8;a\x{E9}@c.example`, `ORCPT=utf-8;a\x{7F}@c.example`, `ORCPT=utf-8;a\x{}@c.example`, `ORCPT=utf-8;a\x{G1}@c.example`,
			// the first and last value of every HEXPOINT form, and the same values with one leading zero (not minimal: malformed)
			`ORCPT=utf-8;a\x{80}@c.example`, `ORCPT=utf-8;a\x{FF}@c.example`, `ORCPT=utf-8;a\x{100}@c.example`, `ORCPT=utf-8;a\x{FFF}@c.example`, `ORCPT=utf-8;a\x{1000}@c.example`, `ORCPT=utf-8;a\x{D7FF}@c.example`,
			`ORCPT=utf-8;a\x{E000}@c.example`, `ORCPT=utf-8;a\x{FFFF}@c.example`, `ORCPT=utf-8;a\x{10000}@c.example`, `ORCPT=utf-8;a\x{FFFFF}@c.example`, `ORCPT=utf-8;a\x{100000}@c.example`,
			`ORCPT=utf-8;a\x{080}@c.example`, `ORCPT=utf-8;a\x{0FF}@c.example`, `ORCPT=utf-8;a\x{0100}@c.example`, `ORCPT=utf-8;a\x{0FFF}@c.example`, `ORCPT=utf-8;a\x{01000}@c.example`, `ORCPT=utf-8;a\x{0FFFF}@c.example`,
			`ORCPT=utf-8;a\x{010000}@c.example`, `ORCPT=utf-8;a\x{0FFFFF}@c.example`, `ORCPT=utf-8;a\x{0100000}@c.example`, `ORCPT=utf-8;a\x{0010FFFF}@c.example`, `ORCPT=utf-8;a\x{5}@c.example`, `ORCPT=utf-8;a\x{F}@c.example`,
			// printable characters that stand for themselves have no HEXPOINT form; '\\', '+', '=' and DEL have one
			`ORCPT=utf-8;a\x{41}@c.example`, `ORCPT=utf-8;a\x{21}@c.example`, `ORCPT=utf-8;a\x{7E}@c.example`, `ORCPT=utf-8;a\x{40}@c.example`, `ORCPT=utf-8;a\x{5C}b@c.example`, `ORCPT=utf-8;a\x{3D}b@c.example`,
			// characters that never stand for themselves in the utf-8 form
			`ORCPT=utf-8;a+b@c.example`, `ORCPT=utf-8;a=b@c.example`, `ORCPT=utf-8;a\b@c.example`, `ORCPT=utf-8;a\x41@c.example`, `ORCPT=utf-8;ab@c.example+`, `ORCPT=utf-8;+2Bab@c.example`} {
			add("RCPT", pth+" "+x)
		}
	}
	// non-ASCII mailboxes whose UTF-8 encoding contains the octets 0x85 and 0xA0 (NEL and NBSP in Latin-1) and other
	// continuation octets; declared sizes at the integer boundaries
	for _, pth := range []string{"<info@università.example>", "<jan@książka.example>", "<x@慠.example>", "<àą@d.example>", "<Å@Åland.example>", "<naïve@café.example>"} {
		add("MAIL", pth+" SMTPUTF8")
		add("MAIL", pth+" SMTPUTF8 SIZE=5")
		add("RCPT", pth)
		add("RCPT", pth+" NOTIFY=SUCCESS")
	}
	for _, z := range []string{"SIZE=2147483647", "SIZE=2147483648", "SIZE=4294967295", "SIZE=4294967296", "SIZE=9223372036854775807", "SIZE=9223372036854775808", "SIZE=18446744073709551615", "SIZE=18446744073709551616", "SIZE=00012", "SIZE=012"} {
		add("MAIL", "<l@d.example> "+z)
	}
	// the command words in other spellings (RFC 5321 2.4: command verbs and keywords are case-insensitive)
	ng := len(cases)
	for i := 0; i < ng; i += 7 {
		c := cases[i]
		for _, v := range map[string][]string{"MAIL": {"mail from:", "Mail From:", "MAIL from:"}, "RCPT": {"rcpt to:", "Rcpt To:", "RCPT to:"}}[c.Cmd] {
			c2 := c
			c2.Verb = v
			cases = append(cases, c2)
		}
	}
	// every grammar-derived line once more after each kind of predecessor on the same connection: nothing of an
	// earlier MAIL/RCPT line - accepted, refused by the backend or refused for a parameter - may reach the backend
	for i := 0; i < ng; i++ {
		if !plain[i] {
			continue
		}
		for _, pre := range []string{"tmp", "open", "refused", "malformed"} {
			c2 := cases[i]
			c2.Pre = pre
			cases = append(cases, c2)
		}
	}
	// the keyword in front of the path missing, misspelled or that of the other command
	for _, arg := range []string{"<ok@a.example>", "<ok@a.example> SIZE=1", "<>", "ok@a.example"} {
		for _, v := range []string{"MAIL ", "MAIL FORM:", "MAIL TO:", "MAIL FROM", "MAIL FROM;", "MAIL XXXXX", "MAIL F:", "MAIL FROMM:", "MAIL :", "MAIL FRO:M"} {
			for _, ext := range []bool{true, false} {
				cases = append(cases, C11Case{Cmd: "MAIL", Arg: arg, Ext: ext, Verb: v, BadVerb: true})
			}
		}
		for _, v := range []string{"RCPT ", "RCPT FROM:", "RCPT TO", "RCPT TOO:", "RCPT T:", "RCPT XX:", "RCPT :", "RCPT OT:"} {
			for _, ext := range []bool{true, false} {
				cases = append(cases, C11Case{Cmd: "RCPT", Arg: arg, Ext: ext, Verb: v, BadVerb: true})
			}
		}
	}
	// every unmutated grammar line once more over implicit TLS
	for i := 0; i < ng; i++ {
		if plain[i] {
			c2 := cases[i]
			c2.TLS = true
			cases = append(cases, c2)
		}
	}
	nGrammar := len(cases)
	enumStrings(c11Alphabet, strLen, func(s []byte) {
		add("MAIL", string(s))
		add("RCPT", string(s))
	})
	run.Counter("grammar_and_mutation_cases", int64(nGrammar))
	run.Counter("short_string_cases", int64(len(cases)-nGrammar))
	h.ParallelFor(len(cases), func(i int) {
		if i%256 == 0 && run.Expired() {
			return
		}
		if run.Expired() {
			return
		}
		c := cases[i]
		f, class := evalC11(c)
		run.Eval(class != ref.Unspecified)
		if f != nil {
			c.Show = fmt.Sprintf("%q", c.Arg)
			run.Violate("c11", c, f, func() *h.Finding { g, _ := evalC11(c); return g })
			run.Outcome("violation:" + f.Sig)
		} else {
			run.Outcome(c.Cmd + ":" + class.String())
		}
		if i%9973 == 17 {
			run.Sample("line", 8, map[string]interface{}{"cmd": c.Cmd, "arg": c.Arg, "class": class.String()})
		}
	})
	return run.Finish()
}
