//go:build vsync

package checks

import "github.com/emersion/go-smtp/vsync"

// setLockHook installs the lock-level scheduling hook (only in builds with the vsync overlay).
func setLockHook(f func(site string)) bool {
	vsync.LockHook = f
	return true
}

// haveVsync: the binary was built with the vsync overlay (channel-based mutexes visible to the schedule explorer).
func haveVsync() bool { return true }
