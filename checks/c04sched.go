package checks

import (
	"bytes"
	"fmt"
	"strings"

	"verif/h"
	"verif/ref"
)

// C04, schedule part: a slow backend delivery of an ABORTED chunked
// transaction completes at every possible moment relative to the next
// transactions. The backend's verdict is a function of the message's first
// line, so every schedule must produce the same replies.

type c04World struct {
	srvWorld
	want []byte // reply stream of the reference execution
}

func (w *c04World) Finish(x *h.Exec) *h.Finding {
	if f := w.srvWorld.Finish(x); f != nil {
		return f
	}
	if len(w.conns) == 0 {
		return h.F("c04s-no-conn", "%s: no connection", w.desc(x))
	}
	got := w.conns[0].client.In.Log
	if w.want != nil && !bytes.Equal(got, w.want) {
		return h.F("c04-stale-result", "%s: the replies depend on when the aborted delivery completes.\n   this schedule: %q\n   reference:     %q", w.desc(x), got, w.want)
	}
	return nil
}

func c04SchedScenarios(tier string) []SrvScenario {
	var out []SrvScenario
	pre := "EHLO c.example\r\nMAIL FROM:<ok@a.example>\r\nRCPT TO:<ok1@b.example>\r\n"
	first := pre + "BDAT 10\r\naccept-1\r\n"
	aborts := map[string]string{"RSET": "RSET\r\n", "EHLO": "EHLO again.example\r\n", "over-limit": "BDAT 100 LAST\r\n" + strings.Repeat("x", 100), "failed-chunk": "BDAT 5 LSAT\r\nabcde" + "RSET\r\n"}
	tx := func(k int, verdict string, chunked bool) string {
		env := fmt.Sprintf("MAIL FROM:<ok@a%d.example>\r\nRCPT TO:<ok1@b%d.example>\r\n", k, k)
		body := fmt.Sprintf("%s-%d\r\nbody\r\n", verdict, k)
		if chunked {
			return env + fmt.Sprintf("BDAT %d LAST\r\n%s", len(body), body)
		}
		return env + "DATA\r\n" + body + ".\r\n"
	}
	for an, ab := range aborts {
		for _, v2 := range []string{"accept", "reject"} {
			for _, ch2 := range []bool{false, true} {
				sc := SrvScenario{Name: fmt.Sprintf("stale-%s-then-%s-%s", an, v2, map[bool]string{false: "DATA", true: "BDAT"}[ch2]), Accepts: []string{"conn"}, ByContent: true, Gates: []string{"return"}, MaxBytes: 60,
					Clients: [][]string{{first, ab, tx(2, v2, ch2), tx(3, "accept", !ch2), "QUIT\r\n"}}}
				out = append(out, sc)
			}
		}
	}
	// two aborted deliveries in a row
	out = append(out, SrvScenario{Name: "stale-two-aborted", Accepts: []string{"conn"}, ByContent: true, Gates: []string{"return"},
		Clients: [][]string{{first, "RSET\r\n", "MAIL FROM:<ok@a.example>\r\nRCPT TO:<ok1@b.example>\r\nBDAT 10\r\nreject-9\r\n", "RSET\r\n", tx(4, "accept", true), "QUIT\r\n"}}})
	return out
}

func replayC04Sched(sc SrvScenario) *h.Finding {
	// reference first, then the schedule
	var want []byte
	refW := &c04World{srvWorld: srvWorld{sc: sc}}
	_, rf, rleak := h.ReplaySchedule(func() h.World { return refW }, []string{}, func(string) bool { return false })
	if rf != nil || rleak != "" {
		return h.F("c04s-reference-failed", "reference execution failed: %v %s", rf, rleak)
	}
	want = refW.conns[0].client.In.Log
	w := &c04World{srvWorld: srvWorld{sc: sc}, want: want}
	_, f, leak := h.ReplaySchedule(func() h.World { return w }, sc.Schedule, nil)
	if f == nil && leak != "" {
		f = h.F("c04-goroutine-leak", "scenario %s: goroutines blocked forever: %.300s", sc.Name, leak)
	}
	return f
}

func init() { h.RegisterReplayer("c04-sched", replayC04Sched) }

func c04Sched(run *h.Run, tier string) {
	for _, sc := range c04SchedScenarios(tier) {
		sc := sc
		// reference execution: no gate is a scheduling point, the delivery completes at once
		refW := &c04World{srvWorld: srvWorld{sc: sc}}
		rx, rf, rleak := h.ReplaySchedule(func() h.World { return refW }, []string{}, func(name string) bool { return !strings.HasPrefix(name, "be:") })
		_ = rx
		if rf != nil || rleak != "" || len(refW.conns) == 0 {
			run.Violate("c04-sched", sc, h.F("c04s-reference-failed", "scenario %s: reference execution failed: %v %s", sc.Name, rf, rleak), nil)
			continue
		}
		want := append([]byte(nil), refW.conns[0].client.In.Log...)
		// the reference itself must be right: replies per message follow the first line
		if f := c04CheckReference(sc, want); f != nil {
			run.Violate("c04-sched", sc, f, nil)
			continue
		}
		st := h.Explore(func() h.World { return &c04World{srvWorld: srvWorld{sc: sc}, want: want} }, h.ExploreOpts{Bound: -1, Parallel: true, Expired: run.Expired, MaxExec: 200000}, func(x *h.Exec, f *h.Finding, leak string) {
			run.Eval(true)
			run.Trace(1)
			if f == nil && leak != "" {
				f = h.F("c04-goroutine-leak", "scenario %s, schedule %v: goroutines blocked forever: %.300s", sc.Name, x.Schedule, leak)
			}
			if f != nil {
				c := sc
				c.Schedule = append([]string(nil), x.Schedule...)
				run.Violate("c04-sched", c, f, func() *h.Finding { return replayC04Sched(c) })
				run.Outcome("violation:" + f.Sig)
			}
		})
		run.State(1)
		run.Transition(st.ChoicePts)
		run.Counter("schedule_executions", st.Executions)
		if st.Truncated {
			run.NotExhaustive("schedule scenario " + sc.Name + " was cut short")
		}
		run.Outcome("sched-ok")
		run.Sample("schedule-scenario", 3, map[string]interface{}{"scenario": sc.Name, "client_segments": sc.Clients[0], "executions": st.Executions, "max_depth": st.MaxDepth})
	}
}

// c04CheckReference: in the reference execution every completed message is
// answered according to its own first line.
func c04CheckReference(sc SrvScenario, wire []byte) *h.Finding {
	rs, err := ref.ParseReplies(wire)
	if err != nil {
		return h.F("c04s-reference-wire", "scenario %s: %v", sc.Name, err)
	}
	all := strings.Join(sc.Clients[0], "")
	wantAccept := strings.Count(all, "accept-2") + strings.Count(all, "accept-3") + strings.Count(all, "accept-4")
	wantReject := strings.Count(all, "reject-2")
	gotAccept, gotReject := 0, 0
	for _, r := range rs {
		t := strings.Join(r.Text, " ")
		if r.Code == 250 && strings.Contains(t, "queued") {
			gotAccept++
		}
		if r.Code == 554 && strings.Contains(t, "reject-") {
			gotReject++
			if !strings.Contains(t, "reject-2") {
				return h.F("c04s-reference-foreign", "scenario %s: a negative reply carries another message's error: %s", sc.Name, r.String())
			}
		}
		if strings.Contains(t, "aborted") {
			return h.F("c04s-reference-aborted", "scenario %s: the error of the aborted transaction was reported to the client: %s", sc.Name, r.String())
		}
	}
	if gotAccept != wantAccept || gotReject != wantReject {
		return h.F("c04s-reference-verdicts", "scenario %s: %d positive and %d negative final replies, want %d and %d; wire %q", sc.Name, gotAccept, gotReject, wantAccept, wantReject, wire)
	}
	return nil
}
