package checks

import (
	"fmt"
	"time"

	"verif/h"
	"verif/ref"
)

// C03: backend callbacks follow transaction order; envelopes never leak.

func protocolConfigs(tier string) []ref.PConfig {
	var out []ref.PConfig
	type mode struct{ lmtp, lb bool }
	for _, m := range []mode{{false, false}, {true, false}, {true, true}} {
		for _, mr := range []int{0, 2} {
			for _, mb := range []int64{0, 40} {
				for _, tls := range []bool{false, true} {
					pc := ref.PConfig{LMTP: m.lmtp, LMTPBackend: m.lb, MaxRcpt: mr, MaxBytes: mb, TLSAvail: tls, AllowInsecureAuth: true, AuthBackend: true}
					if tier == "quick" {
						// quick: the corner configurations
						keep := (mr == 2 && mb == 40 && tls && (!m.lmtp || m.lb)) || (mr == 0 && mb == 0 && !tls && !m.lmtp) || (m.lmtp && !m.lb && mr == 2 && mb == 0 && !tls)
						if !keep {
							continue
						}
					}
					out = append(out, pc)
				}
			}
		}
	}
	// one configuration over implicit TLS (the handshake is done by the connection handler before the greeting): what
	// NewSession is shown of the TLS state is then the state of a completed handshake
	out = append(out, ref.PConfig{ImplicitTLS: true, TLSAvail: true, MaxRcpt: 2, AllowInsecureAuth: false, AuthBackend: true})
	return out
}

func C03(tier string) int {
	run := h.NewRun("C03", tier, "model_checking", "", 25*time.Minute)
	cfgs := protocolConfigs(tier)
	nAlpha := len(Alphabet(ref.PConfig{MaxBytes: 1}))
	run.Rule = fmt.Sprintf("explicit-state breadth-first search over command histories: alphabet of %d abstract commands (valid / backend-rejected / malformed / out-of-order variants of HELO EHLO LHLO MAIL RCPT DATA BDAT RSET NOOP VRFY HELP AUTH STARTTLS QUIT, unknown, empty, mangled; DATA and BDAT with accepted, rejected, early-failing and panicking deliveries), %d configurations ({SMTP, LMTP plain backend, LMTP per-recipient backend} x recipient limit {0,2} x size limit {0,40} x TLS {none, available} + one configuration over implicit TLS). Every transition replays the shortest history reaching the state on a fresh REAL server in lock-step (inside a synctest bubble, real TLS handshake for STARTTLS) plus one command, and is compared with the reference protocol model (ref/protocol.go). States are deduplicated by (private-state dump of the real Conn, model state); search runs to the fixpoint. Merge audit: for every state one history that the key merged into it at the first level and the longest one that ever arrived are extended by two probe sequences and judged against the model too (counter merge_audit_histories). Plus 7 histories per configuration that end an open chunked transfer (RSET, greeting, QUIT, over-limit chunk, nested MAIL, NOOP, DATA) with a backend that needs 20 virtual seconds to abandon a delivery (no other callback of the session begins before Session.Data has returned). distinct = transitions; non-trivial = all (every transition executes the real handler).", nAlpha, len(cfgs))
	run.Assumptions = []string{
		"counters that the code only compares with small constants are capped in the state key: len(recipients) at 3, bytesReceived ignored when no size limit is set",
		"a nested MAIL may be processed or refused; DATA after a MAIL that declared BODY=BINARYMIME may be refused or processed (C03 does not speak about either)",
		"the recording backend is stateless (decides by address / first message line), so the state key needs no backend part",
	}
	totalStates, totalTrans := 0, 0
	for _, pc := range cfgs {
		alpha := Alphabet(pc)
		st := exploreProtocol(run, "c03", pc, alpha, 0, nil, func(hist []int, r *histResult) {
			run.Eval(true)
			run.Outcome(alpha[hist[len(hist)-1]].Op + ":" + replyCodes(r.Steps[len(r.Steps)-1].Replies))
		})
		run.State(int64(st.States))
		totalStates += st.States
		totalTrans += st.Transitions
		run.Counter(fmt.Sprintf("states[lmtp=%t,lmtpbackend=%t,maxrcpt=%d,maxbytes=%d,tls=%t]", pc.LMTP, pc.LMTPBackend, pc.MaxRcpt, pc.MaxBytes, pc.TLSAvail), int64(st.States))
		run.Counter("max_depth", int64(st.MaxDepth))
		fmt.Printf("  config %+v: states=%d transitions=%d depth=%d closed-edges=%d\n", pc, st.States, st.Transitions, st.MaxDepth, st.Closed)
	}
	// a backend that needs 20 virtual seconds to abandon a delivery whose reader failed: whatever ends the transfer
	// (RSET, a new greeting, QUIT, a failing chunk) waits for Session.Data to return before any other callback of the
	// session begins (the overlap is recorded by the backend itself), and the model holds as with a prompt backend
	for _, pc := range cfgs {
		hello := "EHLO c1"
		if pc.LMTP {
			hello = "LHLO c1"
		}
		if pc.ImplicitTLS {
			continue
		}
		for _, ender := range []string{"RSET", hello, "QUIT", "BDAT over limit", "MAIL ok", "NOOP", "DATA accept-d1"} {
			c := C03SlowCase{PC: pc, Names: []string{hello, "MAIL ok", "RCPT a", "BDAT accept-c1", ender, "RSET", "MAIL ok", "RCPT b", "DATA accept-d1", "NOOP"}}
			f := evalC03Slow(c)
			run.Eval(true)
			run.Trace(1)
			if f != nil {
				run.Violate("c03-slow-abort", c, f, func() *h.Finding { return evalC03Slow(c) })
				run.Outcome("violation:" + f.Sig)
			} else {
				run.Outcome("slow-abort-ok")
			}
		}
	}
	return run.Finish()
}

type C03SlowCase struct {
	PC    ref.PConfig `json:"config"`
	Names []string    `json:"names"`
}

// evalC03Slow runs one history (names of the shared alphabet; a name the configuration does not have is skipped) with
// a backend that needs 20 virtual seconds to abandon a delivery, against the model.
func evalC03Slow(c C03SlowCase) *h.Finding {
	alpha := Alphabet(c.PC)
	idx := map[string]int{}
	for i, a := range alpha {
		idx[a.Name] = i
	}
	var hist []int
	for _, n := range c.Names {
		if i, ok := idx[n]; ok {
			hist = append(hist, i)
		}
	}
	opts := &lockOpts{Backend: func(be *h.Backend) { be.SlowAbort = 20 * time.Second }, Patience: 30 * time.Second, Settle: true}
	r := runLockstepOpt("c03", c.PC, alpha, hist, opts)
	if r.Finding != nil {
		r.Finding.What = "(backend that takes 20 s to abandon a delivery) " + r.Finding.What
	}
	return r.Finding
}

func init() { h.RegisterReplayer("c03-slow-abort", evalC03Slow) }
