#!/bin/bash
# Generates the build overlay that swaps "sync" for the vsync shim in conn.go and server.go.
# Regenerated from /repo's working tree on every run; /repo is not modified.
set -e
cd "$(dirname "$0")/.."
O=.work/overlay
rm -rf "$O"; mkdir -p "$O"
for f in conn.go server.go; do
  n=$(grep -c '^	"sync"$' /repo/$f || true)
  if [ "$n" != "1" ]; then echo "mkoverlay: expected exactly one import line \"sync\" in $f, found $n" >&2; exit 1; fi
  sed 's|^	"sync"$|	sync "github.com/emersion/go-smtp/vsync"|' /repo/$f > "$O/$f"
done
cat > .work/overlay.json <<J
{"Replace": {
 "/repo/conn.go": "$(pwd)/$O/conn.go",
 "/repo/server.go": "$(pwd)/$O/server.go",
 "/repo/vsync/vsync.go": "$(pwd)/overlay/vsync/vsync.go"
}}
J
