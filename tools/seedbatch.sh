#!/bin/bash
# tools/seedbatch.sh <dir> <ID> <checks...>   verify and check every patch<k>.diff in <dir>/<ID>/_seed
D="$1"; ID="$2"; shift 2
for P in "$D/$ID"/_seed/patch*.diff; do
  k=$(basename "$P" .diff); k=${k#patch}
  echo "===== $ID seed $k"
  tools/seedverify.sh "$D/$ID/_seed" "$k" "TestSeed${ID}Demo$k" 2>&1 | grep -E "^(demo|suite|patch)" | tr '\n' ';'; echo
  tools/seedcheck.sh "$P" "$@" 2>&1 | grep -E "^(SUITE: FAILS|CHECK|seedcheck)"
done
