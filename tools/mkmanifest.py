#!/usr/bin/env python3
"""Generates /verif/MANIFEST.json from the table below (kept next to the checks so the two stay in step)."""
import json, os
ROOT = os.path.dirname(os.path.dirname(os.path.abspath(__file__)))
props = [json.loads(l) for l in open(os.path.join(ROOT, 'properties.jsonl'))]

MC = "bounded exhaustive exploration of the real implementation (model checking family)"
CHECKS = {
 "C01": dict(engine="S/input", cat="exploration", ref="DESIGN.md §4 C01",
   text="All octet streams over the byte-class alphabet {'.',CR,LF,other} up to a length bound, x all 2-splits / per-octet / (thorough) all segmentations, x backend read sizes are executed on the real DATA reader and on the full server path and compared with a 30-line reference unstuffing function. Exhaustive within the bound, which drives every transition of the reader's state machine from every reachable state.",
   note="byte-class abstraction (reader branches only on '.', CR, LF); ref.Unstuff is the specification; in-memory scripted connection instead of a socket; go1.26.8 toolchain",
   tech="exhaustive input x segmentation enumeration on the real code against a reference model"),
 "C02": dict(engine="S/input", cat="exploration", ref="DESIGN.md §4 C02",
   text="All messages of <=3 (thorough 4) tokens over bait commands and terminator look-alikes x backend read behaviour x verdict x size limit x {SMTP, LMTP, LMTP per-recipient} x segmentations are run on the real server; a differential oracle (same follow-up commands on a connection that transferred a trivial message) decides that commands resume exactly behind the first true end marker, and no bait address may reach the backend.",
   note="reference run uses the same server code (differential); DATA reply codes themselves are judged in C04/C06",
   tech="exhaustive input/configuration enumeration with a differential oracle"),
 "C05": dict(engine="S/input", cat="exploration", ref="DESIGN.md §4 C05",
   text="All payloads up to a length over {CR,LF,'.',NUL,0xFF,other} plus fixed adversarial payloads x every division into chunks x four segmentation disciplines x modes, and every refusal state x payloads, run on the real server; oracle: one Data call yielding the concatenation then EOF, exactly one reply per command, pipelined marker commands executed exactly once, payload never executed.",
   note="known finding D6 (line limiter counts payload sharing a raw read) is matched by signature and by an independent simulation of its sub-space",
   tech="exhaustive enumeration of chunkings x payloads x segmentations on the real code"),
 "C06": dict(engine="S/input", cat="exploration", ref="DESIGN.md §4 C06",
   text="Limits x message sizes around the limit x DATA and all chunkings x read sizes x segmentation x modes, and SIZE= values around the limit, executed on the real server; within the limit the observation must be identical to the unlimited server (differential), above it 552/no EOF/transaction discarded/backend octets <= N.",
   note="message size counted after dot-unstuffing; backend reads to the end",
   tech="exhaustive boundary enumeration with a differential oracle"),
 "C07": dict(engine="S/cut", cat="fault_enumeration", ref="DESIGN.md §4 C07",
   text="Every byte offset of every conversation of a DATA/BDAT corpus is used as the point where the client's stream ends, with three terminal errors and two segmentations; executions run in testing/synctest bubbles so delivery goroutines are observed to completion. Oracle: EOF iff the whole message arrived.",
   note="corpus of conversations is hand-written (listed in checks/corpus.go); backend returns the reader's error",
   tech="exhaustive fault-point (connection cut) enumeration on the real code"),

 "C03": dict(engine="S/bfs", cat="model_checking", ref="DESIGN.md §4 C03",
   text="Explicit-state breadth-first search over command histories to a fixpoint: ~50 abstract commands, every transition replays the shortest history on a fresh real server in lock-step (synctest bubble, real TLS handshake for STARTTLS) plus one command and is compared with the reference protocol model (replies, callbacks with arguments, backend-side envelope at Data time, NewSession's view of greeting name and TLS state). States are deduplicated by (private-state dump of the real Conn, model state).",
   note="reference model ref/protocol.go; capped counters in the state key (recipients at 3; bytesReceived ignored without a limit); stateless recording backend",
   tech="explicit-state BFS where each transition calls the real handler, step-by-step conformance with a reference model"),
 "C04": dict(engine="S/bfs + X", cat="model_checking", ref="DESIGN.md §4 C04",
   text="Every BFS transition (as C03) is judged for reply count/order/format by a strict RFC 5321/2034 parser and then re-sent as raw octets fully pipelined, one octet per segment and 2-split around the last command: the output must be octet-identical to the lock-step conversation. Negative final replies must carry that very message's own error.",
   note="TLS-upgraded histories are judged lock-step only; schedule part (slow delivery of an aborted transaction vs next transaction) is explored by the schedule explorer",
   tech="explicit-state BFS + exhaustive re-segmentation of every explored history (differential)"),
 "C08": dict(engine="S/cut", cat="fault_enumeration", ref="DESIGN.md §4 C08",
   text="Every byte offset of a corpus of conversations as disconnect point x 3 terminal errors x 2 segmentations, and every server-initiated close reason x connection state x every suffix of a pool of buffered follow-up commands x 3 segmentations; all in synctest bubbles so that a goroutine that never finishes is reported by the runtime. Oracle on the backend trace: exactly one Logout per session, nothing begins after it, no session after the end.",
   note="goroutine *start* order is left to the Go scheduler (late start observed deterministically in practice); STARTTLS sessions judged in C10",
   tech="exhaustive fault-point enumeration (disconnect at every offset, every close reason x buffered suffix) on the real code"),

 "C09": dict(engine="S/bfs + D", cat="model_checking", ref="DESIGN.md §4 C09",
   text="Server half: explicit-state BFS to a fixpoint over {EHLO, NOOP, MAIL, RSET, STARTTLS, hundreds of scripted AUTH exchanges} x 12 configurations (TLS state x AllowInsecureAuth x backend kind), every transition on the real server in lock-step against the reference model; a recording SASL mechanism logs each octet string it is handed. Failed handshake: STARTTLS answered 220, then non-handshake octets - the connection must stay plaintext in every respect. Client half: exhaustive scripted client/server mechanism pairs over the real client and server.",
   note="reference model ref/protocol.go (authStep); 5xx code for insecure AUTH not fixed by the statement",
   tech="explicit-state BFS on the real handler + exhaustive enumeration of scripted SASL exchanges, conformance with a reference model"),
 "C10": dict(engine="S/bfs + D", cat="model_checking", ref="DESIGN.md §4 C10",
   text="Server: the BFS collects every reachable pre-STARTTLS state; for each state x injected plaintext x placement a real TLS upgrade is performed and 13 probe commands inside TLS are compared with the reference model; no injected command may execute once TLS is up. Client: all entry points x scripted misbehaving servers; raw octets before the handshake are inspected.",
   note="loopback TCP for DialStartTLS/SendMail; a handshake broken by injected octets is 'no TLS session' and not judged further",
   tech="explicit-state BFS for state collection + exhaustive state x fault (injection / server misbehaviour) enumeration on the real code"),
 "C11": dict(engine="S/input", cat="exploration", ref="DESIGN.md §4 C11",
   text="Grammar-derived valid lines, every single-point mutation of them and all short strings over the syntactically significant characters are sent to the real server; an independent reference grammar classifies each as valid (with expected mailbox and decoded option values) / definitely invalid / unspecified; valid => exact values at the backend, invalid => 5xx and no callback.",
   note="ref/pathgrammar.go is the specification; a documented list of lenient/ambiguous forms is 'unspecified' and only checked for reply/callback consistency",
   tech="exhaustive input enumeration (all short strings, all 1-point mutations) against an independent reference grammar"),
 "C12": dict(engine="S/bfs sweep", cat="model_checking", ref="DESIGN.md §4 C12",
   text="The complete configuration space (4096 incl. both routes to TLS-active) is enumerated; per configuration a lock-step conversation with the real server (real TLS) compares the EHLO keyword set with an independent capability function and probes every extension's command/parameter for 'advertised => accepted' and 'disabled => 504'.",
   note="REQUIRETLS enabled but probed outside TLS is not judged",
   tech="exhaustive enumeration of the finite configuration space on the real code"),
 "C14": dict(engine="CB + D", cat="exploration", ref="DESIGN.md §4 C14",
   text="Codec pairs for all ASCII strings up to a length and every Unicode scalar; all short strings over an encoding-significant alphabet in every string-valued option, every scalar inside a UTF-8 ORCPT, and option subsets, each sent by the real client to the real server and compared at the backend. Histories of client calls: an explicit-state breadth-first search over sequences of Client API calls (Hello, Noop, Reset, Mail, Rcpt, Data, LMTPData, SendMail, Auth, Extension, Verify, Quit; accepted / refused / failing variants) on one connection against the real server, to the fixpoint of (Client private state, Conn private state, model state), judges every call in every reachable state.",
   note="judged domain per field stated in the evidence rule; Body excluded (client always sends 8BITMIME)",
   tech="exhaustive input enumeration through real client -> real server round trips + explicit-state BFS over client call histories against a model"),
 "C15": dict(engine="CB + D (scripted server)", cat="exploration", ref="DESIGN.md §4 C15",
   text="All 2^7 advertised-extension subsets x all option-field subsets (also after a second EHLO advertising a different subset) and all short hostile strings in every string-typed argument, against a scripted server; the raw octets written by each call are inspected. Histories of client calls: an explicit-state breadth-first search over sequences of Client API calls (Hello, Noop, Reset, Mail, Rcpt, Data, LMTPData, SendMail, Auth, Extension, Verify, Quit; accepted / refused / failing variants) on one connection against the real server, to the fixpoint of (Client private state, Conn private state, model state), judges every call in every reachable state.",
   note="scripted server is a pure function line -> reply",
   tech="exhaustive configuration x input enumeration on the real client, raw wire inspection + explicit-state BFS over client call histories against a model"),
 "C16": dict(engine="CB + D", cat="exploration", ref="DESIGN.md §4 C16",
   text="All bodies up to 6 (7) tokens over {'.', LF, CRLF, other} x all 2-split / per-octet / single Write partitions x verdict x {SMTP, LMTP} through the real client into the real server; backend octets compared with a reference normalisation; second Close must be a local error with no octet written. Histories of client calls: an explicit-state breadth-first search over sequences of Client API calls (Hello, Noop, Reset, Mail, Rcpt, Data, LMTPData, SendMail, Auth, Extension, Verify, Quit; accepted / refused / failing variants) on one connection against the real server, to the fixpoint of (Client private state, Conn private state, model state), judges every call in every reachable state.",
   note="CR only as part of CRLF; deadlocks are detected by the synctest runtime, not by timeouts",
   tech="exhaustive input x partition enumeration through real client -> real server + explicit-state BFS over client call histories against a model"),
 "C17": dict(engine="CB + D", cat="exploration", ref="DESIGN.md §4 C17",
   text="Codes x enhanced-code kinds x message shapes x callbacks (and generic errors) - the full product - through real server and real client; wire reply parsed strictly and the client's SMTPError compared field by field. Histories of client calls: an explicit-state breadth-first search over sequences of Client API calls (Hello, Noop, Reset, Mail, Rcpt, Data, LMTPData, SendMail, Auth, Extension, Verify, Quit; accepted / refused / failing variants) on one connection against the real server, to the fixpoint of (Client private state, Conn private state, model state), judges every call in every reachable state.",
   note="NoEnhancedCode + text that parses as a code is ambiguous and only the reply code is judged",
   tech="exhaustive enumeration of the stated finite product on the real code + explicit-state BFS over client call histories against a model"),
 "C18": dict(engine="CB + D", cat="exploration", ref="DESIGN.md §4 C18",
   text="All sequences of 1-2 (3) LMTP transactions x 1-3 recipients x per-recipient fate {refused at RCPT, ok, 4xx, 5xx} x {callback, no callback} x backend kind through the real LMTP client and server, plus a scripted LMTP server that accepts recipients with 250/251/252; a client waiting for replies that never come is a runtime-detected deadlock. Histories of client calls: an explicit-state breadth-first search over sequences of Client API calls (Hello, Noop, Reset, Mail, Rcpt, Data, LMTPData, SendMail, Auth, Extension, Verify, Quit; accepted / refused / failing variants) on one connection against the real server, to the fixpoint of (Client private state, Conn private state, model state), judges every call in every reachable state.",
   note="exact deadlock oracle from testing/synctest",
   tech="exhaustive history enumeration through real client <-> real server with an exact deadlock oracle + explicit-state BFS over client call histories against a model"),
 "C19": dict(engine="S/input", cat="exploration", ref="DESIGN.md §4 C19",
   text="Line lengths around three limits x positions in the conversation x all 2-splits / per-octet segmentation, endless lines, all short strings over a hostile byte alphabet in three states, all sequences of valid/invalid commands around the error threshold; oracle: no panic (escaped or recovered), exact 500/close behaviour, bounded input consumption.",
   note="known finding D6 demonstrated by a directed family; random binary input is a labelled supplement",
   tech="exhaustive input x segmentation enumeration on the real code"),

 "C13": dict(engine="X", cat="model_checking", ref="DESIGN.md §4 C13",
   text="For every scenario (recipient list with duplicates x status-call sequence incl. contract violations x before/after-read split x return kind x transfer kind x backend kind) the schedule explorer enumerates the orders of backend steps, the handler's reply writes and client segments on the real LMTP server inside testing/synctest bubbles - all interleavings for short recipient lists, deviation-bounded above; replies are compared with an independent attribution function; deadlocks are detected by the runtime.",
   note="go-smtp is built with channel-based mutexes through a build overlay (overlay/vsync) so that every blocked goroutine is visible to the explorer; stretches between scheduling points run under the Go scheduler",
   tech="stateless schedule exploration (all interleavings / deviation-bounded) of the real code under a controlled scheduler"),
 "C20": dict(engine="X + R", cat="model_checking", ref="DESIGN.md §4 C20",
   text="Schedule exploration of server-level scenarios (slow/non-reading BDAT deliveries, LMTP deliveries, Shutdown with connections, all Accept-answer sequences with the virtual clock) with Server.Close/Shutdown fired at any point: all interleavings at event level, preemption-bounded at lock level (every Lock() is a scheduling point). Exact oracles for goroutine leaks and deadlocks from testing/synctest. The data-race clause: every enumerated schedule is replayed free-running under the Go race detector.",
   note="race clause = 'each listed schedule executed once under the happens-before detector', not 'every interleaving'; a recovered nil-session panic of the command loop under a concurrent Server.Close is not part of C20's statement and not judged",
   tech="stateless schedule exploration with deviation (preemption) bounding on the real code + happens-before race detection on the replayed schedules"),
}
NOT_YET = "check not built yet (work in progress, see DESIGN.md §4)"

m = {
 "version": 1,
 "setup_cmd": "cd /verif && ./setup.sh",
 "hooks": {"guard": "verif (Go build tag)",
           "enable": "go test -c -tags verif (hook file /repo/verif_hooks.go carries //go:build verif)",
           "baseline_off_cmd": "cd /repo && GOFLAGS=-mod=mod GOPROXY=off GOSUMDB=off GOTOOLCHAIN=local go test -vet=off -count=1 -json ./...",
           "source_commits": ["de8bd85", "7055143", "c3d8f5f", "9b94bc5"], "add_only": True},
 "engines": [
   {"name": "S", "path": "/verif/h/server.go", "serves_properties": ["C01","C02","C03","C04","C05","C06","C07","C08","C09","C10","C11","C12","C19"], "kind_free_text": "sequential exhaustive driver: real connection handler over a scripted in-memory net.Conn inside a testing/synctest bubble (exact quiescence and leak detection)"},
   {"name": "L", "path": "/verif/h/live.go", "serves_properties": ["C03","C04","C09","C10","C12"], "kind_free_text": "lock-step driver: real handler goroutine + in-memory duplex connection + synctest.Wait for exact quiescence after each command; real TLS handshakes"},
   {"name": "BFS", "path": "/verif/checks/bfs.go", "serves_properties": ["C03","C04","C09","C10"], "kind_free_text": "explicit-state breadth-first search over command histories; successor = replay of the shortest history on a fresh real server + one abstract command; state key = private-state dump of the real Conn + reference-model state"},
   {"name": "D", "path": "/verif/h/duplex.go", "serves_properties": ["C14","C15","C16","C17","C18","C09","C10"], "kind_free_text": "real smtp.Client <-> real server (or scripted server) over an in-memory connection inside a synctest bubble; deadlock = runtime-detected"},
   {"name": "CB", "path": "/verif/checks/clientbfs.go", "serves_properties": ["C14","C15","C16","C17","C18"], "kind_free_text": "explicit-state breadth-first search over histories of CLIENT API calls: real smtp.Client <-> real server; successor = replay of the shortest history on a fresh pair + one call; state key = private state of the real Client + private state of the real Conn + model state; every call judged in every reachable state"},
   {"name": "X", "path": "/verif/h/sched.go", "serves_properties": ["C04","C13","C20"], "kind_free_text": "stateless schedule explorer: gates at backend/connection/listener/admin/clock seams (and every Lock() via the vsync overlay), one gate opened per step, synctest.Wait as the exact quiescence signal; DFS over choice sequences with deviation bounding; schedules are lists of stable names and replay"},
   {"name": "R", "path": "/verif/checks/c20race.go", "serves_properties": ["C20"], "kind_free_text": "free-running replays of engine X's schedules in a -race build with the ordinary sync package; reports reduced to function-pair signatures"},
 ],
 "checks": [], "not_applicable": [],
 "notes": "Every quick command also reports a panic of directly called code, a goroutine that never finishes, backend anomalies (reads after EOF, Reset/Logout overlapping a delivery) and an execution that spins for more than 180 s as violations. All checks are built and run with go1.26.8 (GOTOOLCHAIN=local) because testing/synctest provides the exact 'all goroutines blocked' signal the explorers need. ./check <ID> <tier> rebuilds from /repo's working tree with -tags verif.",
}
for p in props:
    i = p['id']
    if i in CHECKS:
        c = CHECKS[i]
        m["checks"].append({"property_id": i, "quick_cmd": "./check %s quick" % i, "thorough_cmd": "./check %s thorough" % i,
            "evidence_file": "/verif/evidence/%s.json" % i, "replay_cmd_template": "./check --replay {path}", "engine": c["engine"],
            "level_claimed": {"category": c["cat"], "text": c["text"], "design_ref": c["ref"]},
            "level_note": c["note"], "technique": MC + ": " + c["tech"]})
    else:
        m["not_applicable"].append({"property_id": i, "reason": NOT_YET})
json.dump(m, open(os.path.join(ROOT, 'MANIFEST.json'), 'w'), indent=1)
print("claimed:", [c["property_id"] for c in m["checks"]])
