#!/bin/bash
# tools/seedverify.sh <dir-with-patchK.diff/demoK_test.go> <K> <testname-regex>
# Confirms, in a scratch worktree of /repo outside /repo and /verif, that a seeded change
#  (a) applies and builds, (b) passes the repository's own suite, (c) makes its demonstration fail,
#  and that the demonstration passes without the change. Removes the worktree afterwards.
D="$(readlink -f "$1")"; K="$2"; T="$3"
export GOFLAGS=-mod=mod GOPROXY=off GOSUMDB=off GOTOOLCHAIN=local
W=$(mktemp -d /tmp/seedverify.XXXXXX); rmdir "$W"
git -C /repo worktree add -q --detach "$W" HEAD || exit 2
trap 'git -C /repo worktree remove --force "$W" >/dev/null 2>&1' EXIT
cd "$W" || exit 2
cp "$D/demo$K"_test.go ./zz_seed_demo_test.go
if go test -vet=off -count=1 -run "$T" . >/tmp/sv-clean.log 2>&1; then echo "demo passes WITHOUT the change: yes"; else echo "demo passes WITHOUT the change: NO"; tail -5 /tmp/sv-clean.log; fi
rm zz_seed_demo_test.go
git apply "$D/patch$K.diff" || { echo "patch does not apply"; exit 1; }
if go build ./... && go test -vet=off -count=1 ./... >/tmp/sv-suite.log 2>&1; then echo "suite passes WITH the change: yes"; else echo "suite passes WITH the change: NO"; tail -5 /tmp/sv-suite.log; fi
cp "$D/demo$K"_test.go ./zz_seed_demo_test.go
if go test -vet=off -count=1 -run "$T" . >/tmp/sv-mut.log 2>&1; then echo "demo fails WITH the change: NO (it passes)"; else echo "demo fails WITH the change: yes"; grep -E "^\s+\S+_test.go|--- FAIL" /tmp/sv-mut.log | head -4; fi
