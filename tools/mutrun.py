#!/usr/bin/env python3
"""tools/mutrun.py — first-order mutation run of the library against the quick checks (development aid).

  mutrun.py filter <file.go>...   for every mutant of /repo/<file.go> (bin/mutate): does it build, does the repository's
                                  own suite still pass?  -> .work/mut/<file>.filter.tsv   (parallel, scratch copies)
  mutrun.py check  <file.go>...   every mutant that builds and passes the suite is run against the quick checks in
                                  order of their run time until one reports it -> .work/mut/<file>.result.tsv
  mutrun.py report                summary of all result files

Everything happens in scratch copies under /tmp/mut (a copy of /repo's working tree and a copy of /verif whose go.mod
points at it); /repo and /verif's evidence are never touched. Not part of any check's verdict: survivors are read by
hand (equivalent mutant, outside every property, or a gap to close).
"""
import os, sys, subprocess, shutil, time, json
from concurrent.futures import ThreadPoolExecutor

GO = '/opt/veriftools/go1.26.8/bin/go'
ENV = dict(os.environ, GOFLAGS='-mod=mod', GOPROXY='off', GOSUMDB='off', GOTOOLCHAIN='local')
ROOT = '/verif'
OUT = ROOT + '/.work/mut'
SCR = os.environ.get('MUT_SCR', '/tmp/mut')
SRC = '/tmp/mut/src'  # pristine snapshot of /repo's working tree, taken once
ORDER = ['C07', 'C15', 'C12', 'C17', 'C08', 'C18', 'C09', 'C14', 'C16', 'C10', 'C05', 'C11', 'C19', 'C01', 'C02', 'C06', 'C03']
ORDER_X = ['C13', 'C04', 'C20']


def sh(cmd, cwd=None, timeout=None, env=ENV):
    try:
        p = subprocess.run(cmd, cwd=cwd, env=env, stdout=subprocess.PIPE, stderr=subprocess.STDOUT, timeout=timeout, shell=isinstance(cmd, str))
        return p.returncode, p.stdout.decode('utf-8', 'replace')
    except subprocess.TimeoutExpired as e:
        return 124, (e.stdout or b'').decode('utf-8', 'replace') + '\nTIMEOUT'


def snapshot():
    if not os.path.isdir(SRC):
        os.makedirs(SRC)
        sh("rsync -a --exclude .git /repo/ %s/" % SRC)


def copy_repo(dst):
    snapshot()
    shutil.rmtree(dst, ignore_errors=True)
    os.makedirs(dst)
    sh("rsync -a %s/ %s/" % (SRC, dst))


def mutants(f):
    rc, out = sh([ROOT + '/bin/mutate', '-list', SRC + '/' + f])
    res = []
    for l in out.splitlines():
        n, line, op, detail = (l.split(' ', 3) + [''])[:4]
        res.append((int(n), int(line), op, detail))
    return res


def skip(f, m, src_lines):
    n, line, op, detail = m
    text = src_lines[line - 1] if line - 1 < len(src_lines) else ''
    if op in ('int+1', 'int-1') and 'EnhancedCode{' in text:
        return True  # the value of an enhanced status code (not judged by any property beyond its class)
    return False


def do_filter(files):
    os.makedirs(OUT, exist_ok=True)
    P = 8
    for i in range(P):
        copy_repo('%s/w%d' % (SCR, i))
    for f in files:
        ms = mutants(f)
        src = open(SRC + '/' + f).read().splitlines()
        orig = open(SRC + '/' + f).read()
        results = {}

        def work(args):
            wi, m = args
            n = m[0]
            if skip(f, m, src):
                return n, 'skipped'
            w = '%s/w%d' % (SCR, wi)
            rc, out = sh([ROOT + '/bin/mutate', '-n', str(n), SRC + '/' + f])
            if rc != 0:
                return n, 'mutate-error'
            open(w + '/' + f, 'w').write(out)
            try:
                rc, o = sh('go build ./... && go vet -tags verif . >/dev/null 2>&1; go build -tags verif ./...', cwd=w, timeout=300)
                if rc != 0:
                    return n, 'nobuild'
                rc, o = sh('go test -vet=off -count=1 -timeout 20s ./...', cwd=w, timeout=120)
                return n, 'suitepass' if rc == 0 else 'suitefail'
            finally:
                open(w + '/' + f, 'w').write(orig)

        # static assignment of mutants to workers: worker i handles mutants with index % P == i, sequentially
        def lane(wi):
            for m in ms[wi::P]:
                n, st = work((wi, m))
                results[n] = st
        with ThreadPoolExecutor(P) as ex:
            list(ex.map(lane, range(P)))
        with open('%s/%s.filter.tsv' % (OUT, f), 'w') as fh:
            for m in ms:
                fh.write('%d\t%d\t%s\t%s\t%s\n' % (m[0], m[1], m[2], results.get(m[0], '?'), m[3]))
        cnt = {}
        for v in results.values():
            cnt[v] = cnt.get(v, 0) + 1
        print(f, cnt, flush=True)
    for i in range(P):
        shutil.rmtree('%s/w%d' % (SCR, i), ignore_errors=True)


def setup_check():
    v = SCR + '/verif'
    shutil.rmtree(v, ignore_errors=True)
    os.makedirs(v)
    sh("rsync -a --exclude .git --exclude evidence --exclude bin --exclude .work --exclude seeded --exclude notes %s/ %s/" % (ROOT, v))
    copy_repo(SCR + '/crepo')
    sh("sed -i 's|=> /repo|=> %s/crepo|' go.mod && sed -i 's|/repo/|%s/crepo/|g' tools/mkoverlay.sh && mkdir -p evidence/replays bin .work/parts" % (SCR, SCR), cwd=v)
    return v


def run_check(v, binary, ID):
    env = dict(ENV, VERIF_ROOT=v, VERIF_PROP=ID, VERIF_TIER_RUN='quick')
    sh('rm -f evidence/%s.json evidence/replays/%s-* .work/parts/%s.*' % (ID, ID, ID), cwd=v)
    pre = 'ulimit -v 40000000; ' if ID != 'C20' else ''
    rc, out = sh(pre + "nice -n 5 %s -test.run '^TestCheck$' -test.timeout 0 -test.count 1" % binary, cwd=v, timeout=1500, env=env)
    sigs = sorted(set(l.split('sig=')[1].split()[0] for l in out.splitlines() if 'sig=' in l))
    viol = any(l.startswith('VIOLATION') for l in out.splitlines())
    return rc, viol, sigs, out


def do_check(files, recheck=False):
    v = setup_check()
    for f in files:
        rows = [l.rstrip('\n').split('\t') for l in open('%s/%s.filter.tsv' % (OUT, f))]
        if recheck:
            # only the mutants that survived an earlier run (against an older state of the checks)
            surv = set()
            for l in open('%s/%s.result.tsv' % (OUT, f)):
                p = l.rstrip('\n').split('\t')
                if p[3] == 'SURVIVED':
                    surv.add(p[0])
            rows = [r for r in rows if r[0] in surv]
        orig = open(SRC + '/' + f).read()
        done = {}
        resf = '%s/%s.%s.tsv' % (OUT, f, 'recheck' if recheck else 'result')
        if os.path.exists(resf):
            for l in open(resf):
                p = l.rstrip('\n').split('\t')
                done[p[0]] = True
        fh = open(resf, 'a')
        prio = {'negate': 0, 'ifbody': 1, 'binop': 2, 'dropright': 3, 'dropleft': 4, 'delete': 5, 'bool': 6, 'int+1': 7, 'int-1': 8}
        rows.sort(key=lambda r: (prio.get(r[2], 9), int(r[0])))
        for n, line, op, st, detail in rows:
            if st != 'suitepass' or n in done:
                continue
            if op in ('int+1', 'int-1') and os.environ.get('MUT_SKIP_INT'):
                continue
            t0 = time.time()
            rc, out = sh([ROOT + '/bin/mutate', '-n', n, SRC + '/' + f])
            open(SCR + '/crepo/' + f, 'w').write(out)
            verdict, sigs = 'SURVIVED', []
            try:
                rc, o = sh([GO, 'test', '-c', '-vet=off', '-tags', 'verif', '-o', 'bin/vtest', './run'], cwd=v, timeout=600)
                if rc != 0:
                    verdict = 'nobuild-verif'
                else:
                    for ID in ORDER:
                        rc, viol, sg, o = run_check(v, 'bin/vtest', ID)
                        if viol or rc != 0:
                            verdict, sigs = ID + ('' if viol else '(rc=%d)' % rc), sg
                            break
                    if verdict == 'SURVIVED':
                        rc, o = sh("tools/mkoverlay.sh && %s test -c -vet=off -overlay .work/overlay.json -tags verif,vsync -o bin/vtest-x ./run" % GO, cwd=v, timeout=600)
                        if rc != 0:
                            verdict = 'nobuild-x'
                        else:
                            for ID in ORDER_X:
                                if ID == 'C20':
                                    rc, o = sh([GO, 'test', '-c', '-race', '-vet=off', '-tags', 'verif', '-o', 'bin/vtest-race', './run'], cwd=v, timeout=900)
                                rc, viol, sg, o = run_check(v, 'bin/vtest-x', ID)
                                if viol or rc != 0:
                                    verdict, sigs = ID + ('' if viol else '(rc=%d)' % rc), sg
                                    break
            finally:
                open(SCR + '/crepo/' + f, 'w').write(orig)
            fh.write('%s\t%s\t%s\t%s\t%s\t%.0fs\t%s\n' % (n, line, op, verdict, ','.join(sigs[:3]), time.time() - t0, detail))
            fh.flush()
        fh.close()
    shutil.rmtree(SCR + '/verif', ignore_errors=True)
    shutil.rmtree(SCR + '/crepo', ignore_errors=True)


def report():
    tot = {}
    for fn in sorted(os.listdir(OUT)):
        if fn.endswith('.result.tsv'):
            k = {'killed': 0, 'SURVIVED': 0}
            for l in open(OUT + '/' + fn):
                p = l.split('\t')
                if p[3] == 'SURVIVED':
                    k['SURVIVED'] += 1
                else:
                    k['killed'] += 1
            print(fn, k)


if __name__ == '__main__':
    if sys.argv[1] == 'filter':
        do_filter(sys.argv[2:])
    elif sys.argv[1] == 'check':
        do_check(sys.argv[2:])
    elif sys.argv[1] == 'recheck':
        do_check(sys.argv[2:], recheck=True)
    else:
        report()
