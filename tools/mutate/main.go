// Command mutate enumerates first-order mutants of one Go source file.
//
//	mutate -list  <file.go>            prints one line per mutant: <n> <line> <operator> <detail>
//	mutate -n <k> <file.go> > out.go   writes the k-th mutant (whole file, gofmt style)
//
// It is a development aid (tools/mutrun.sh): it shows which small changes of the library the checks report. It is
// NOT part of any check's verdict. Operators: relational/logical/arithmetic operator replacement, condition
// negation, statement deletion (calls, assignments, inc/dec, return/break/continue inside blocks), integer
// literal +-1, boolean literal flip, if-body removal.
package main

import (
	"flag"
	"fmt"
	"go/ast"
	"go/parser"
	"go/printer"
	"go/token"
	"os"
	"strconv"
)

type mutant struct {
	line   int
	op     string
	detail string
	apply  func()
}

func main() {
	list := flag.Bool("list", false, "list mutants")
	n := flag.Int("n", -1, "emit mutant n")
	flag.Parse()
	file := flag.Arg(0)
	fset := token.NewFileSet()
	f, err := parser.ParseFile(fset, file, nil, parser.ParseComments)
	if err != nil {
		fmt.Fprintln(os.Stderr, err)
		os.Exit(2)
	}
	var ms []mutant
	add := func(pos token.Pos, op, detail string, apply func()) {
		ms = append(ms, mutant{fset.Position(pos).Line, op, detail, apply})
	}
	swaps := map[token.Token][]token.Token{
		token.EQL: {token.NEQ}, token.NEQ: {token.EQL},
		token.LSS: {token.LEQ, token.GEQ}, token.LEQ: {token.LSS}, token.GTR: {token.GEQ, token.LEQ}, token.GEQ: {token.GTR},
		token.LAND: {token.LOR}, token.LOR: {token.LAND},
		token.ADD: {token.SUB}, token.SUB: {token.ADD},
	}
	var inFunc string
	ast.Inspect(f, func(nd ast.Node) bool {
		switch x := nd.(type) {
		case *ast.FuncDecl:
			inFunc = x.Name.Name
			if len(inFunc) >= 5 && inFunc[:5] == "Verif" {
				return false
			}
		case *ast.BinaryExpr:
			for _, t := range swaps[x.Op] {
				x, t, old := x, t, x.Op
				if old == token.ADD {
					// string concatenation: '-' does not compile; cheap to let the compiler say so
				}
				add(x.OpPos, "binop", fmt.Sprintf("%s: %s -> %s", inFunc, old, t), func() { x.Op = t })
			}
			// drop one side of && / ||
			if x.Op == token.LAND || x.Op == token.LOR {
				x := x
				add(x.OpPos, "dropleft", inFunc, func() { x.X = x.Y; x.Op = token.LAND; x.Y = &ast.Ident{Name: "true"} })
				add(x.OpPos, "dropright", inFunc, func() { x.Op = token.LAND; x.Y = &ast.Ident{Name: "true"} })
			}
		case *ast.IfStmt:
			x0 := x
			add(x.Cond.Pos(), "negate", inFunc, func() { x0.Cond = &ast.UnaryExpr{Op: token.NOT, X: &ast.ParenExpr{X: x0.Cond}} })
			if x.Else == nil && x.Init == nil {
				add(x.Pos(), "ifbody", inFunc+": body removed", func() { x0.Body = &ast.BlockStmt{} })
			}
		case *ast.BlockStmt:
			for i, st := range x.List {
				i, x := i, x
				del := false
				switch s := st.(type) {
				case *ast.ExprStmt:
					del = true
				case *ast.AssignStmt:
					del = s.Tok != token.DEFINE
				case *ast.IncDecStmt, *ast.DeferStmt, *ast.GoStmt:
					del = true
				case *ast.BranchStmt:
					del = true
				case *ast.ReturnStmt:
					del = i < len(x.List)-1 || len(s.Results) == 0
				}
				if del {
					add(st.Pos(), "delete", fmt.Sprintf("%s: %T", inFunc, st), func() { x.List[i] = &ast.EmptyStmt{Semicolon: x.List[i].Pos(), Implicit: false} })
				}
			}
		case *ast.CaseClause:
			for i, st := range x.Body {
				i, x := i, x
				switch st.(type) {
				case *ast.ExprStmt, *ast.IncDecStmt, *ast.BranchStmt:
					add(st.Pos(), "delete", fmt.Sprintf("%s: %T", inFunc, st), func() { x.Body[i] = &ast.EmptyStmt{Semicolon: x.Body[i].Pos()} })
				case *ast.AssignStmt:
					if st.(*ast.AssignStmt).Tok != token.DEFINE {
						add(st.Pos(), "delete", fmt.Sprintf("%s: %T", inFunc, st), func() { x.Body[i] = &ast.EmptyStmt{Semicolon: x.Body[i].Pos()} })
					}
				}
			}
		case *ast.BasicLit:
			if x.Kind == token.INT {
				if v, err := strconv.ParseInt(x.Value, 0, 64); err == nil {
					x := x
					add(x.Pos(), "int+1", fmt.Sprintf("%s: %d", inFunc, v), func() { x.Value = strconv.FormatInt(v+1, 10) })
					if v > 0 {
						add(x.Pos(), "int-1", fmt.Sprintf("%s: %d", inFunc, v), func() { x.Value = strconv.FormatInt(v-1, 10) })
					}
				}
			}
		case *ast.Ident:
			if x.Name == "true" || x.Name == "false" {
				x := x
				nv := map[string]string{"true": "false", "false": "true"}[x.Name]
				add(x.Pos(), "bool", fmt.Sprintf("%s: %s -> %s", inFunc, x.Name, nv), func() { x.Name = nv })
			}
		}
		return true
	})
	if *list {
		for i, m := range ms {
			fmt.Printf("%d %d %s %s\n", i, m.line, m.op, m.detail)
		}
		return
	}
	if *n < 0 || *n >= len(ms) {
		fmt.Fprintln(os.Stderr, "no such mutant")
		os.Exit(2)
	}
	ms[*n].apply()
	if err := printer.Fprint(os.Stdout, fset, f); err != nil {
		fmt.Fprintln(os.Stderr, err)
		os.Exit(2)
	}
}
