#!/bin/bash
# validates MANIFEST.json and every evidence file against the schemas
python3-vt - <<'PY'
import json,jsonschema,glob,sys
ok=True
try:
    jsonschema.validate(json.load(open('/verif/MANIFEST.json')),json.load(open('/root/.vp/MANIFEST.schema.json')))
except Exception as e:
    print("MANIFEST invalid:",e); ok=False
sch=json.load(open('/root/.vp/EVIDENCE.schema.json'))
for f in sorted(glob.glob('/verif/evidence/C*.json')):
    try:
        jsonschema.validate(json.load(open(f)),sch)
    except Exception as e:
        print(f,"invalid:",str(e)[:300]); ok=False
print("schemas ok" if ok else "SCHEMA PROBLEMS")
sys.exit(0 if ok else 1)
PY
