#!/usr/bin/env python3
"""tools/mutsummary.py > notes/mutation-summary.txt — numbers of the first-order mutation runs (development aid, see
DESIGN.md section 5.4) from .work/mut/*.tsv and notes/mutation-triage.tsv."""
import os, collections
OUT = '/verif/.work/mut'
tri = {}
for l in open('/verif/notes/mutation-triage.tsv'):
    if l.startswith('#') or not l.strip():
        continue
    p = l.rstrip('\n').split('\t')
    tri[(p[0], p[1])] = (p[2], p[3] if len(p) > 3 else '')
print("First-order mutation runs of the library against the quick checks (tools/mutate, tools/mutrun.py, tools/mutrecheck.py).")
print("Development aid only: no check's verdict depends on it. Scratch copies under /tmp; /repo untouched.")
print("Operators: relational/logical/arithmetic operator replacement, condition negation, drop one side of &&/||,")
print("statement deletion, if-body removal, integer literal +-1 (not run for conn.go/client.go/server.go), boolean flip.")
print("'suite passes' = the mutant builds and the repository's own 63 tests still pass (only those are run further).")
print("The first run of each file used the checks as they were at that time; 'recheck' rows are later runs of the")
print("survivors against newer checks (and, for conn.go, the library after fixes D29-D31), restricted to the checks")
print("responsible for the mutated function.")
print()
tot = collections.Counter()
for f in ['data.go', 'lengthlimit_reader.go', 'parse.go', 'conn.go', 'server.go', 'client.go']:
    fc = collections.Counter()
    for l in open(f'{OUT}/{f}.filter.tsv'):
        fc[l.rstrip('\n').split('\t')[3]] += 1
    rows = [l.rstrip('\n').split('\t') for l in open(f'{OUT}/{f}.result.tsv')] if os.path.exists(f'{OUT}/{f}.result.tsv') else []
    killed = collections.Counter(r[3].split('(')[0] for r in rows if r[3] != 'SURVIVED')
    surv = {r[0]: r for r in rows if r[3] == 'SURVIVED'}
    later = {}
    for suf in ['recheck', 'recheck2', 'recheck3']:
        pth = f'{OUT}/{f}.{suf}.tsv'
        if os.path.exists(pth):
            for l in open(pth):
                p = l.rstrip('\n').split('\t')
                if p[3] not in ('SURVIVED', 'UNMAPPED'):
                    later[p[0]] = p[3].split('(')[0]
    still = [n for n in surv if n not in later]
    cls = collections.Counter(tri.get((f, n), ('untriaged', ''))[0] for n in still)
    print(f"{f}: mutants {sum(fc.values())}: do not build {fc['nobuild']}, killed by the repository's suite {fc['suitefail']}, skipped (enhanced-code digits) {fc['skipped']}, suite passes {fc['suitepass']}")
    print(f"   run against the quick checks: {len(rows)} of {fc['suitepass']}" + ("" if len(rows) >= fc['suitepass'] - 0 else "  (run stopped early; operators in priority order negate, if-body, binop, drop side, delete, bool)"))
    print(f"   reported at once: {sum(killed.values())}  by " + ', '.join(f'{k} {v}' for k, v in sorted(killed.items())))
    print(f"   survivors of the first run: {len(surv)}; reported by a later run of newer checks: {len(later)} (" + ', '.join(f'{k} {v}' for k, v in sorted(collections.Counter(later.values()).items())) + ")")
    print(f"   still surviving: {len(still)}: " + ', '.join(f'{k} {v}' for k, v in sorted(cls.items())))
    tot['run'] += len(rows); tot['killed'] += sum(killed.values()) + len(later); tot['still'] += len(still)
    for k, v in cls.items():
        tot['cls:' + k] += v
    print()
print(f"all files: {tot['run']} suite-passing mutants run, {tot['killed']} reported by a check, {tot['still']} surviving: " + ', '.join(f"{k[4:]} {v}" for k, v in sorted(tot.items()) if k.startswith('cls:')))
print()
print("Classification of the survivors (notes/mutation-triage.tsv): 'equivalent' = no observable difference (redundant guard,")
print("capacity hint, unreachable default); 'outside' = observable, but in behaviour no listed property speaks about")
print("(SMTPError.Temporary, Conn.Reject, log texts, the exact enhanced code); 'unspecified' = boundary the property leaves open")
print("(a line of exactly limit+1 octets); 'closed' / 'killed-now' = a gap that was closed afterwards and the mutant re-run with")
print("tools/muttest.sh (the note names the family); 'untriaged' = not read.")
