#!/bin/bash
# tools/seedwave.sh <dir> <ID> [<extra check IDs>...]   process every patch<k>.diff of <dir>/<ID>/_seed with tools/seedscratch.sh
# (own property's check first, then the extra ones); result lines go to <dir>/<ID>.result
D="$1"; ID="$2"; shift 2
: > "$D/$ID.result"
for P in "$D/$ID"/_seed/patch*.diff; do
  k=$(basename "$P" .diff); k=${k#patch}
  echo "===== $ID seed $k" >> "$D/$ID.result"
  "$(dirname "$0")/seedscratch.sh" "$D/$ID/_seed" "$k" "$ID" "$ID" "$@" >> "$D/$ID.result" 2>&1
done
echo "done $ID" >> "$D/$ID.result"
