#!/bin/bash
# tools/seedregress.sh [<seed-id>...]   re-run every kept seeded change against the quick check of ITS OWN property
# (plus any further checks named in meta.json's caught_by) and report the ones that are no longer reported.
# Applies each patch to /repo temporarily (tools/seedcheck.sh restores it). Output: one line per seed.
cd "$(dirname "$0")/.." || exit 2
ids=("$@"); [ ${#ids[@]} -eq 0 ] && ids=($(ls seeded | grep -E '^C[0-9]+-[0-9]+$' | sort -V))
miss=0
for sid in "${ids[@]}"; do
  prop=$(jq -r .property seeded/$sid/meta.json)
  own=$(jq -r .caught_by seeded/$sid/meta.json | grep -o 'C[0-9][0-9]' | sort -u | tr '\n' ' ')
  case " $own " in *" $prop "*) ;; *) echo "NOTE  $sid: its own check $prop is not claimed to catch it (caught by: $own)";; esac
  first=$(echo $own | cut -d' ' -f1); case " $own " in *" $prop "*) first=$prop;; esac
  if [ -z "$first" ]; then echo "KNOWNMISS $sid: kept as a change no check reports (see its meta.json)"; continue; fi
  out=$(tools/seedcheck.sh seeded/$sid/patch.diff $first 2>&1)
  if echo "$out" | grep -q "does not apply"; then echo "STALE $sid: patch does not apply"; miss=$((miss+1)); continue; fi
  if echo "$out" | grep -q "SUITE: FAILS"; then echo "SUITE $sid: repository suite fails with the change"; fi
  line=$(echo "$out" | grep "^CHECK $first")
  if echo "$line" | grep -q "rc=1"; then echo "OK    $sid: $line"; else echo "MISS  $sid: $line"; miss=$((miss+1)); fi
done
echo "seedregress: $miss of ${#ids[@]} not reported"
