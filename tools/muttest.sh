#!/bin/bash
# tools/muttest.sh <file.go> <mutant-number> <ID>...   run quick checks against one first-order mutant of /repo/<file.go>
# (tools/mutate) via tools/seedcheck.sh, which restores /repo and the evidence directory afterwards.
cd "$(dirname "$0")/.." || exit 2
F="$1"; N="$2"; shift 2
T=$(mktemp -d /tmp/muttest.XXXXXX)
mkdir -p "$T/a" "$T/b"
gofmt < "/repo/$F" > "$T/a/$F"; bin/mutate -n "$N" "/repo/$F" | gofmt > "$T/b/$F"
# the mutant is printed by go/printer: apply only the semantic difference, on top of a gofmt'ed original
cp "/repo/$F" "$T/orig"; cp "$T/b/$F" "$T/new"
(cd "$T" && diff -u "a/$F" "b/$F" > mut.diff)
if ! cmp -s "$T/a/$F" "/repo/$F"; then echo "muttest: /repo/$F is not gofmt-clean, writing the mutant whole"; fi
(cd /repo && git apply --check "$T/mut.diff" 2>/dev/null) || { echo "muttest: patch does not apply"; rm -rf "$T"; exit 2; }
echo "mutant $N of $F: $(grep -E '^[-+][^-+]' "$T/mut.diff" | head -4 | tr '\n' ' ' | cut -c1-200)"
tools/seedcheck.sh "$T/mut.diff" "$@" | grep -E "^(CHECK|SUITE: FAILS|seedcheck)"
rm -rf "$T"
