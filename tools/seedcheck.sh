#!/bin/bash
# tools/seedcheck.sh <patch.diff> <ID> [<ID>...]
# Applies a seeded change to /repo, runs the repository's own suite and the quick checks named,
# prints one line per check, and ALWAYS restores /repo's working tree afterwards.
# Never commits anything in /repo.
P="$(readlink -f "$1")"; shift
cd "$(dirname "$0")/.." || exit 2
export GOFLAGS=-mod=mod GOPROXY=off GOSUMDB=off GOTOOLCHAIN=local
if [ -n "$(git -C /repo status --porcelain)" ]; then echo "seedcheck: /repo is not clean"; exit 2; fi
# the evidence directory belongs to the unchanged tree: keep it aside while the changed tree is checked
EVB=$(mktemp -d /tmp/evidence-backup.XXXXXX); cp -a evidence/. "$EVB"/
trap 'git -C /repo checkout -- . >/dev/null 2>&1; rm -rf evidence; mkdir -p evidence; cp -a "$EVB"/. evidence/; rm -rf "$EVB"' EXIT
git -C /repo apply "$P" || { echo "seedcheck: patch does not apply"; exit 2; }
if (cd /repo && go build ./... && go test -vet=off -count=1 ./... >/tmp/seed-suite.log 2>&1); then echo "SUITE: passes with the change"; else echo "SUITE: FAILS with the change (not an acceptable seed)"; tail -5 /tmp/seed-suite.log; fi
for ID in "$@"; do
  out=$(./check "$ID" quick 2>&1); rc=$?
  v=$(echo "$out" | grep -c '^VIOLATION')
  sigs=$(echo "$out" | grep -o 'sig=[^ ]*' | sort | uniq -c | tr '\n' ';')
  echo "CHECK $ID rc=$rc violation_lines=$v $sigs"
  echo "$out" | grep -E '^C[0-9]+\[' | tail -1
done
