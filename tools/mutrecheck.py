#!/usr/bin/env python3
"""tools/mutrecheck.py <file.go> — re-run the survivors of an earlier tools/mutrun.py run against the CURRENT checks and
the CURRENT library (development aid). The old mutant is found again in the current source by operator, detail and
the text of its line; only the checks that are responsible for the mutated function are run (map below).
Scratch under /tmp/mut4; /repo and /verif/evidence untouched. Result: .work/mut/<file>.recheck2.tsv"""
import os, sys, subprocess, shutil, collections
sys.path.insert(0, os.path.dirname(__file__))
os.environ['MUT_SCR'] = '/tmp/mut4'
import mutrun as M
M.SRC = '/tmp/mut4/src'
OLD = '/tmp/mut/src'

FUNC2CHECKS = [
    (('handleMail', 'handleRcpt', 'decode', 'encode', 'isPrintableASCII', 'checkNotifySet'), ['C11', 'C14', 'C15']),
    (('readLine',), ['C19', 'C04', 'C02']),
    (('handleBdat', 'abortBdat', 'reset', 'Close', 'handleData'), ['C05', 'C08', 'C19', 'C07', 'C03', 'C13']),
    (('handlePanic', 'SetStatus', 'fillRemaining'), ['C08', 'C13', 'C04']),
    (('writeResponse',), ['C17', 'C04']),
]

def checks_for(detail):
    if os.environ.get('MUT_CHECKS'):
        return os.environ['MUT_CHECKS'].split()
    fn = detail.split(':')[0].strip()
    for keys, cs in FUNC2CHECKS:
        if any(fn.startswith(k) for k in keys):
            return cs
    return ['C03', 'C04', 'C08']

def listing(path):
    rc, out = M.sh([M.ROOT + '/bin/mutate', '-list', path])
    res = []
    for l in out.splitlines():
        n, line, op, detail = (l.split(' ', 3) + [''])[:4]
        res.append((int(n), int(line), op, detail))
    return res

def main(f):
    os.makedirs('/tmp/mut4', exist_ok=True)
    if not os.path.isdir(M.SRC):
        os.makedirs(M.SRC)
        M.sh("git -C /repo archive HEAD | tar -x -C %s" % M.SRC)
    old_src = open(OLD + '/' + f).read().splitlines()
    new_src = open(M.SRC + '/' + f).read().splitlines()
    old = {m[0]: m for m in listing(OLD + '/' + f)}
    new = listing(M.SRC + '/' + f)
    # key: (op, detail, stripped line text) -> list of indices in order
    def keyed(ms, src):
        d = collections.defaultdict(list)
        for n, line, op, detail in ms:
            d[(op, detail, src[line - 1].strip())].append(n)
        return d
    ko, kn = keyed(old.values(), old_src), keyed(new, new_src)
    tri = set()
    for l in open(M.ROOT + '/notes/mutation-triage.tsv'):
        p = l.rstrip('\n').split('\t')
        if len(p) > 2 and not l.startswith('#'):
            tri.add((p[0], p[1]))
    surv = [l.rstrip('\n').split('\t') for l in open('%s/%s.result.tsv' % (M.OUT, f))]
    surv = [p for p in surv if p[3] == 'SURVIVED' and (f, p[0]) not in tri]
    only = os.environ.get('MUT_ONLY')
    if only:
        surv = [p for p in surv if p[0] in only.split(',')]
    v = M.setup_check()
    orig = open(M.SRC + '/' + f).read()
    resf = '%s/%s.%s.tsv' % (M.OUT, f, os.environ.get('MUT_OUT', 'recheck2'))
    done = set(l.split('\t')[0] for l in open(resf)) if os.path.exists(resf) else set()
    fh = open(resf, 'a')
    for p in surv:
        n = int(p[0])
        if p[0] in done:
            continue
        _, line, op, detail = old[n]
        k = (op, detail, old_src[line - 1].strip())
        pos = ko[k].index(n)
        if k not in kn or len(kn[k]) != len(ko[k]):
            fh.write('%d\t%d\t%s\tUNMAPPED\t\t%s\n' % (n, line, op, detail)); fh.flush(); continue
        nn = kn[k][pos]
        rc, out = M.sh([M.ROOT + '/bin/mutate', '-n', str(nn), M.SRC + '/' + f])
        open('/tmp/mut4/crepo/' + f, 'w').write(out)
        verdict, sigs = 'SURVIVED', []
        try:
            rc, o = M.sh([M.GO, 'test', '-c', '-vet=off', '-tags', 'verif', '-o', 'bin/vtest', './run'], cwd=v, timeout=600)
            cs = checks_for(detail)
            if rc != 0:
                verdict = 'nobuild-verif'
            else:
                needx = [c for c in cs if c in M.ORDER_X]
                for ID in [c for c in cs if c not in M.ORDER_X]:
                    rc, viol, sg, o = M.run_check(v, 'bin/vtest', ID)
                    if viol or rc != 0:
                        verdict, sigs = ID + ('' if viol else '(rc=%d)' % rc), sg
                        break
                if verdict == 'SURVIVED' and needx:
                    rc, o = M.sh("tools/mkoverlay.sh && %s test -c -vet=off -overlay .work/overlay.json -tags verif,vsync -o bin/vtest-x ./run" % M.GO, cwd=v, timeout=600)
                    for ID in needx:
                        if ID == 'C20':
                            continue
                        rc, viol, sg, o = M.run_check(v, 'bin/vtest-x', ID)
                        if viol or rc != 0:
                            verdict, sigs = ID + ('' if viol else '(rc=%d)' % rc), sg
                            break
        finally:
            open('/tmp/mut4/crepo/' + f, 'w').write(orig)
        fh.write('%d\t%d\t%s\t%s\t%s\t%s\t[%s]\n' % (n, line, op, verdict, ','.join(sigs[:3]), detail, ' '.join(checks_for(detail))))
        fh.flush()
    fh.close()

if __name__ == '__main__':
    main(sys.argv[1])
