#!/bin/bash
# tools/seedscratch.sh <seeddir> <k> <PROP> <ID>...   like seedverify.sh + seedcheck.sh for <seeddir>/patch<k>.diff, but entirely in a
# scratch copy (/tmp/ssc.XXXX/{repo,verif}: `git archive HEAD` of /repo plus the patch; a copy of /verif whose go.mod points at it),
# so that several seeded changes can be processed at the same time and neither /repo nor /verif/evidence is touched.
# Prints: VERIFY lines (demo passes without / suite passes with / demo fails with) and one CHECK line per check named.
D="$(readlink -f "$1")"; K="$2"; PROP="$3"; shift 3
export GOFLAGS=-mod=mod GOPROXY=off GOSUMDB=off GOTOOLCHAIN=local
S=$(mktemp -d /tmp/ssc.XXXXXX)
trap 'rm -rf "$S"' EXIT
mkdir -p "$S/repo" "$S/verif"
git -C /repo archive HEAD | tar -x -C "$S/repo"
T="TestSeed${PROP}Demo$K"
cd "$S/repo" || exit 2
cp "$D/demo$K"_test.go ./zz_seed_demo_test.go
if timeout 300 go test -vet=off -count=1 -run "$T" . >"$S/clean.log" 2>&1; then echo "VERIFY demo passes WITHOUT the change: yes"; else echo "VERIFY demo passes WITHOUT the change: NO"; tail -5 "$S/clean.log"; fi
rm zz_seed_demo_test.go
git apply "$D/patch$K.diff" 2>/dev/null || patch -p1 -s < "$D/patch$K.diff" || { echo "VERIFY patch does not apply"; exit 1; }
if go build ./... && timeout 600 go test -vet=off -count=1 ./... >"$S/suite.log" 2>&1; then echo "VERIFY suite passes WITH the change: yes"; else echo "VERIFY suite passes WITH the change: NO"; tail -5 "$S/suite.log"; fi
cp "$D/demo$K"_test.go ./zz_seed_demo_test.go
if timeout 300 go test -vet=off -count=1 -run "$T" . >"$S/mut.log" 2>&1; then echo "VERIFY demo fails WITH the change: NO (it passes)"; else echo "VERIFY demo fails WITH the change: yes"; fi
rm zz_seed_demo_test.go
rsync -a --exclude .git --exclude evidence --exclude bin --exclude .work --exclude seeded --exclude notes /verif/ "$S/verif/"
cd "$S/verif" || exit 2
sed -i "s|=> /repo|=> $S/repo|" go.mod
sed -i "s|/repo/|$S/repo/|g" tools/mkoverlay.sh
mkdir -p evidence/replays bin .work/parts
for ID in "$@"; do
  out=$(./check "$ID" quick 2>&1); rc=$?
  v=$(echo "$out" | grep -c '^VIOLATION')
  sigs=$(echo "$out" | grep -o 'sig=[^ ]*' | sort | uniq -c | head -4 | tr '\n' ';')
  echo "CHECK $ID rc=$rc violation_lines=$v $sigs $(echo "$out" | grep -E 'BUILD FAILED' | head -1)"
done
