#!/usr/bin/env python3
"""Regenerates /verif/seeded/README.md from the meta.json files."""
import json, os, glob
rows = []
for d in sorted(glob.glob('/verif/seeded/*/')):
    m = os.path.join(d, 'meta.json')
    if os.path.exists(m):
        rows.append((os.path.basename(d.rstrip('/')), json.load(open(m))))
out = ["# Seeded changes", "",
 "Each directory holds one confirmed property-breaking change written by an independent sub-agent that was given",
 "only the text of one property and a scratch worktree of the library (nothing from /verif):",
 "`patch.diff` (applies to /repo's HEAD at the time), `demo_test.go.txt` (the agent's demonstration: fails with the",
 "change, passes without; stored as .txt so that it is not compiled here), `notes.md`, `meta.json`.",
 "All were confirmed with `tools/seedverify.sh` in a fresh scratch worktree (the repository's suite passes with the",
 "change, the demonstration fails with it and passes without it) and run against the checks with",
 "`tools/seedcheck.sh` (applies the patch to /repo, runs `./check <ID> quick`, restores /repo and the evidence).",
 "",
 "`missed at first` means the check of the seeded property did not report the change when it was first tried; the",
 "column says what was strengthened. After strengthening every change below is reported on every run.",
 "",
 "| seed | property | needs in order to manifest | caught by (quick tier) | missed at first → strengthening |",
 "|---|---|---|---|---|"]
missed = 0
for sid, m in rows:
    s = m.get('strengthening', '')
    if s:
        missed += 1
    out.append("| %s | %s | %s | %s | %s |" % (sid, m['property'], m['needs_to_manifest'].replace('|', '\\|'), m['caught_by'].replace('|', '\\|'), s.replace('|', '\\|') or "–"))
out += ["", "%d seeded changes, %d of them missed by the check of their own property when first tried (several of those were" % (len(rows), missed),
        "already reported by the check of a neighbouring property)."]
open('/verif/seeded/README.md', 'w').write("\n".join(out) + "\n")
print(len(rows), "seeds,", missed, "missed at first")
