#!/bin/bash
# tools/seedregress-par.sh <workers> [<seed-id>...]   the seed regression of tools/seedregress.sh, run by several workers in
# scratch copies (/tmp/sr/w<k>/{repo,verif}: `git archive HEAD` of /repo plus the patch; a copy of /verif whose go.mod
# points at it) so that /repo and /verif/evidence are not touched. One line per seed: OK / MISS / STALE / SUITE.
# The repository's suite is NOT re-run here (tools/seedverify.sh did that when the seed was kept) unless SUITE=1.
W="$1"; shift
cd "$(dirname "$0")/.." || exit 2
export GOFLAGS=-mod=mod GOPROXY=off GOSUMDB=off GOTOOLCHAIN=local
ids=("$@"); [ ${#ids[@]} -eq 0 ] && ids=($(ls seeded | grep -E '^C[0-9]+-[0-9]+$' | sort -V))
rm -rf /tmp/sr; mkdir -p /tmp/sr
worker() {
  k=$1; S=/tmp/sr/w$k; mkdir -p $S/verif $S/repo
  rsync -a --exclude .git --exclude evidence --exclude bin --exclude .work --exclude seeded --exclude notes /verif/ "$S/verif/"
  (cd $S/verif && sed -i "s|=> /repo|=> $S/repo|" go.mod && sed -i "s|/repo/|$S/repo/|g" tools/mkoverlay.sh && mkdir -p evidence/replays bin .work/parts)
  i=0
  for sid in "${ids[@]}"; do
    i=$((i+1)); [ $((i % W)) -eq $((k % W)) ] || continue
    prop=$(jq -r .property seeded/$sid/meta.json)
    own=$(jq -r .caught_by seeded/$sid/meta.json | grep -o 'C[0-9][0-9]' | sort -u | tr '\n' ' ')
    first=$(echo $own | cut -d' ' -f1); case " $own " in *" $prop "*) first=$prop;; esac
    if [ -z "$first" ]; then echo "KNOWNMISS $sid: kept as a change no check reports (see its meta.json)"; continue; fi
    rm -rf $S/repo; mkdir -p $S/repo; git -C /repo archive HEAD | tar -x -C $S/repo
    if ! (cd $S/repo && git apply /verif/seeded/$sid/patch.diff 2>/dev/null); then echo "STALE $sid: patch does not apply"; continue; fi
    if [ -n "$SUITE" ]; then (cd $S/repo && go build ./... && go test -vet=off -count=1 ./... >/dev/null 2>&1) || echo "SUITE $sid: repository suite fails with the change"; fi
    out=$(cd $S/verif && rm -rf evidence/replays/* && ./check "$first" quick 2>&1); rc=$?
    sigs=$(echo "$out" | grep -o 'sig=[^ ]*' | sort | uniq -c | head -3 | tr '\n' ';')
    if [ $rc -eq 1 ] && echo "$out" | grep -q '^VIOLATION'; then echo "OK    $sid: $first rc=$rc $sigs"; else echo "MISS  $sid: $first rc=$rc $(echo "$out" | grep -E 'BUILD|panic' | head -2)"; fi
  done
}
for k in $(seq 1 $W); do worker $k & done
wait
rm -rf /tmp/sr
echo "seedregress-par: done (${#ids[@]} seeds)"
