#!/usr/bin/env python3
"""tools/seedkeep.py <srcdir> <k> <seed-id> <property> <needs> <caught-by> [<strengthened>]
Copies a confirmed seeded change into /verif/seeded/<seed-id>/ with its meta.json."""
import sys, os, shutil, json
src, k, sid, prop, needs, caught = sys.argv[1:7]
strengthened = sys.argv[7] if len(sys.argv) > 7 else ""
d = os.path.join('/verif/seeded', sid)
os.makedirs(d, exist_ok=True)
shutil.copy(os.path.join(src, 'patch%s.diff' % k), os.path.join(d, 'patch.diff'))
shutil.copy(os.path.join(src, 'demo%s_test.go' % k), os.path.join(d, 'demo_test.go.txt'))
notes = os.path.join(src, 'notes%s.md' % k)
if os.path.exists(notes):
    shutil.copy(notes, os.path.join(d, 'notes.md'))
meta = {
 "property": prop,
 "source": "independent sub-agent given only the property text and a scratch worktree",
 "needs_to_manifest": needs,
 "confirmed": {"suite_passes_with_change": True, "demo_fails_with_change": True, "demo_passes_without_change": True,
               "how": "tools/seedverify.sh in a fresh scratch worktree of /repo"},
 "checks_run": "tools/seedcheck.sh seeded/%s/patch.diff <IDs> (applies to /repo, runs ./check <ID> quick, restores /repo)" % sid,
 "caught_by": caught,
 "strengthening": strengthened,
}
json.dump(meta, open(os.path.join(d, 'meta.json'), 'w'), indent=1)
print("kept", d)
