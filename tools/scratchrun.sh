#!/bin/bash
# tools/scratchrun.sh <scratch-dir> <tier> <ID>...   run checks in a scratch copy of /verif against a scratch copy of
# /repo's working tree (so that long runs do not collide with work going on in /verif and /repo). Development aid.
S="$1"; TIER="$2"; shift 2
rm -rf "$S"; mkdir -p "$S/verif" "$S/repo"
# the committed HEAD of /repo (not its working tree, which a seed regression may be patching at this moment)
git -C /repo archive HEAD | tar -x -C "$S/repo"
rsync -a --exclude .git --exclude evidence --exclude bin --exclude .work --exclude seeded --exclude notes /verif/ "$S/verif/"
cd "$S/verif" || exit 2
sed -i "s|=> /repo|=> $S/repo|" go.mod
sed -i "s|/repo/|$S/repo/|g" tools/mkoverlay.sh
mkdir -p evidence/replays bin .work/parts
for ID in "$@"; do
  /usr/bin/time -f "$ID $TIER wall=%es maxrss=%MKB" ./check "$ID" "$TIER" 2>&1 | grep -E "^C[0-9]+\[|^VIOLATION|^KNOWN|wall=|BUILD|panic|  sig=" | cut -c1-300
done
