// vcheck runs one property check (engines S and D) or replays a case.
package main

import (
	"flag"
	"fmt"
	"os"
	"runtime/debug"
	"strings"

	"verif/checks"
	"verif/h"
)

func main() {
	prop := flag.String("prop", "", "property id (C01..C20)")
	tier := flag.String("tier", "quick", "quick|thorough")
	replay := flag.String("replay", "", "replay file")
	merge := flag.String("merge", "", "merge part files for the property: comma separated part names")
	flag.Parse()
	if os.Getenv("GOGC") == "" {
		debug.SetGCPercent(800) // short-lived garbage dominates; the default setting spends most of the time in GC
	}
	if *replay != "" {
		os.Exit(h.ReplayFile(*replay))
	}
	if *merge != "" {
		if err := h.MergeParts(*prop, strings.Split(*merge, ",")); err != nil {
			fmt.Fprintln(os.Stderr, "merge:", err)
			os.Exit(2)
		}
		return
	}
	f := checks.All[*prop]
	if f == nil {
		fmt.Fprintf(os.Stderr, "no check for %q\n", *prop)
		os.Exit(2)
	}
	os.Exit(f(*tier))
}
