package h

import (
	"errors"
	"fmt"
	"io"
	"net"
	"os"
	"sync"
	"time"
)

// Terminal answers of a ScriptConn once its script is exhausted.
const (
	TermEOF     = "eof"     // peer closed the connection
	TermTimeout = "timeout" // read deadline exceeded (net.Error, Timeout()==true)
	TermReset   = "reset"   // some other I/O error
)

type timeoutErr struct{}

func (timeoutErr) Error() string   { return "i/o timeout (scripted)" }
func (timeoutErr) Timeout() bool   { return true }
func (timeoutErr) Temporary() bool { return true }

var ErrScriptReset = errors.New("connection reset by peer (scripted)")

// deadlineErr is what a real connection (a socket, net.Pipe) returns when a deadline passes: a *net.OpError that
// wraps os.ErrDeadlineExceeded (Timeout() == true). Code that looks at the error's type sees what it would see in
// production.
func deadlineErr(op string) error {
	return &net.OpError{Op: op, Net: "script", Source: addr("server"), Addr: addr("client"), Err: os.ErrDeadlineExceeded}
}

func termErr(t string) error {
	switch t {
	case TermTimeout:
		return deadlineErr("read")
	case TermReset:
		return &net.OpError{Op: "read", Net: "script", Source: addr("server"), Addr: addr("client"), Err: ErrScriptReset}
	}
	return io.EOF
}

// WriteRec is one Write call of the server, with the number of input octets
// the server had taken from the connection at that moment.
type WriteRec struct {
	Consumed int
	Data     []byte
}

type addr string

func (a addr) Network() string { return "script" }
func (a addr) String() string  { return string(a) }

// ScriptConn is a net.Conn whose Read answers are a script: the segments in
// order (each cut to the size of the caller's buffer), then the terminal
// answer forever.
type ScriptConn struct {
	mu       sync.Mutex
	segs     [][]byte
	idx, off int
	term     error
	Consumed int
	Writes   []WriteRec
	Closed   bool
	// ReadsAfterClose counts Read calls made after Close.
	ReadsAfterClose int
	// OnExhausted is called (once) from inside Read when the script is
	// exhausted, before the terminal answer is returned.
	OnExhausted func()
	exhausted   bool
	// TakenAtClose is the number of octets consumed when Close was called.
	TakenAtClose int
	// RequireDeadlines: the server is configured with Read/WriteTimeout; every Read and Write must then
	// happen under a deadline that is set and not already past (time is the bubble's virtual clock).
	RequireDeadlines bool
	Pause            time.Duration // virtual time the peer lets pass before each segment
	readDL, writeDL  time.Time
	DeadlineAnomaly  string
	TimedOutReads    int // Reads that returned a timeout because the armed deadline passed during a pause
	TimedOutWrites   int // Writes refused because the armed write deadline had passed
	// FinalWithErr: the last octets of the script are returned TOGETHER with the terminal answer (n > 0 and err != nil
	// from one Read), as crypto/tls does when a close_notify record is waiting behind application data
	FinalWithErr bool
	// LongPauseBefore (1-based segment number, 0: none): the peer stays silent for LongPause before that segment - once;
	// if that outlasts the armed read deadline the Read times out and the segment arrives with the next Read
	LongPauseBefore int
	LongPause       time.Duration
	pausedAt        int
}

func NewScriptConn(segs [][]byte, term string) *ScriptConn {
	return &ScriptConn{segs: segs, term: termErr(term)}
}

func (c *ScriptConn) Read(b []byte) (int, error) {
	c.mu.Lock()
	if c.RequireDeadlines && !c.Closed && c.DeadlineAnomaly == "" && (c.readDL.IsZero() || c.readDL.Before(time.Now())) {
		c.DeadlineAnomaly = fmt.Sprintf("Read after %d input octets without a live read deadline although ReadTimeout is configured (deadline: %v)", c.Consumed, c.readDL)
	}
	if c.Closed {
		c.ReadsAfterClose++
		c.mu.Unlock()
		return 0, net.ErrClosed
	}
	if !c.RequireDeadlines && !c.readDL.IsZero() && !time.Now().Before(c.readDL) {
		// the armed read deadline has passed already (virtual clock): like the runtime's poller, fail at once -
		// whether or not data has arrived meanwhile
		c.TimedOutReads++
		c.mu.Unlock()
		return 0, deadlineErr("read")
	}
	for c.idx < len(c.segs) && c.off >= len(c.segs[c.idx]) {
		c.idx++
		c.off = 0
	}
	if c.idx >= len(c.segs) {
		first := !c.exhausted
		c.exhausted = true
		cb := c.OnExhausted
		c.mu.Unlock()
		if first && cb != nil {
			cb()
		}
		return 0, c.term
	}
	pause := c.Pause
	if c.LongPauseBefore > 0 && c.idx == c.LongPauseBefore-1 {
		pause = c.LongPause
	}
	if pause > 0 && c.off == 0 && !(c.pausedAt == c.idx+1) {
		// the peer takes its time before it sends the next segment (virtual clock). Like a real connection, a
		// Read that is still waiting when its deadline passes returns a timeout error.
		dl := c.readDL
		c.mu.Unlock()
		if !dl.IsZero() && dl.Before(time.Now().Add(pause)) && !c.RequireDeadlines {
			if d := time.Until(dl); d > 0 {
				time.Sleep(d)
			}
			c.mu.Lock()
			c.TimedOutReads++
			if c.LongPauseBefore > 0 {
				c.pausedAt = c.idx + 1 // the one long pause is over: the segment is there for the next Read
			}
			c.mu.Unlock()
			return 0, deadlineErr("read")
		}
		time.Sleep(pause)
		c.mu.Lock()
		if c.RequireDeadlines && c.DeadlineAnomaly == "" && (c.readDL.IsZero() || c.readDL.Before(time.Now())) {
			c.DeadlineAnomaly = fmt.Sprintf("after a pause of %s before segment %d the read deadline (%v) had not been renewed: with ReadTimeout configured every wait for a command must be armed afresh", pause, c.idx, c.readDL)
		}
	}
	n := copy(b, c.segs[c.idx][c.off:])
	c.off += n
	c.Consumed += n
	if c.FinalWithErr && c.idx == len(c.segs)-1 && c.off >= len(c.segs[c.idx]) {
		first := !c.exhausted
		c.exhausted = true
		term, cb := c.term, c.OnExhausted
		c.mu.Unlock()
		if first && cb != nil {
			cb()
		}
		return n, term
	}
	c.mu.Unlock()
	return n, nil
}

func (c *ScriptConn) Write(b []byte) (int, error) {
	c.mu.Lock()
	defer c.mu.Unlock()
	if c.RequireDeadlines && !c.Closed && c.DeadlineAnomaly == "" && (c.writeDL.IsZero() || c.writeDL.Before(time.Now())) {
		c.DeadlineAnomaly = fmt.Sprintf("Write of %q without a live write deadline although WriteTimeout is configured", b)
	}
	if c.Closed {
		return 0, net.ErrClosed
	}
	if !c.RequireDeadlines && !c.writeDL.IsZero() && !time.Now().Before(c.writeDL) {
		// the armed write deadline has passed (virtual clock): the Write fails, as on a real connection
		c.TimedOutWrites++
		return 0, deadlineErr("write")
	}
	c.Writes = append(c.Writes, WriteRec{Consumed: c.Consumed, Data: append([]byte(nil), b...)})
	return len(b), nil
}

func (c *ScriptConn) Close() error {
	c.mu.Lock()
	defer c.mu.Unlock()
	if c.Closed {
		return net.ErrClosed
	}
	c.Closed = true
	c.TakenAtClose = c.Consumed
	return nil
}

// Wire returns everything the server wrote.
func (c *ScriptConn) Wire() []byte {
	c.mu.Lock()
	defer c.mu.Unlock()
	var out []byte
	for _, w := range c.Writes {
		out = append(out, w.Data...)
	}
	return out
}

func (c *ScriptConn) LocalAddr() net.Addr  { return addr("server") }
func (c *ScriptConn) RemoteAddr() net.Addr { return addr("client") }
func (c *ScriptConn) SetDeadline(t time.Time) error {
	c.mu.Lock()
	c.readDL, c.writeDL = t, t
	c.mu.Unlock()
	return nil
}
func (c *ScriptConn) SetReadDeadline(t time.Time) error {
	c.mu.Lock()
	c.readDL = t
	c.mu.Unlock()
	return nil
}
func (c *ScriptConn) SetWriteDeadline(t time.Time) error {
	c.mu.Lock()
	c.writeDL = t
	c.mu.Unlock()
	return nil
}

// Segmentations ---------------------------------------------------------

// OneSeg returns the whole stream as one segment.
func OneSeg(s []byte) [][]byte { return [][]byte{s} }

// PerOctet returns one segment per octet.
func PerOctet(s []byte) [][]byte {
	out := make([][]byte, len(s))
	for i := range s {
		out[i] = s[i : i+1]
	}
	return out
}

// SplitAt cuts s at the given ascending offsets.
func SplitAt(s []byte, at ...int) [][]byte {
	var out [][]byte
	prev := 0
	for _, a := range at {
		if a <= prev || a >= len(s) {
			continue
		}
		out = append(out, s[prev:a])
		prev = a
	}
	out = append(out, s[prev:])
	return out
}

// SegMask cuts s after octet i whenever bit i of mask is set (i < len(s)-1).
func SegMask(s []byte, mask uint64) [][]byte {
	var out [][]byte
	prev := 0
	for i := 0; i < len(s)-1 && i < 64; i++ {
		if mask&(1<<uint(i)) != 0 {
			out = append(out, s[prev:i+1])
			prev = i + 1
		}
	}
	out = append(out, s[prev:])
	return out
}
