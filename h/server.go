package h

import (
	"bytes"
	"fmt"
	"io"
	"strings"
	"sync"
	"time"

	smtp "github.com/emersion/go-smtp"
	"verif/ref"
)

// Config is the part of the server configuration the checks vary.
type Config struct {
	LMTP              bool  `json:"lmtp,omitempty"`
	MaxRecipients     int   `json:"max_rcpt,omitempty"`
	MaxMessageBytes   int64 `json:"max_bytes,omitempty"`
	MaxLineLength     int   `json:"max_line,omitempty"` // 0 means the default (2000)
	AllowInsecureAuth bool  `json:"insecure_auth,omitempty"`
	UTF8              bool  `json:"utf8,omitempty"`
	RequireTLS        bool  `json:"requiretls,omitempty"`
	BinaryMIME        bool  `json:"binarymime,omitempty"`
	DSN               bool  `json:"dsn,omitempty"`
	RRVS              bool  `json:"rrvs,omitempty"`
	TLSAvailable      bool  `json:"tls,omitempty"`        // Server.TLSConfig set
	Timeouts          bool  `json:"timeouts,omitempty"`   // ReadTimeout and WriteTimeout set (1 minute)
	PeerPause         bool  `json:"peer_pause,omitempty"` // the scripted peer waits 40 s (virtual) before every segment
	// ReadTO / WriteTO: Server.ReadTimeout / WriteTimeout individually (0: not set); with these the scripted
	// connection honours the armed read deadline like a real one (a wait that outlasts it ends in a timeout)
	// FinalWithErr: the scripted connection returns its last octets together with the terminal answer (one Read)
	FinalWithErr bool `json:"final_with_err,omitempty"`
	// Debug: Server.Debug is set (a writer that receives a copy of the traffic)
	Debug bool `json:"debug,omitempty"`
	// LongPauseBefore: the scripted peer is silent for 5 minutes before that segment (1-based; 0: never)
	LongPauseBefore int           `json:"long_pause_before,omitempty"`
	ReadTO          time.Duration `json:"read_to,omitempty"`
	WriteTO         time.Duration `json:"write_to,omitempty"`
}

// LogBuf is a concurrency-safe smtp.Logger.
type LogBuf struct {
	mu sync.Mutex
	b  bytes.Buffer
	// Gate, if set, is called at the beginning of every Printf/Println (engine X makes it a scheduling point: the
	// application's logger is application code that may take its time)
	Gate func()
}

func (l *LogBuf) Printf(format string, v ...interface{}) {
	if l.Gate != nil {
		l.Gate()
	}
	l.mu.Lock()
	fmt.Fprintf(&l.b, format, v...)
	l.b.WriteByte('\n')
	l.mu.Unlock()
}
func (l *LogBuf) Println(v ...interface{}) {
	if l.Gate != nil {
		l.Gate()
	}
	l.mu.Lock()
	fmt.Fprintln(&l.b, v...)
	l.mu.Unlock()
}
func (l *LogBuf) String() string {
	l.mu.Lock()
	defer l.mu.Unlock()
	return l.b.String()
}

// NewServer builds a real server for cfg.
func (cfg Config) NewServer(be smtp.Backend, log *LogBuf) *smtp.Server {
	s := smtp.NewServer(be)
	s.Domain = "srv.example"
	s.LMTP = cfg.LMTP
	s.MaxRecipients = cfg.MaxRecipients
	s.MaxMessageBytes = cfg.MaxMessageBytes
	if cfg.MaxLineLength != 0 {
		s.MaxLineLength = cfg.MaxLineLength
	}
	s.AllowInsecureAuth = cfg.AllowInsecureAuth
	s.EnableSMTPUTF8 = cfg.UTF8
	s.EnableREQUIRETLS = cfg.RequireTLS
	s.EnableBINARYMIME = cfg.BinaryMIME
	s.EnableDSN = cfg.DSN
	s.EnableRRVS = cfg.RRVS
	if cfg.TLSAvailable {
		s.TLSConfig = ServerTLSConfig()
	}
	if cfg.Timeouts {
		s.ReadTimeout, s.WriteTimeout = time.Minute, time.Minute
	}
	if cfg.ReadTO != 0 || cfg.WriteTO != 0 {
		s.ReadTimeout, s.WriteTimeout = cfg.ReadTO, cfg.WriteTO
	}
	if cfg.Debug {
		s.Debug = io.Discard
	}
	s.ErrorLog = log
	return s
}

// Obs is what one engine-S execution shows.
type Obs struct {
	Wire            []byte
	Writes          []WriteRec
	Replies         []ref.Reply
	ReplyAt         []int // for each reply: input octets consumed when its first line was written
	ParseErr        error
	Trace           []Event
	Closed          bool     // the server closed the connection
	Consumed        int      // input octets taken by the server
	Taken           int      // input octets taken when the server closed the connection
	Err             error    // return value of the connection handler
	Log             string   // Server.ErrorLog output
	State           string   // Conn.VerifState() when the script ran dry ("" if it never did)
	Panic           string   // a panic that escaped the handler (never expected)
	Anomalies       []string // from the recording backend
	Leak            string   // synctest complaint: goroutines of the connection still blocked after everything settled
	ReadsAfterClose int
}

// RunS serves one scripted connection synchronously on a fresh server.
func RunS(cfg Config, be *Backend, segs [][]byte, term string) *Obs {
	log := &LogBuf{}
	srv := cfg.NewServer(be, log)
	sc := NewScriptConn(segs, term)
	sc.RequireDeadlines = cfg.Timeouts
	if cfg.PeerPause {
		sc.Pause = 40 * time.Second
	}
	sc.FinalWithErr = cfg.FinalWithErr
	if cfg.LongPauseBefore > 0 {
		sc.LongPauseBefore, sc.LongPause = cfg.LongPauseBefore, 5*time.Minute
	}
	o := &Obs{}
	var conn *smtp.Conn
	sc.OnExhausted = func() {
		if conn != nil {
			o.State = conn.VerifState()
		}
	}
	defer GuardEnter(func() string {
		var all []byte
		for _, s := range segs {
			all = append(all, s...)
			all = append(all, '|')
		}
		if len(all) > 600 {
			all = all[:600]
		}
		return fmt.Sprintf("scripted connection, config %+v, terminal %s, segments %q", cfg, term, all)
	}())()
	o.Leak, o.Panic = Bubble(func() {
		o.Err = srv.VerifServeConn(sc, func(c *smtp.Conn) { conn = c })
		Wait() // let delivery goroutines that are still running finish (or block for good)
		o.Trace = be.Trace()
		be.mu.Lock()
		o.Anomalies = append([]string(nil), be.Anomalies...)
		be.mu.Unlock()
		if sc.DeadlineAnomaly != "" {
			o.Anomalies = append(o.Anomalies, sc.DeadlineAnomaly)
		}
	})
	sc.mu.Lock()
	o.Writes = sc.Writes
	o.Closed = sc.Closed
	o.Consumed = sc.Consumed
	o.Taken = sc.TakenAtClose
	o.ReadsAfterClose = sc.ReadsAfterClose
	sc.mu.Unlock()
	o.Wire = sc.Wire()
	o.Replies, o.ParseErr = ref.ParseReplies(o.Wire)
	// attribute replies to input positions
	off := 0
	wi := 0
	for _, r := range o.Replies {
		for wi < len(o.Writes) && off+len(o.Writes[wi].Data) <= r.Offset {
			off += len(o.Writes[wi].Data)
			wi++
		}
		at := -1
		if wi < len(o.Writes) {
			at = o.Writes[wi].Consumed
		}
		o.ReplyAt = append(o.ReplyAt, at)
	}
	o.Log = log.String()
	return o
}

// Codes renders the reply codes of an observation ("220 250 354 250").
func (o *Obs) Codes() string {
	var sb strings.Builder
	for i, r := range o.Replies {
		if i > 0 {
			sb.WriteByte(' ')
		}
		fmt.Fprintf(&sb, "%d", r.Code)
	}
	return sb.String()
}

// Calls renders the backend trace compactly.
func Calls(tr []Event) string {
	var sb strings.Builder
	for i, e := range tr {
		if i > 0 {
			sb.WriteByte(' ')
		}
		fmt.Fprintf(&sb, "%s#%d", e.Kind, e.Sess)
		if e.Arg != "" && (e.Kind == "Mail" || e.Kind == "Rcpt" || e.Kind == "SetStatus") {
			fmt.Fprintf(&sb, "(%s)", e.Arg)
		}
	}
	return sb.String()
}

// Q quotes octets for messages.
func Q(b []byte) string { return fmt.Sprintf("%q", b) }

// Sanity reports failures every check cares about: a panic that escaped the
// connection handler, or goroutines of the connection that never finish.
func (o *Obs) Sanity(prefix, desc string) *Finding {
	if o.Panic != "" {
		return F(prefix+"-panic", "%s: the connection handler panicked: %s", desc, o.Panic)
	}
	if o.Leak != "" {
		return F(prefix+"-goroutine-leak", "%s: goroutines serving the connection never finished: %s", desc, o.Leak)
	}
	if len(o.Anomalies) > 0 {
		return F(prefix+"-backend-anomaly", "%s: %s", desc, o.Anomalies[0])
	}
	return nil
}
