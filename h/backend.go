package h

import (
	"errors"
	"fmt"
	"io"
	"strings"
	"sync"
	"time"

	"github.com/emersion/go-sasl"
	smtp "github.com/emersion/go-smtp"
)

// Event is one backend callback as seen by the recording backend.
type Event struct {
	Seq     int      `json:"seq"`
	Sess    int      `json:"sess"` // session identity (1,2,…); 0 for NewSession failures
	Kind    string   `json:"kind"` // NewSession Mail Rcpt Data LMTPData Reset Logout AuthMechs Auth Next SetStatus
	Arg     string   `json:"arg,omitempty"`
	Opts    string   `json:"opts,omitempty"`
	Body    []byte   `json:"body,omitempty"`
	ReadErr string   `json:"read_err,omitempty"` // "" not finished, "EOF", or the error text
	Ret     string   `json:"ret,omitempty"`
	Helo    string   `json:"helo,omitempty"`
	TLS     bool     `json:"tls,omitempty"`
	Ended   bool     `json:"ended,omitempty"`
	Rcpts   []string `json:"rcpts,omitempty"` // envelope at the time of Data (as the backend saw it)
	From    string   `json:"from,omitempty"`
}

// StatusCall is one SetStatus call of an LMTP backend script.
type StatusCall struct {
	Rcpt      string
	Err       error
	AfterRead bool // call it after the message has been consumed
}

// DataPlan says what the backend does with one message.
type DataPlan struct {
	Buf     int   // read buffer size; 0 means 4096
	Max     int   // read at most Max octets, then stop reading; <0 means read to the end
	Verdict error // return value when reading ended as planned (EOF or Max reached)
	Panic   bool  // panic after reading
	Status  []StatusCall
	KeepErr bool // return Verdict even if the reader failed
	// RideOut: when a Read fails with a timeout, the backend lifts the connection's read deadline (Conn.Conn() is public
	// API) and goes on reading - a backend that would rather wait for a slow sender than lose the message
	RideOut bool
}

var ReadAll = DataPlan{Max: -1}

// Backend is the recording backend. Its decisions are a pure function of
// the arguments it is given (address prefixes), never of time or call count,
// unless Plan says otherwise.
type Backend struct {
	mu     sync.Mutex
	Events []*Event
	nsess  int
	seq    int

	Auth     bool // sessions implement AuthSession
	LMTPSess bool // sessions implement LMTPSession
	Mechs    []string
	// NewSASL builds the server mechanism for an AUTH attempt.
	NewSASL func(b *Backend, sess int, mech string) (sasl.Server, error)
	// Plan decides what to do with message number idx (0-based, per backend).
	Plan func(idx int) DataPlan
	nmsg int
	// Gate, if set, is called at the step boundaries of Data/LMTPData
	// (engine X makes these scheduling points).
	Gate func(step string)
	// Delay: Mail and Rcpt take that long (time.Sleep: the virtual clock inside a bubble) - a slow backend
	Delay time.Duration
	// DataDelay: Data/LMTPData take that long before they start reading and once more before they return.
	DataDelay time.Duration
	// SlowAbort: a delivery whose reader failed (connection lost, RSET, STARTTLS ...) takes that long to clean up
	// before Data returns (time.Sleep: the virtual clock inside a bubble).
	SlowAbort time.Duration
	// LogoutErr is returned by Logout.
	LogoutErr error
	// ByContent: the message itself says what to do with it (first line
	// "reject…", "early…", "panic…", anything else: accept); used by the
	// history explorers, whose backend must be stateless.
	ByContent bool
	// StatusByRcpt (with ByContent, LMTP per-recipient sessions): after the message has been dealt with, every recipient
	// of the envelope gets its own status, in order: "okd5..." a 550, "okd4..." a 451, anyone else the verdict.
	StatusByRcpt bool
	// Override, if set, decides the result of NewSession/Mail/Rcpt/Data
	// (ok=false: fall back to the address convention).
	Override func(kind, arg string) (err error, ok bool)
	// Anomalies lists things no backend should ever see (reported by Obs.Sanity and the other engines).
	Anomalies []string
	// ConcurrentClose: the scenario calls Server.Close/Shutdown from another goroutine (engine X worlds);
	// overlaps are then judged by the scenario itself (a DATA delivery cannot be joined by Close).
	ConcurrentClose bool
	// Overlaps lists Reset/Logout calls that began while a delivery on the same session was running.
	Overlaps []string
	// Probe, if set, is called inside NewSession with the Conn.
	Probe func(c *smtp.Conn)

	heldSASL     [][]byte // the slices RecordNext was handed, as handed
	heldCopy     []string // what they held at that time
	heldReported bool
}

func (b *Backend) add(e *Event) *Event {
	b.mu.Lock()
	b.seq++
	e.Seq = b.seq
	b.Events = append(b.Events, e)
	b.mu.Unlock()
	return e
}

// Trace returns a copy of the events.
func (b *Backend) Trace() []Event {
	b.mu.Lock()
	defer b.mu.Unlock()
	out := make([]Event, len(b.Events))
	for i, e := range b.Events {
		out[i] = *e
	}
	return out
}

func RejErr(what string) *smtp.SMTPError {
	return &smtp.SMTPError{Code: 550, EnhancedCode: smtp.EnhancedCode{5, 1, 1}, Message: "rejected " + what}
}

// decide maps an address (or greeting name) to the backend's scripted answer.
func decide(addr string) error {
	local := addr
	if i := strings.LastIndexByte(addr, '@'); i >= 0 {
		local = addr[:i]
	}
	switch {
	case strings.HasPrefix(local, "rejml"):
		return &smtp.SMTPError{Code: 550, EnhancedCode: smtp.EnhancedCode{5, 1, 1}, Message: "rejected " + addr + "\nsecond line of the refusal"}
	case strings.HasPrefix(local, "rejne"):
		// an SMTPError without enhanced code: the server must derive X.0.0 of the reply's class
		return &smtp.SMTPError{Code: 550, Message: "rejected (no enhanced code) " + addr}
	case strings.HasPrefix(local, "rej"):
		return RejErr(addr)
	case strings.HasPrefix(local, "tmp"):
		return errors.New("temporary trouble with " + addr)
	case strings.HasPrefix(local, "panic"):
		panic("backend panic for " + addr)
	}
	return nil
}

func (b *Backend) NewSession(c *smtp.Conn) (smtp.Session, error) {
	tlsState, isTLS := c.TLSConnectionState()
	e := &Event{Kind: "NewSession", Helo: c.Hostname(), TLS: isTLS}
	if isTLS && (!tlsState.HandshakeComplete || tlsState.Version == 0 || tlsState.CipherSuite == 0) {
		// a backend that looks INTO the state (protocol version, cipher suite, client certificates) must find the
		// state of the completed handshake
		b.mu.Lock()
		b.Anomalies = append(b.Anomalies, fmt.Sprintf("NewSession(%s) was shown a TLS state whose handshake is not complete (HandshakeComplete=%t version=%#x cipher=%#x)", c.Hostname(), tlsState.HandshakeComplete, tlsState.Version, tlsState.CipherSuite))
		b.mu.Unlock()
	}
	if b.Probe != nil {
		b.Probe(c)
	}
	b.gate("cb:NewSession")
	if strings.HasPrefix(c.Hostname(), "closeme") {
		// a backend that decides inside NewSession to drop the client (public API Conn.Reject) and still
		// returns a session object, which must be logged out like any other
		c.Reject()
	}
	if b.Override != nil {
		if err, ok := b.Override("NewSession", c.Hostname()); ok && err != nil {
			e.Ret = "error"
			b.add(e)
			return nil, err
		}
	}
	if strings.HasPrefix(c.Hostname(), "fail") {
		e.Ret = "error"
		b.add(e)
		return nil, &smtp.SMTPError{Code: 554, EnhancedCode: smtp.EnhancedCode{5, 3, 2}, Message: "no session for " + c.Hostname()}
	}
	if strings.HasPrefix(c.Hostname(), "tmpfail") {
		e.Ret = "error"
		b.add(e)
		return nil, errors.New("plain failure")
	}
	b.mu.Lock()
	b.nsess++
	id := b.nsess
	b.mu.Unlock()
	e.Sess = id
	b.add(e)
	s := &sess{b: b, id: id, conn: c}
	switch {
	case b.Auth && b.LMTPSess:
		return &sessAL{sessA{s}}, nil
	case b.Auth:
		return &sessA{s}, nil
	case b.LMTPSess:
		return &sessL{s}, nil
	}
	return s, nil
}

type sess struct {
	b     *Backend
	id    int
	conn  *smtp.Conn
	from  string
	rcpts []string
	// touched by Reset/Logout (write) and by a delivery until it returns (read): a Reset or Logout
	// that is not ordered after the delivery is a data race the detector can see (engine R), and an
	// overlap the backend records itself (engine X)
	epoch      int
	inData     int
	panicReset bool // the next Reset panics (armed by a sender "okpanicreset...")
	loggedOut  bool
}

func errStr(err error) string {
	if err == nil {
		return "nil"
	}
	if se, ok := err.(*smtp.SMTPError); ok {
		return fmt.Sprintf("SMTPError{%d %v %q}", se.Code, se.EnhancedCode, se.Message)
	}
	return "error{" + err.Error() + "}"
}

func MailOptsString(o *smtp.MailOptions) string {
	if o == nil {
		return "nil"
	}
	auth := "nil"
	if o.Auth != nil {
		auth = fmt.Sprintf("%q", *o.Auth)
	}
	return fmt.Sprintf("Body=%q Size=%d RequireTLS=%t UTF8=%t Return=%q EnvelopeID=%q Auth=%s",
		o.Body, o.Size, o.RequireTLS, o.UTF8, o.Return, o.EnvelopeID, auth)
}

func RcptOptsString(o *smtp.RcptOptions) string {
	if o == nil {
		return "nil"
	}
	n := "nil"
	if o.Notify != nil {
		n = fmt.Sprintf("%q", o.Notify)
	}
	t := "zero"
	if !o.RequireRecipientValidSince.IsZero() {
		t = o.RequireRecipientValidSince.UTC().Format("2006-01-02T15:04:05.999999999Z")
	}
	return fmt.Sprintf("Notify=%s ORcptType=%q ORcpt=%q RRVS=%s", n, o.OriginalRecipientType, o.OriginalRecipient, t)
}

// afterLogout records a callback that begins on a session whose Logout has already been called: no backend should ever
// see that (unless Server.Close is racing with the command loop, which the scenario then judges itself).
func (s *sess) afterLogout(kind string) {
	s.b.mu.Lock()
	if s.loggedOut && !s.b.ConcurrentClose {
		s.b.Anomalies = append(s.b.Anomalies, fmt.Sprintf("callback %s began on session #%d after its Logout", kind, s.id))
	}
	s.b.mu.Unlock()
}

func (s *sess) Mail(from string, opts *smtp.MailOptions) (err error) {
	s.afterLogout("Mail")
	e := s.b.add(&Event{Sess: s.id, Kind: "Mail", Arg: from, Opts: MailOptsString(opts)})
	defer func() { e.Ret = errStr(err); e.Ended = true }()
	s.b.gate("cb:Mail")
	if s.b.Delay > 0 {
		time.Sleep(s.b.Delay)
	}
	if s.b.Override != nil {
		if oerr, ok := s.b.Override("Mail", from); ok {
			return oerr
		}
	}
	if err = decide(from); err == nil {
		s.from = from
		// "okpanicreset...": the next Reset of this session panics (once)
		s.panicReset = strings.HasPrefix(from, "okpanicreset")
	}
	return err
}

func (s *sess) Rcpt(to string, opts *smtp.RcptOptions) (err error) {
	s.afterLogout("Rcpt")
	e := s.b.add(&Event{Sess: s.id, Kind: "Rcpt", Arg: to, Opts: RcptOptsString(opts)})
	defer func() { e.Ret = errStr(err); e.Ended = true }()
	s.b.gate("cb:Rcpt")
	if s.b.Delay > 0 {
		time.Sleep(s.b.Delay)
	}
	if s.b.Override != nil {
		if oerr, ok := s.b.Override("Rcpt", to); ok {
			return oerr
		}
	}
	if err = decide(to); err == nil {
		s.rcpts = append(s.rcpts, to)
	}
	return err
}

func (s *sess) noteOverlap(kind string) {
	s.b.mu.Lock()
	if s.inData > 0 {
		msg := fmt.Sprintf("%s began on session #%d while its Data call was still running", kind, s.id)
		s.b.Overlaps = append(s.b.Overlaps, msg)
		if !s.b.ConcurrentClose {
			// without a Server.Close from another goroutine nothing excuses this: an anomaly for every engine
			s.b.Anomalies = append(s.b.Anomalies, msg)
		}
	}
	s.b.mu.Unlock()
}

func (s *sess) Reset() {
	s.noteOverlap("Reset")
	s.b.add(&Event{Sess: s.id, Kind: "Reset", Ended: true})
	s.from = ""
	s.rcpts = nil
	if s.panicReset {
		s.panicReset = false
		panic("backend panic in Reset")
	}
}

func (s *sess) Logout() error {
	s.b.gate("cb:Logout")
	s.noteOverlap("Logout")
	s.b.mu.Lock()
	s.loggedOut = true
	s.b.mu.Unlock()
	s.b.add(&Event{Sess: s.id, Kind: "Logout", Ended: true})
	return s.b.LogoutErr
}

func (b *Backend) gate(step string) {
	if b.Gate != nil {
		b.Gate(step)
	}
}

func (s *sess) consume(kind string, r io.Reader, status smtp.StatusCollector) error {
	err := s.consume0(kind, r, status)
	if s.b.DataDelay > 0 {
		time.Sleep(s.b.DataDelay)
	}
	return err
}

func (s *sess) consume0(kind string, r io.Reader, status smtp.StatusCollector) (err error) {
	s.afterLogout(kind)
	b := s.b
	b.mu.Lock()
	idx := b.nmsg
	b.nmsg++
	b.mu.Unlock()
	plan := ReadAll
	if b.Plan != nil {
		plan = b.Plan(idx)
	}
	e := b.add(&Event{Sess: s.id, Kind: kind, Arg: fmt.Sprint(idx), From: s.from, Rcpts: append([]string(nil), s.rcpts...)})
	b.mu.Lock()
	s.inData++
	b.mu.Unlock()
	defer func() {
		b.mu.Lock()
		s.inData--
		e.Ret = errStr(err)
		e.Ended = true
		b.mu.Unlock()
	}()
	b.gate(fmt.Sprintf("m%d:enter", idx))
	if b.DataDelay > 0 {
		time.Sleep(b.DataDelay)
	}
	setStatus := func(after bool) {
		for _, sc := range plan.Status {
			if sc.AfterRead == after && status != nil {
				b.gate(fmt.Sprintf("m%d:status", idx))
				b.add(&Event{Sess: s.id, Kind: "SetStatus", Arg: sc.Rcpt, Ret: errStr(sc.Err), Ended: true})
				status.SetStatus(sc.Rcpt, sc.Err)
			}
		}
	}
	setStatus(false)
	if b.ByContent {
		err := s.byContent(e, r, idx)
		if b.StatusByRcpt && status != nil {
			for _, rc := range e.Rcpts {
				st := err
				switch {
				case strings.HasPrefix(rc, "okd5"):
					st = &smtp.SMTPError{Code: 550, EnhancedCode: smtp.EnhancedCode{5, 2, 1}, Message: "mailbox of " + rc + " is disabled"}
				case strings.HasPrefix(rc, "okd4"):
					st = &smtp.SMTPError{Code: 451, EnhancedCode: smtp.EnhancedCode{4, 2, 2}, Message: "mailbox of " + rc + " is full"}
				}
				b.add(&Event{Sess: s.id, Kind: "SetStatus", Arg: rc, Ret: errStr(st), Ended: true})
				status.SetStatus(rc, st)
			}
		}
		return err
	}
	bufSize := plan.Buf
	if bufSize <= 0 {
		bufSize = 4096
	}
	buf := make([]byte, bufSize)
	var body []byte
	var rerr error
	rides := 0
	for plan.Max < 0 || len(body) < plan.Max {
		p := buf
		if plan.Max >= 0 && plan.Max-len(body) < len(p) {
			p = p[:plan.Max-len(body)]
		}
		b.gate(fmt.Sprintf("m%d:read", idx))
		n, er := r.Read(p)
		body = append(body, p[:n]...)
		b.mu.Lock()
		e.Body = body
		b.mu.Unlock()
		if er != nil {
			if te, ok := er.(interface{ Timeout() bool }); ok && te.Timeout() && plan.RideOut && s.conn != nil && rides < 8 {
				rides++
				s.conn.Conn().SetReadDeadline(time.Time{})
				continue
			}
			rerr = er
			break
		}
		if len(body) > MaxRecordedBody {
			rerr = b.endless(s, len(body))
			break
		}
	}
	b.afterEOF(s, r, rerr)
	if rerr != nil && rerr != io.EOF && b.SlowAbort > 0 {
		time.Sleep(b.SlowAbort)
	}
	b.mu.Lock()
	e.Body = body
	switch {
	case rerr == io.EOF:
		e.ReadErr = "EOF"
	case rerr != nil:
		e.ReadErr = rerr.Error()
	default:
		e.ReadErr = "stopped"
	}
	b.mu.Unlock()
	setStatus(true)
	b.gate(fmt.Sprintf("m%d:return", idx))
	if plan.Panic {
		panic("backend panic in " + kind)
	}
	if rerr != nil && rerr != io.EOF && !plan.KeepErr {
		return rerr
	}
	return plan.Verdict
}

// byContent reads the first line octet by octet, then does what it says.
func (s *sess) byContent(e *Event, r io.Reader, idx int) error {
	b := s.b
	var body []byte
	var rerr error
	one := make([]byte, 1)
	for rerr == nil && (len(body) == 0 || body[len(body)-1] != '\n') {
		var n int
		n, rerr = r.Read(one)
		body = append(body, one[:n]...)
	}
	line := strings.TrimRight(string(body), "\r\n")
	early := strings.HasPrefix(line, "early")
	if !early {
		buf := make([]byte, 4096)
		for rerr == nil {
			var n int
			n, rerr = r.Read(buf)
			body = append(body, buf[:n]...)
			if rerr == nil && len(body) > MaxRecordedBody {
				rerr = b.endless(s, len(body))
			}
		}
	}
	b.afterEOF(s, r, rerr)
	if rerr != nil && rerr != io.EOF && b.SlowAbort > 0 {
		time.Sleep(b.SlowAbort)
	}
	b.mu.Lock()
	e.Body = body
	switch {
	case rerr == io.EOF:
		e.ReadErr = "EOF"
	case rerr != nil:
		e.ReadErr = rerr.Error()
	default:
		e.ReadErr = "stopped"
	}
	b.mu.Unlock()
	b.gate(fmt.Sprintf("m%d:return", idx))
	if rerr != nil && rerr != io.EOF {
		return rerr
	}
	switch {
	case strings.HasPrefix(line, "earlypanic"):
		panic("backend panic before the message was read: " + line)
	case early:
		return &smtp.SMTPError{Code: 554, EnhancedCode: smtp.EnhancedCode{5, 6, 1}, Message: "early failure " + line}
	case strings.HasPrefix(line, "rejectne"):
		// no enhanced code: the server must derive 5.0.0
		return &smtp.SMTPError{Code: 554, Message: "rejected message " + line}
	case strings.HasPrefix(line, "reject"):
		return &smtp.SMTPError{Code: 554, EnhancedCode: smtp.EnhancedCode{5, 6, 0}, Message: "rejected message " + line}
	case strings.HasPrefix(line, "panic"):
		panic("backend panic for message " + line)
	}
	return nil
}

// MaxRecordedBody bounds what the recording backend reads of one message: no input of any check comes near it, so a
// message reader that yields more invents octets (a reader stuck in a loop would otherwise eat all memory).
const MaxRecordedBody = 64 << 20

func (b *Backend) endless(s *sess, n int) error {
	b.mu.Lock()
	b.Anomalies = append(b.Anomalies, fmt.Sprintf("the message reader of session #%d produced more than %d octets without ending - more than the whole input contains (a reader that invents data)", s.id, n))
	b.mu.Unlock()
	return fmt.Errorf("recording backend: message reader does not end")
}

// FirstAnomaly returns the first recorded anomaly ("" if none).
func (b *Backend) FirstAnomaly() string {
	b.mu.Lock()
	defer b.mu.Unlock()
	if len(b.Anomalies) > 0 {
		return b.Anomalies[0]
	}
	return ""
}

// afterEOF: a reader that has reported end-of-file keeps reporting it (io.Reader users such as
// io.ReadFull read again). Anything else is recorded as an anomaly, which every check reports.
func (b *Backend) afterEOF(s *sess, r io.Reader, rerr error) {
	if rerr != io.EOF {
		return
	}
	p := make([]byte, 8)
	for i := 0; i < 2; i++ {
		if n, err := r.Read(p); n != 0 || err != io.EOF {
			b.mu.Lock()
			b.Anomalies = append(b.Anomalies, fmt.Sprintf("the message reader of session #%d reported EOF and then answered a further Read with (%d, %v)", s.id, n, err))
			b.mu.Unlock()
			return
		}
	}
}

func (s *sess) Data(r io.Reader) error { return s.consume("Data", r, nil) }

type sessL struct{ *sess }

func (s *sessL) LMTPData(r io.Reader, status smtp.StatusCollector) error {
	return s.consume("LMTPData", r, status)
}

type sessA struct{ *sess }

func (s *sessA) AuthMechanisms() []string {
	s.b.add(&Event{Sess: s.id, Kind: "AuthMechs", Ended: true})
	s.b.gate(fmt.Sprintf("cb:AuthMechanisms#%d", s.id))
	return s.b.Mechs
}

func (s *sessA) Auth(mech string) (sasl.Server, error) {
	s.afterLogout("Auth")
	e := s.b.add(&Event{Sess: s.id, Kind: "Auth", Arg: mech, Ended: true})
	if s.b.NewSASL == nil {
		e.Ret = "unknown"
		return nil, smtp.ErrAuthUnknownMechanism
	}
	srv, err := s.b.NewSASL(s.b, s.id, mech)
	e.Ret = errStr(err)
	return srv, err
}

type sessAL struct{ sessA }

func (s *sessAL) LMTPData(r io.Reader, status smtp.StatusCollector) error {
	return s.consume("LMTPData", r, status)
}

// RecordNext records an octet string handed to a SASL mechanism.
func (b *Backend) RecordNext(sess int, resp []byte) {
	arg := "nil"
	if resp != nil {
		arg = fmt.Sprintf("%q", resp)
	}
	// A mechanism may keep what it is handed (LOGIN keeps the user name until the password arrives): the slices of
	// earlier calls must still hold what they held when they were handed over.
	b.mu.Lock()
	for i, held := range b.heldSASL {
		if string(held) != b.heldCopy[i] && !b.heldReported {
			b.heldReported = true
			b.Anomalies = append(b.Anomalies, fmt.Sprintf("the response slice handed to the SASL mechanism in an earlier Next call (%q) was overwritten afterwards: it now reads %q", b.heldCopy[i], held))
		}
	}
	if len(resp) > 0 {
		b.heldSASL = append(b.heldSASL, resp)
		b.heldCopy = append(b.heldCopy, string(resp))
	}
	b.mu.Unlock()
	b.add(&Event{Sess: sess, Kind: "Next", Arg: arg, Ended: true})
}
