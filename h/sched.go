package h

import (
	"fmt"
	"sort"
	"strings"
	"sync"
)

// Engine X: stateless exploration of the orders of harness-controlled events
// on the real code, inside testing/synctest bubbles.
//
// A *gate* is a point where a goroutine of the system under test (or of the
// harness' backend, listener, connection) parks until the explorer opens it.
// A *world event* is something the environment does (deliver a segment,
// disconnect, call Server.Close, answer Accept, let time pass). One step =
// Wait() until every goroutine is durably blocked, collect the enabled gates
// and events, pick ONE according to the schedule, perform it.

type SchedEvent struct {
	Name string
	Do   func()
}

// World is one scenario instance (fresh per execution).
type World interface {
	// Start spawns the system under test. Runs inside the bubble.
	Start(x *Exec)
	// Events returns the environment events enabled in the current quiescent state.
	Events() []SchedEvent
	// Finish drains the scenario (x.Drain() first) and returns the verdict.
	Finish(x *Exec) *Finding
}

type gate struct {
	name string
	ch   chan struct{}
}

type ChoicePoint struct {
	Enabled []string `json:"enabled"`
	Chosen  int      `json:"chosen"`
}

// Exec is one execution under a (partial) schedule.
type Exec struct {
	mu       sync.Mutex
	pending  []*gate
	counts   map[string]int
	draining bool
	// Filter decides which Point names are scheduling points; others pass through.
	Filter func(name string) bool

	Prefix    []int    // choices to replay (index into the canonical enabled list)
	ByName    []string // alternatively: the schedule as names (replay files, engine R)
	Trace     []ChoicePoint
	Schedule  []string
	lastActor string
	Diverged  string // set if a replayed prefix met an impossible choice
	MaxSteps  int
}

// Point parks the calling goroutine at gate name until the explorer opens it.
func (x *Exec) Point(name string) {
	if x == nil {
		return
	}
	x.mu.Lock()
	if x.draining || (x.Filter != nil && !x.Filter(name)) {
		x.mu.Unlock()
		return
	}
	if x.counts == nil {
		x.counts = map[string]int{}
	}
	x.counts[name]++
	g := &gate{name: fmt.Sprintf("%s#%d", name, x.counts[name]), ch: make(chan struct{})}
	x.pending = append(x.pending, g)
	x.mu.Unlock()
	<-g.ch
}

// Drain opens every gate from now on.
func (x *Exec) Drain() {
	for {
		x.mu.Lock()
		x.draining = true
		p := x.pending
		x.pending = nil
		x.mu.Unlock()
		if len(p) == 0 {
			return
		}
		for _, g := range p {
			close(g.ch)
		}
		Wait()
	}
}

func actorOf(name string) string {
	if i := strings.IndexAny(name, ":#"); i >= 0 {
		return name[:i]
	}
	return name
}

// Run drives world w to completion under the schedule in x.
func (x *Exec) Run(w World) *Finding {
	w.Start(x)
	if x.MaxSteps == 0 {
		x.MaxSteps = 400
	}
	for step := 0; ; step++ {
		Wait()
		var enabled []SchedEvent
		x.mu.Lock()
		for _, g := range x.pending {
			g := g
			enabled = append(enabled, SchedEvent{Name: g.name, Do: func() {
				x.mu.Lock()
				for i, p := range x.pending {
					if p == g {
						x.pending = append(x.pending[:i:i], x.pending[i+1:]...)
						break
					}
				}
				x.mu.Unlock()
				close(g.ch)
			}})
		}
		x.mu.Unlock()
		enabled = append(enabled, w.Events()...)
		if len(enabled) == 0 {
			break
		}
		if step >= x.MaxSteps {
			return F("sched-step-limit", "execution did not finish within %d steps (livelock?): schedule %v", x.MaxSteps, x.Schedule)
		}
		// canonical order: the actor that ran last first, then by name
		sort.SliceStable(enabled, func(i, j int) bool {
			ai, aj := actorOf(enabled[i].Name) == x.lastActor, actorOf(enabled[j].Name) == x.lastActor
			if ai != aj {
				return ai
			}
			return enabled[i].Name < enabled[j].Name
		})
		names := make([]string, len(enabled))
		for i, e := range enabled {
			names[i] = e.Name
		}
		choice := 0
		switch {
		case x.ByName != nil:
			if step < len(x.ByName) {
				choice = -1
				for i, n := range names {
					if n == x.ByName[step] {
						choice = i
					}
				}
				if choice < 0 {
					x.Diverged = fmt.Sprintf("step %d: schedule wants %q, enabled are %v", step, x.ByName[step], names)
					choice = 0
				}
			}
		case step < len(x.Prefix):
			choice = x.Prefix[step]
			if choice >= len(enabled) {
				x.Diverged = fmt.Sprintf("step %d: replayed choice %d but only %d events are enabled (%v)", step, choice, len(enabled), names)
				choice = 0
			}
		}
		x.Trace = append(x.Trace, ChoicePoint{Enabled: names, Chosen: choice})
		x.Schedule = append(x.Schedule, names[choice])
		x.lastActor = actorOf(names[choice])
		enabled[choice].Do()
	}
	return w.Finish(x)
}

// ExploreStats is what an exploration covered.
type ExploreStats struct {
	Executions int64
	ChoicePts  int64
	MaxDepth   int
	Diverged   int64 // executions whose replayed prefix met another enabled set (tolerated nondeterminism)
	Truncated  bool  // the deviation bound cut alternatives
	BoundHit   int64
	Outcomes   map[string]int64
	Schedules  [][]string // kept schedules (for engine R), if Keep > 0
}

type ExploreOpts struct {
	Bound    int // max deviations from the default choice; <0: unbounded
	Keep     int // keep up to this many schedules
	Parallel bool
	Filter   func(name string) bool
	MaxExec  int64
	Expired  func() bool
	Desc     string // scenario description for the hang guard
	// TolerateDivergence: a replayed prefix that meets another enabled set is not an error (see Explore).
	TolerateDivergence bool
}

// Explore enumerates the schedules of the scenario produced by mk.
// onExec is called for every execution (may be called concurrently if Parallel).
func Explore(mk func() World, opts ExploreOpts, onExec func(x *Exec, f *Finding, leak string)) ExploreStats {
	st := ExploreStats{Outcomes: map[string]int64{}}
	var mu sync.Mutex
	type item struct {
		prefix []int
		cost   int
	}
	runOne := func(it item) []item {
		x := &Exec{Prefix: it.prefix, Filter: opts.Filter}
		var f *Finding
		leave := GuardEnter(fmt.Sprintf("schedule exploration, choice prefix %v (%s)", it.prefix, opts.Desc))
		leak, pan := Bubble(func() { f = x.Run(mk()) })
		leave()
		if f == nil && pan != "" {
			f = F("sched-harness-panic", "%s (schedule %v)", pan, x.Schedule)
		}
		if f == nil && x.Diverged != "" {
			if opts.TolerateDivergence {
				// the scenario contains nondeterminism the harness cannot own (e.g. Go map iteration inside
				// the code under test): the execution is still a valid one and has been judged; the search
				// just cannot steer it. Counted, not reported.
				mu.Lock()
				st.Diverged++
				mu.Unlock()
			} else {
				f = F("sched-replay-diverged", "un-owned nondeterminism: %s", x.Diverged)
			}
		}
		onExec(x, f, leak)
		var next []item
		cost := it.cost
		for i := len(it.prefix); i < len(x.Trace); i++ {
			cp := x.Trace[i]
			// x.Trace[i].Chosen is 0 for i >= len(prefix)
			for alt := 1; alt < len(cp.Enabled); alt++ {
				if opts.Bound >= 0 && cost+1 > opts.Bound {
					mu.Lock()
					st.Truncated = true
					st.BoundHit++
					mu.Unlock()
					break
				}
				p := make([]int, i+1)
				for k := 0; k < i; k++ {
					p[k] = x.Trace[k].Chosen
				}
				p[i] = alt
				next = append(next, item{prefix: p, cost: cost + 1})
			}
		}
		mu.Lock()
		st.Executions++
		st.ChoicePts += int64(len(x.Trace))
		if len(x.Trace) > st.MaxDepth {
			st.MaxDepth = len(x.Trace)
		}
		if len(st.Schedules) < opts.Keep {
			st.Schedules = append(st.Schedules, append([]string(nil), x.Schedule...))
		}
		mu.Unlock()
		return next
	}
	work := []item{{}}
	for len(work) > 0 {
		if opts.Expired != nil && opts.Expired() {
			st.Truncated = true
			break
		}
		if opts.MaxExec > 0 && st.Executions >= opts.MaxExec {
			st.Truncated = true
			break
		}
		batch := work
		work = nil
		if opts.Parallel && len(batch) > 1 {
			results := make([][]item, len(batch))
			ParallelFor(len(batch), func(i int) { results[i] = runOne(batch[i]) })
			for _, r := range results {
				work = append(work, r...)
			}
		} else {
			for _, it := range batch {
				work = append(work, runOne(it)...)
			}
		}
	}
	return st
}

// ReplaySchedule runs one named schedule.
func ReplaySchedule(mk func() World, names []string, filter func(string) bool) (*Exec, *Finding, string) {
	x := &Exec{ByName: names, Filter: filter}
	if x.ByName == nil {
		x.ByName = []string{}
	}
	var f *Finding
	leak, pan := Bubble(func() { f = x.Run(mk()) })
	if f == nil && pan != "" {
		f = F("sched-harness-panic", "%s", pan)
	}
	if f == nil && x.Diverged != "" {
		f = F("sched-replay-diverged", "%s", x.Diverged)
	}
	return x, f, leak
}

// GatedEnd wraps a connection end so that every Write is a scheduling point.
type GatedEnd struct {
	*End
	X    *Exec
	Name string
}

func (g *GatedEnd) Write(b []byte) (int, error) {
	g.X.Point("write:" + g.Name)
	return g.End.Write(b)
}
