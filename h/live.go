package h

import (
	"crypto/tls"
	"io"
	"net"
	"sync"
	"time"

	smtp "github.com/emersion/go-smtp"
	"verif/ref"
)

// Queue is one direction of an in-memory connection: an unbounded queue of
// segments. Read hands out at most one segment per call (so the sender's
// segmentation is what the reader's raw reads see) and blocks on a channel
// while the queue is empty, which testing/synctest recognises as durably
// blocked. It must be created inside the bubble that uses it.
type Queue struct {
	mu     sync.Mutex
	q      [][]byte
	err    error // returned once the queue is empty (nil: block)
	wake   chan struct{}
	Total  int // octets ever written
	Taken  int // octets handed to the reader
	Log    []byte
	Waits  int // number of times a reader had to block
	rdDead bool
	// deadline returns the reader's current read deadline (zero: none); set by the End that reads from the queue
	deadline func() time.Time
}

func NewQueue() *Queue { return &Queue{wake: make(chan struct{}, 1)} }

func (p *Queue) Write(b []byte) (int, error) {
	p.mu.Lock()
	if p.rdDead {
		p.mu.Unlock()
		return 0, io.ErrClosedPipe
	}
	if len(b) > 0 {
		p.q = append(p.q, append([]byte(nil), b...))
		p.Total += len(b)
		p.Log = append(p.Log, b...)
	}
	p.mu.Unlock()
	select {
	case p.wake <- struct{}{}:
	default:
	}
	return len(b), nil
}

// End makes Read return err once the queued octets are consumed.
func (p *Queue) End(err error) {
	p.mu.Lock()
	if p.err == nil {
		p.err = err
	}
	p.mu.Unlock()
	select {
	case p.wake <- struct{}{}:
	default:
	}
}

// CloseRead makes the reading side fail immediately (its own Close).
func (p *Queue) CloseRead() {
	p.mu.Lock()
	p.rdDead = true
	p.mu.Unlock()
	select {
	case p.wake <- struct{}{}:
	default:
	}
}

func (p *Queue) Read(b []byte) (int, error) {
	for {
		p.mu.Lock()
		if p.rdDead {
			p.mu.Unlock()
			return 0, net.ErrClosed
		}
		if dlf := p.deadline; dlf != nil {
			// a deadline that has passed already fails the Read at once, data or not (as the runtime's poller does)
			p.mu.Unlock()
			if dl := dlf(); !dl.IsZero() && !time.Now().Before(dl) {
				return 0, deadlineErr("read")
			}
			p.mu.Lock()
			if p.rdDead {
				p.mu.Unlock()
				return 0, net.ErrClosed
			}
		}
		if len(p.q) > 0 {
			n := copy(b, p.q[0])
			if n == len(p.q[0]) {
				p.q = p.q[1:]
			} else {
				p.q[0] = p.q[0][n:]
			}
			p.Taken += n
			p.mu.Unlock()
			return n, nil
		}
		if p.err != nil {
			err := p.err
			p.mu.Unlock()
			return 0, err
		}
		p.Waits++
		dlf := p.deadline
		p.mu.Unlock()
		var dl time.Time
		if dlf != nil {
			dl = dlf()
		}
		if dl.IsZero() {
			<-p.wake
			continue
		}
		// a read deadline is armed: like a real connection, the Read ends with a timeout error when it passes
		// (inside a bubble this is the virtual clock)
		d := time.Until(dl)
		if d <= 0 {
			return 0, deadlineErr("read")
		}
		t := time.NewTimer(d)
		select {
		case <-p.wake:
			t.Stop()
		case <-t.C:
			// re-check: the deadline may have been moved meanwhile
			if cur := dlf(); !cur.IsZero() && !time.Now().Before(cur) {
				return 0, deadlineErr("read")
			}
		}
	}
}

// Pending reports the number of queued octets.
func (p *Queue) Pending() int {
	p.mu.Lock()
	defer p.mu.Unlock()
	n := 0
	for _, s := range p.q {
		n += len(s)
	}
	return n
}

// Drain removes and returns everything queued.
func (p *Queue) Drain() []byte {
	p.mu.Lock()
	defer p.mu.Unlock()
	var out []byte
	for _, s := range p.q {
		out = append(out, s...)
	}
	p.Taken += len(out)
	p.q = nil
	return out
}

// End of one in-memory connection.
type End struct {
	In, Out *Queue
	name    string
	mu      sync.Mutex
	Closed  bool
	// deadlines are honoured like on a real connection (virtual clock inside a bubble)
	rdDL, wrDL time.Time
}

func (e *End) Read(b []byte) (int, error) { return e.In.Read(b) }
func (e *End) Write(b []byte) (int, error) {
	e.mu.Lock()
	dl := e.wrDL
	e.mu.Unlock()
	if !dl.IsZero() && !time.Now().Before(dl) {
		return 0, deadlineErr("read") // the write deadline has passed (queues never fill up, so this is the only way to time out)
	}
	return e.Out.Write(b)
}
func (e *End) Close() error {
	e.mu.Lock()
	if e.Closed {
		e.mu.Unlock()
		return net.ErrClosed
	}
	e.Closed = true
	e.mu.Unlock()
	e.In.CloseRead()
	e.Out.End(io.EOF)
	return nil
}
func (e *End) IsClosed() bool {
	e.mu.Lock()
	defer e.mu.Unlock()
	return e.Closed
}
func (e *End) LocalAddr() net.Addr  { return addr(e.name) }
func (e *End) RemoteAddr() net.Addr { return addr("peer-of-" + e.name) }
func (e *End) SetDeadline(t time.Time) error {
	e.SetReadDeadline(t)
	return e.SetWriteDeadline(t)
}
func (e *End) SetReadDeadline(t time.Time) error {
	e.mu.Lock()
	e.rdDL = t
	e.mu.Unlock()
	// a blocked Read re-evaluates its deadline
	select {
	case e.In.wake <- struct{}{}:
	default:
	}
	return nil
}
func (e *End) SetWriteDeadline(t time.Time) error {
	e.mu.Lock()
	e.wrDL = t
	e.mu.Unlock()
	return nil
}
func (e *End) readDeadline() time.Time {
	e.mu.Lock()
	defer e.mu.Unlock()
	return e.rdDL
}

// NewDuplex returns the two ends of an in-memory connection.
func NewDuplex() (client, server *End) {
	c2s, s2c := NewQueue(), NewQueue()
	client, server = &End{In: s2c, Out: c2s, name: "client"}, &End{In: c2s, Out: s2c, name: "server"}
	s2c.deadline, c2s.deadline = client.readDeadline, server.readDeadline
	return client, server
}

// Live is a real server connection driven in lock-step from the calling
// goroutine. It must be created and used inside a Bubble.
type Live struct {
	Cfg     Config
	Be      *Backend
	Srv     *smtp.Server
	Log     *LogBuf
	Client  *End
	Server  *End
	Conn    *smtp.Conn
	TLS     *tls.Conn // client side TLS layer once STARTTLS / implicit TLS is active
	Done    bool      // handler returned
	Err     error
	Sent    []byte // every plaintext octet sent so far (above TLS)
	Wire    []byte // every plaintext octet received so far (above TLS)
	nEvents int
	// Patience: when the server is quiescent and has written nothing, wait that long (virtual clock) once more
	// before concluding that there is no answer - for backends that take their time (Backend.SlowAbort).
	Patience time.Duration
	// Settle: wait Patience after EVERY send, also when the server has answered already (a server that answers first and
	// cleans up afterwards - QUIT, a refused chunk - lets a slow backend take its time behind the reply)
	Settle bool
	// Pace: the client lets that much (virtual) time pass before every Send - a slow but steady peer.
	Pace time.Duration
}

// NewLive starts the handler for one connection. implicitTLS wraps the
// server side in tls.Server before it is served (as ListenAndServeTLS does).
func NewLive(cfg Config, be *Backend, implicitTLS bool) *Live {
	return NewLiveOn(nil, cfg, be, implicitTLS)
}

// NewLiveOn is NewLive on an existing server (several connections of one server); srv == nil makes a new one.
func NewLiveOn(srv *smtp.Server, cfg Config, be *Backend, implicitTLS bool) *Live {
	l := &Live{Cfg: cfg, Be: be, Log: &LogBuf{}}
	l.Srv = srv
	if srv == nil {
		l.Srv = cfg.NewServer(be, l.Log)
	}
	l.Client, l.Server = NewDuplex()
	var nc net.Conn = l.Server
	if implicitTLS {
		nc = tls.Server(l.Server, ServerTLSConfig())
		l.TLS = tls.Client(l.Client, ClientTLSConfig())
	}
	go func() {
		l.Err = l.Srv.VerifServeConn(nc, func(c *smtp.Conn) { l.Conn = c })
		l.Done = true
	}()
	if implicitTLS {
		if err := l.TLS.Handshake(); err != nil {
			panic("harness: implicit TLS handshake failed: " + err.Error())
		}
	}
	return l
}

// collect waits for quiescence and returns what the server has written since
// the last call (plaintext).
func (l *Live) collect() []byte {
	Wait()
	if l.Patience > 0 && (l.Client.In.Pending() == 0 || l.Settle) {
		time.Sleep(l.Patience)
		Wait()
	}
	var out []byte
	if l.TLS == nil {
		out = l.Client.In.Drain()
	} else {
		buf := make([]byte, 16384)
		for l.Client.In.Pending() > 0 {
			n, err := l.TLS.Read(buf)
			out = append(out, buf[:n]...)
			if err != nil {
				break
			}
		}
	}
	l.Wire = append(l.Wire, out...)
	return out
}

// Greeting collects the server's greeting.
func (l *Live) Greeting() []byte { return l.collect() }

// Send writes the segments (each becomes one raw read of the server, unless
// TLS is active) and returns what the server answered once it is quiescent.
func (l *Live) Send(segs ...[]byte) []byte {
	if l.Pace > 0 {
		time.Sleep(l.Pace)
	}
	for _, s := range segs {
		l.Sent = append(l.Sent, s...)
		if l.TLS != nil {
			l.TLS.Write(s)
		} else {
			l.Client.Write(s)
		}
	}
	return l.collect()
}

// SendRaw writes plaintext octets below the TLS layer (for injection tests).
func (l *Live) SendRaw(b []byte) { l.Client.Write(b) }

// StartTLSHandshake performs the client side of the TLS handshake after a
// 220 reply to STARTTLS. Octets still queued towards the client are dropped
// first (there are none in lock-step operation).
func (l *Live) StartTLSHandshake() error {
	c := tls.Client(l.Client, ClientTLSConfig())
	if err := c.Handshake(); err != nil {
		return err
	}
	l.TLS = c
	Wait()
	if l.Patience > 0 {
		// what the server does after the handshake (ending an open delivery, logging the old session out) may take
		// a slow backend a while
		time.Sleep(l.Patience)
		Wait()
	}
	return nil
}

// NewEvents returns the backend events recorded since the last call.
func (l *Live) NewEvents() []Event {
	tr := l.Be.Trace()
	out := tr[l.nEvents:]
	l.nEvents = len(tr)
	return out
}

// State is the connection's private-state dump (only while the handler is
// blocked or done).
func (l *Live) State() string {
	if l.Conn == nil {
		return ""
	}
	return l.Conn.VerifState()
}

// Hangup ends the client's stream with the given terminal answer and lets
// everything settle.
func (l *Live) Hangup(term string) []byte {
	l.Client.Out.End(termErr(term))
	return l.collect()
}

// Replies parses octets as a sequence of replies.
func Replies(wire []byte) ([]ref.Reply, error) { return ref.ParseReplies(wire) }
