// Package h is the shared harness: run bookkeeping (evidence, violations,
// known findings, replay files), scripted connections, the recording backend
// and small enumerators.
package h

import (
	"bufio"
	"encoding/json"
	"fmt"
	"os"
	"path/filepath"
	"runtime"
	"sort"
	"strconv"
	"strings"
	"sync"
	"sync/atomic"
	"time"
)

// Root is the /verif directory (overridable for tests of the harness itself).
var Root = func() string {
	if r := os.Getenv("VERIF_ROOT"); r != "" {
		return r
	}
	return "/verif"
}()

// Finding describes one violated expectation.
type Finding struct {
	Sig  string `json:"sig"`  // stable signature, used to match KNOWN_FINDINGS.txt
	What string `json:"what"` // human readable: observed vs expected
}

func F(sig, format string, a ...interface{}) *Finding {
	return &Finding{Sig: sig, What: fmt.Sprintf(format, a...)}
}

// Replay is what is written to a replay file.
type Replay struct {
	Property string          `json:"property"`
	Sub      string          `json:"sub"` // which sub-check (selects the replayer)
	Case     json.RawMessage `json:"case"`
	Finding  *Finding        `json:"finding"`
	Reruns   []string        `json:"reruns,omitempty"` // outcome of re-running the case 5x
}

type known struct {
	prop, id, sig, what string
}

// Run collects everything one invocation of a check produces.
type Run struct {
	Prop, Tier, Level, Part string
	Seed                    int64
	Rule                    string
	Assumptions             []string
	Notes                   map[string]interface{}
	Exhaustive              bool

	start    time.Time
	deadline time.Time

	evals, nontrivial   atomic.Int64
	states, transitions atomic.Int64
	traces              atomic.Int64
	expired             atomic.Bool

	mu         sync.Mutex
	outcomes   map[string]int64
	samples    []interface{}
	sampleKeys map[string]int
	violations int
	vioSigs    map[string]int
	knownHit   map[string]int64 // known id -> count
	knowns     []known
	counters   map[string]int64
	hasStates  bool
}

func envInt(name string, def int64) int64 {
	if v := os.Getenv(name); v != "" {
		if n, err := strconv.ParseInt(v, 10, 64); err == nil {
			return n
		}
	}
	return def
}

// NewRun starts a run. budget is the internal time budget after which
// enumerations stop voluntarily (exhaustive=false, exit 0).
func NewRun(prop, tier, level, part string, budget time.Duration) *Run {
	r := &Run{Prop: prop, Tier: tier, Level: level, Part: part, Seed: envInt("VERIF_SEED", 1),
		Notes: map[string]interface{}{}, Exhaustive: true,
		start: time.Now(), outcomes: map[string]int64{}, sampleKeys: map[string]int{},
		vioSigs: map[string]int{}, knownHit: map[string]int64{}, counters: map[string]int64{}}
	if b := envInt("VERIF_BUDGET_S", 0); b > 0 {
		budget = time.Duration(b) * time.Second
	}
	r.deadline = r.start.Add(budget)
	GuardProperty = prop
	StartGuard()
	r.loadKnown()
	return r
}

func (r *Run) loadKnown() {
	f, err := os.Open(filepath.Join(Root, "KNOWN_FINDINGS.txt"))
	if err != nil {
		return
	}
	defer f.Close()
	sc := bufio.NewScanner(f)
	for sc.Scan() {
		line := strings.TrimSpace(sc.Text())
		if !strings.HasPrefix(line, "known:") {
			continue
		}
		// known: property=C05 id=<id> sig=<sig> :: <what fails>
		head, what, _ := strings.Cut(strings.TrimSpace(strings.TrimPrefix(line, "known:")), "::")
		k := known{what: strings.TrimSpace(what)}
		for _, f := range strings.Fields(head) {
			key, val, _ := strings.Cut(f, "=")
			switch key {
			case "property":
				k.prop = val
			case "id":
				k.id = val
			case "sig":
				k.sig = val
			}
		}
		if k.prop == r.Prop && k.sig != "" {
			r.knowns = append(r.knowns, k)
		}
	}
}

// Expired reports whether the internal budget is used up; the first time it
// is, the run stops being exhaustive.
func (r *Run) Expired() bool {
	if r.expired.Load() {
		return true
	}
	if time.Now().After(r.deadline) {
		r.expired.Store(true)
		r.mu.Lock()
		r.Exhaustive = false
		r.Notes["budget_hit"] = "internal time budget reached; enumeration stopped early (see counters for what was covered)"
		r.mu.Unlock()
		return true
	}
	return false
}

func (r *Run) NotExhaustive(why string) {
	r.mu.Lock()
	r.Exhaustive = false
	r.Notes["not_exhaustive"] = why
	r.mu.Unlock()
}

// Eval counts one executed case; nontrivial by the check's stated rule.
func (r *Run) Eval(nontrivial bool) {
	r.evals.Add(1)
	if nontrivial {
		r.nontrivial.Add(1)
	}
}
func (r *Run) EvalN(n, nontrivial int64) { r.evals.Add(n); r.nontrivial.Add(nontrivial) }

func (r *Run) State(n int64)      { r.states.Add(n); r.hasStates = true }
func (r *Run) Transition(n int64) { r.transitions.Add(n); r.hasStates = true }
func (r *Run) Trace(n int64)      { r.traces.Add(n) }

// Outcome counts distinct observed outcomes (vacuity indicator).
func (r *Run) Outcome(o string) {
	r.mu.Lock()
	r.outcomes[o]++
	r.mu.Unlock()
}

// Outcomes merges a worker-local outcome map.
func (r *Run) Outcomes(m map[string]int64) {
	r.mu.Lock()
	for k, v := range m {
		r.outcomes[k] += v
	}
	r.mu.Unlock()
}

func (r *Run) Counter(name string, n int64) {
	r.mu.Lock()
	r.counters[name] += n
	r.mu.Unlock()
}

// Sample keeps up to max samples per kind.
func (r *Run) Sample(kind string, max int, s interface{}) {
	r.mu.Lock()
	if r.sampleKeys[kind] < max {
		r.sampleKeys[kind]++
		r.samples = append(r.samples, map[string]interface{}{"kind": kind, "case": s})
	}
	r.mu.Unlock()
}

// Violate reports a finding for case c of sub-check sub. rerun, if non-nil,
// re-evaluates the case (used for the 5x determinism re-check).
func (r *Run) Violate(sub string, c interface{}, f *Finding, rerun func() *Finding) {
	r.mu.Lock()
	for _, k := range r.knowns {
		if k.sig == f.Sig {
			r.knownHit[k.id]++
			r.mu.Unlock()
			return
		}
	}
	r.vioSigs[f.Sig]++
	n := r.vioSigs[f.Sig]
	nsigs := len(r.vioSigs)
	r.violations++
	r.mu.Unlock()
	if n > 2 || nsigs > 12 {
		return // enough replay files for this signature
	}
	var reruns []string
	if rerun != nil {
		for i := 0; i < 5; i++ {
			var g *Finding
			func() {
				// a re-run that panics must not take the check down (exit 2) after a violation was found
				defer func() {
					if p := recover(); p != nil {
						g = F("rerun-panicked", "%v", p)
					}
				}()
				g = rerun()
			}()
			switch {
			case g == nil:
				reruns = append(reruns, "no-violation")
			case g.Sig == f.Sig && g.What == f.What:
				reruns = append(reruns, "same")
			default:
				reruns = append(reruns, "different: "+g.Sig+": "+g.What)
			}
		}
	}
	raw, _ := json.Marshal(c)
	rp := Replay{Property: r.Prop, Sub: sub, Case: raw, Finding: f, Reruns: reruns}
	dir := filepath.Join(Root, "evidence", "replays")
	os.MkdirAll(dir, 0o755)
	path := filepath.Join(dir, fmt.Sprintf("%s-%s-%d.json", r.Prop, sanitize(f.Sig), n))
	b, _ := json.MarshalIndent(rp, "", " ")
	os.WriteFile(path, b, 0o644)
	r.mu.Lock()
	fmt.Printf("VIOLATION property=%s replay=%s\n", r.Prop, path)
	fmt.Printf("  sub=%s sig=%s\n  %s\n  reruns=%v\n", sub, f.Sig, f.What, reruns)
	r.mu.Unlock()
}

func sanitize(s string) string {
	var b strings.Builder
	for _, c := range s {
		if c >= 'a' && c <= 'z' || c >= 'A' && c <= 'Z' || c >= '0' && c <= '9' || c == '-' || c == '_' {
			b.WriteRune(c)
		} else {
			b.WriteByte('_')
		}
	}
	if b.Len() > 60 {
		return b.String()[:60]
	}
	return b.String()
}

// Evidence is the on-disk form (EVIDENCE.schema.json).
type Evidence struct {
	PropertyID  string                 `json:"property_id"`
	Tier        string                 `json:"tier"`
	Seed        int64                  `json:"seed"`
	Level       string                 `json:"level"`
	Coverage    map[string]interface{} `json:"coverage"`
	Assumptions []string               `json:"assumptions,omitempty"`
	WallS       float64                `json:"wall_s"`
	Violations  int                    `json:"violations"`
}

func (r *Run) evidence() *Evidence {
	cov := map[string]interface{}{
		"evaluations":         r.evals.Load(),
		"distinct_nontrivial": r.nontrivial.Load(),
		"rule":                r.Rule,
		"samples":             r.samples,
		"exhaustive":          r.Exhaustive,
		"distinct_outcomes":   len(r.outcomes),
	}
	if r.hasStates {
		cov["states"] = r.states.Load()
		cov["transitions"] = r.transitions.Load()
		cov["traces_validated_against_impl"] = r.traces.Load()
	}
	// top outcomes, for the reader
	type kv struct {
		K string
		V int64
	}
	var os_ []kv
	for k, v := range r.outcomes {
		os_ = append(os_, kv{k, v})
	}
	sort.Slice(os_, func(i, j int) bool {
		if os_[i].V != os_[j].V {
			return os_[i].V > os_[j].V
		}
		return os_[i].K < os_[j].K
	})
	top := map[string]int64{}
	for i, e := range os_ {
		if i >= 25 {
			break
		}
		top[e.K] = e.V
	}
	cov["outcome_histogram_top"] = top
	if len(r.counters) > 0 {
		cov["counters"] = r.counters
	}
	kh := map[string]int64{}
	for k, v := range r.knownHit {
		kh[k] = v
	}
	if len(kh) > 0 {
		cov["known_findings_observed"] = kh
	}
	for k, v := range r.Notes {
		cov[k] = v
	}
	return &Evidence{PropertyID: r.Prop, Tier: r.Tier, Seed: r.Seed, Level: r.Level, Coverage: cov,
		Assumptions: r.Assumptions, WallS: time.Since(r.start).Seconds(), Violations: r.violations}
}

// Finish writes the evidence (or the part file) and returns the exit code.
func (r *Run) Finish() int {
	ev := r.evidence()
	for _, k := range r.knowns {
		if n := r.knownHit[k.id]; n > 0 {
			fmt.Printf("KNOWN-FINDING: property=%s %s (id=%s, %d cases)\n", r.Prop, k.what, k.id, n)
		}
	}
	var path string
	if r.Part != "" {
		path = filepath.Join(Root, ".work", "parts", r.Prop+"."+r.Part+".json")
	} else {
		path = filepath.Join(Root, "evidence", r.Prop+".json")
	}
	os.MkdirAll(filepath.Dir(path), 0o755)
	b, merr := json.MarshalIndent(ev, "", " ")
	if merr != nil || len(b) == 0 {
		fmt.Fprintln(os.Stderr, "cannot encode evidence:", merr)
		return 2
	}
	// written to a temporary file first and renamed: a reader never sees half an evidence file
	if err := os.WriteFile(path+".tmp", b, 0o644); err != nil {
		fmt.Fprintln(os.Stderr, "cannot write evidence:", err)
		return 2
	}
	if err := os.Rename(path+".tmp", path); err != nil {
		fmt.Fprintln(os.Stderr, "cannot write evidence:", err)
		return 2
	}
	fmt.Printf("%s[%s%s]: evaluations=%d nontrivial=%d states=%d transitions=%d outcomes=%d exhaustive=%v violations=%d wall=%.1fs\n",
		r.Prop, r.Tier, map[bool]string{true: "/" + r.Part, false: ""}[r.Part != ""], r.evals.Load(), r.nontrivial.Load(),
		r.states.Load(), r.transitions.Load(), len(r.outcomes), r.Exhaustive, r.violations, time.Since(r.start).Seconds())
	if r.violations > 0 {
		return 1
	}
	return 0
}

// MergeParts merges .work/parts/<prop>.*.json into evidence/<prop>.json.
func MergeParts(prop string, parts []string) error {
	var out *Evidence
	for _, p := range parts {
		b, err := os.ReadFile(filepath.Join(Root, ".work", "parts", prop+"."+p+".json"))
		if err != nil {
			return err
		}
		var e Evidence
		if err := json.Unmarshal(b, &e); err != nil {
			return err
		}
		if out == nil {
			out = &e
			out.Coverage["parts"] = map[string]interface{}{}
		}
		pm := out.Coverage["parts"].(map[string]interface{})
		sub := map[string]interface{}{}
		for k, v := range e.Coverage {
			if k != "samples" && k != "parts" {
				sub[k] = v
			}
		}
		sub["wall_s"] = e.WallS
		pm[p] = sub
		if out == &e {
			continue
		}
		for _, k := range []string{"evaluations", "distinct_nontrivial", "states", "transitions", "traces_validated_against_impl", "distinct_outcomes"} {
			a, aok := out.Coverage[k].(float64)
			b, bok := e.Coverage[k].(float64)
			if aok || bok {
				out.Coverage[k] = a + b
			}
		}
		as, _ := out.Coverage["samples"].([]interface{})
		bs, _ := e.Coverage["samples"].([]interface{})
		out.Coverage["samples"] = append(as, bs...)
		ae, _ := out.Coverage["exhaustive"].(bool)
		be, _ := e.Coverage["exhaustive"].(bool)
		out.Coverage["exhaustive"] = ae && be
		ar, _ := out.Coverage["rule"].(string)
		br, _ := e.Coverage["rule"].(string)
		out.Coverage["rule"] = ar + " || " + br
		out.Assumptions = append(out.Assumptions, e.Assumptions...)
		out.WallS += e.WallS
		out.Violations += e.Violations
	}
	if out == nil {
		return fmt.Errorf("no parts")
	}
	for _, k := range []string{"evaluations", "distinct_nontrivial", "states", "transitions", "traces_validated_against_impl", "distinct_outcomes"} {
		if f, ok := out.Coverage[k].(float64); ok {
			out.Coverage[k] = int64(f)
		}
	}
	delete(out.Coverage, "outcome_histogram_top")
	b, _ := json.MarshalIndent(out, "", " ")
	os.MkdirAll(filepath.Join(Root, "evidence"), 0o755)
	return os.WriteFile(filepath.Join(Root, "evidence", prop+".json"), b, 0o644)
}

// Workers is the parallelism used by enumerations.
var Workers = func() int {
	if n := envInt("VERIF_WORKERS", 0); n > 0 {
		return int(n)
	}
	n := runtime.NumCPU()
	if n > 16 {
		n = 16
	}
	return n
}()

// ParallelFor runs f(i) for i in [0,n) on Workers goroutines (dynamic
// scheduling). f must be safe for concurrent use.
func ParallelFor(n int, f func(i int)) {
	var next atomic.Int64
	var wg sync.WaitGroup
	w := Workers
	if w > n {
		w = n
	}
	for k := 0; k < w; k++ {
		wg.Add(1)
		go func() {
			defer wg.Done()
			for {
				i := int(next.Add(1) - 1)
				if i >= n {
					return
				}
				f(i)
			}
		}()
	}
	wg.Wait()
}

// Replayers maps sub-check names to functions that re-evaluate a stored case.
var Replayers = map[string]func(raw json.RawMessage) *Finding{}

// RegisterReplayer registers a typed replayer.
func RegisterReplayer[T any](sub string, eval func(c T) *Finding) {
	Replayers[sub] = func(raw json.RawMessage) *Finding {
		var c T
		if err := json.Unmarshal(raw, &c); err != nil {
			return F("harness-error", "cannot decode case: %v", err)
		}
		return eval(c)
	}
}

// ReplayFile re-executes a replay file; returns exit code.
func ReplayFile(path string) int {
	b, err := os.ReadFile(path)
	if err != nil {
		fmt.Fprintln(os.Stderr, err)
		return 2
	}
	var rp Replay
	if err := json.Unmarshal(b, &rp); err != nil {
		fmt.Fprintln(os.Stderr, err)
		return 2
	}
	fn := Replayers[rp.Sub]
	if fn == nil {
		fmt.Fprintf(os.Stderr, "no replayer for sub-check %q\n", rp.Sub)
		return 2
	}
	f := fn(rp.Case)
	if f == nil {
		fmt.Printf("replay %s: no violation on the current tree\n", path)
		return 0
	}
	fmt.Printf("VIOLATION property=%s replay=%s\n  sig=%s\n  %s\n", rp.Property, path, f.Sig, f.What)
	return 1
}
