package h

import (
	"bufio"
	"bytes"
	"crypto/tls"
	"fmt"
	"net"
	"strings"
	"time"

	smtp "github.com/emersion/go-smtp"
)

// CS is a real client connected to a real (or scripted) server over an
// in-memory connection, inside a Bubble.
type CS struct {
	Client     *smtp.Client
	CEnd, SEnd *End
	Be         *Backend
	Log        *LogBuf
	Srv        *smtp.Server
	Done       bool
	Err        error
}

// ToServer returns every octet the client has written so far (raw, below TLS).
func (cs *CS) ToServer() []byte {
	cs.CEnd.Out.mu.Lock()
	defer cs.CEnd.Out.mu.Unlock()
	return append([]byte(nil), cs.CEnd.Out.Log...)
}

// ToClient returns every octet the server has written so far.
func (cs *CS) ToClient() []byte {
	cs.CEnd.In.mu.Lock()
	defer cs.CEnd.In.mu.Unlock()
	return append([]byte(nil), cs.CEnd.In.Log...)
}

// WithRealServer runs f with a go-smtp client talking to a go-smtp server.
// implicitTLS wraps both ends in TLS first. Must be called inside a Bubble.
func WithRealServer(cfg Config, be *Backend, implicitTLS bool, f func(cs *CS)) {
	defer GuardEnter(fmt.Sprintf("real client <-> real server, config %+v", cfg))()
	cs := &CS{Be: be, Log: &LogBuf{}}
	cs.Srv = cfg.NewServer(be, cs.Log)
	cs.CEnd, cs.SEnd = NewDuplex()
	var snc, cnc net.Conn = cs.SEnd, cs.CEnd
	if implicitTLS {
		snc = tls.Server(cs.SEnd, ServerTLSConfig())
		cnc = tls.Client(cs.CEnd, ClientTLSConfig())
	}
	go func() {
		cs.Err = cs.Srv.VerifServeConn(snc, nil)
		cs.Done = true
	}()
	if cfg.LMTP {
		cs.Client = smtp.NewClientLMTP(cnc)
	} else {
		cs.Client = smtp.NewClient(cnc)
	}
	f(cs)
	cs.Client.Close()
	cs.CEnd.Close()
	Wait()
}

// Script is a fake server: a pure function from a command line to the
// octets to answer with. Returning nil closes the connection.
type Script func(line string, n int) []byte

// WithScriptedServer runs f with a go-smtp client talking to a scripted
// server. greeting is sent first. Lines received are recorded in *lines.
func WithScriptedServer(greeting string, script Script, lmtp bool, f func(cs *CS), lines *[]string) {
	cs := &CS{}
	cs.CEnd, cs.SEnd = NewDuplex()
	go func() {
		cs.SEnd.Write([]byte(greeting))
		br := bufio.NewReader(cs.SEnd)
		n := 0
		for {
			line, err := br.ReadString('\n')
			if err != nil {
				cs.SEnd.Close()
				cs.Done = true
				return
			}
			if lines != nil {
				*lines = append(*lines, line)
			}
			out := script(strings.TrimRight(line, "\r\n"), n)
			n++
			if out == nil {
				cs.SEnd.Close()
				cs.Done = true
				return
			}
			// "\x00SLEEP\x00" inside an answer: the server pauses six minutes (virtual clock) at that point
			for i, part := range bytes.Split(out, []byte("\x00SLEEP\x00")) {
				if i > 0 {
					time.Sleep(6 * time.Minute)
				}
				// "\x00CUT\x00": the answer reaches the client in separate pieces (one Read each), without any delay
				for _, piece := range bytes.Split(part, []byte("\x00CUT\x00")) {
					// "\x00EOF\x00" at the end of a piece: the server hangs up behind it
					hangup := bytes.HasSuffix(piece, []byte("\x00EOF\x00"))
					piece = bytes.TrimSuffix(piece, []byte("\x00EOF\x00"))
					if len(piece) > 0 {
						cs.SEnd.Write(piece)
					}
					if hangup {
						cs.SEnd.Close()
						cs.Done = true
						return
					}
				}
			}
		}
	}()
	if lmtp {
		cs.Client = smtp.NewClientLMTP(cs.CEnd)
	} else {
		cs.Client = smtp.NewClient(cs.CEnd)
	}
	f(cs)
	cs.Client.Close()
	cs.CEnd.Close()
	Wait()
}
