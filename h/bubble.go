package h

import (
	"fmt"
	"testing"
	"testing/synctest"
)

// T is the test the bubbles hang off; set by the runner (run/main_test.go).
var T *testing.T

// Bubble runs f inside a testing/synctest bubble: every goroutine f starts
// belongs to the bubble, Wait() returns when all of them are durably blocked
// or gone, and when f returns the bubble waits for the remaining goroutines.
// If some of them are blocked forever, synctest panics; the text of that
// panic (it names the stuck goroutines' state) is returned as leak. Any other
// panic of f itself is returned as pan.
func Bubble(f func()) (leak, pan string) {
	defer func() {
		if p := recover(); p != nil {
			leak = fmt.Sprint(p)
		}
	}()
	synctest.Test(T, func(t *testing.T) {
		defer func() {
			if p := recover(); p != nil {
				pan = fmt.Sprint(p)
			}
		}()
		f()
	})
	return
}

// Wait blocks until every other goroutine of the current bubble is durably
// blocked (or has exited).
func Wait() { synctest.Wait() }
