package h

import (
	"fmt"
	"os"
	"path/filepath"
	"runtime"
	"runtime/debug"
	"sync"
	"sync/atomic"
	"testing"
	"testing/synctest"
	"time"
)

// T is the test the bubbles hang off; set by the runner (run/main_test.go).
var T *testing.T

// Bubble runs f inside a testing/synctest bubble: every goroutine f starts
// belongs to the bubble, Wait() returns when all of them are durably blocked
// or gone, and when f returns the bubble waits for the remaining goroutines.
// If some of them are blocked forever, synctest panics; the text of that
// panic (it names the stuck goroutines' state) is returned as leak. Any other
// panic of f itself is returned as pan.
func Bubble(f func()) (leak, pan string) {
	// every bubble is under the hang guard, whether or not the caller registered a better description of the case
	if _, file, line, ok := runtime.Caller(1); ok {
		defer GuardEnter(fmt.Sprintf("an execution started at %s:%d", filepath.Base(file), line))()
	}
	defer func() {
		if p := recover(); p != nil {
			leak = fmt.Sprint(p)
		}
	}()
	synctest.Test(T, func(t *testing.T) {
		defer func() {
			if p := recover(); p != nil {
				pan = fmt.Sprint(p)
			}
		}()
		f()
	})
	return
}

// Wait blocks until every other goroutine of the current bubble is durably
// blocked (or has exited).
func Wait() { synctest.Wait() }

// ---- hang guard -------------------------------------------------------------------------------------
//
// An execution normally takes microseconds. Code under test that spins (a busy loop is not "durably
// blocked", so neither synctest.Wait nor the bubble's exit ever returns) would make a check hang until
// somebody kills it. The guard turns that into a verdict: an execution that is still running after
// HangLimit of real time is reported as a violation (with a description of the case) and the process
// exits 1. This is the only wall-clock criterion in the harness; the limit is five orders of magnitude
// above the normal duration of an execution.

var HangLimit = 180 * time.Second

// MemLimit: heap size at which the watchdog gives up (VERIF_MEM_LIMIT_MB overrides).
var MemLimit uint64 = 24 << 30 // replaced by 60 % of MemTotal when /proc/meminfo is readable

// GuardProperty is set by NewRun.
var GuardProperty string

type guardSlot struct {
	desc  string
	start int64 // guardClock at entry
}

// guardClock is REAL time in seconds since the watchdog started, published by the watchdog goroutine (which
// lives outside every bubble). GuardEnter is usually called inside a bubble, where time.Now() is the bubble's
// virtual clock (starting in the year 2000) - comparing that with the real clock would make every execution
// that is in flight when the watchdog looks seem decades old. So nothing inside a bubble reads a clock here.
var guardClock atomic.Int64

var guard struct {
	mu    sync.Mutex
	slots map[int64]*guardSlot
	next  int64
	once  sync.Once
}

// StartGuard starts the watchdog. It must be called OUTSIDE any bubble (a goroutine started inside a
// bubble belongs to it); NewRun does.
func StartGuard() {
	guard.once.Do(func() {
		if n := envInt("VERIF_HANG_LIMIT_S", 0); n > 0 {
			HangLimit = time.Duration(n) * time.Second
		}
		if b, err := os.ReadFile("/proc/meminfo"); err == nil {
			var kb uint64
			if _, err := fmt.Sscanf(string(b), "MemTotal: %d kB", &kb); err == nil && kb > 0 {
				MemLimit = kb * 1024 / 10 * 6 // 60 % of the machine
				// the checks run with GC percent 800 (speed); near a third of the machine the collector is told
				// to work harder instead of letting garbage pile up
				debug.SetMemoryLimit(int64(kb * 1024 / 3))
			}
		}
		if n := envInt("VERIF_MEM_LIMIT_MB", 0); n > 0 {
			MemLimit = uint64(n) << 20
		}
		go guardWatch()
	})
}

// GuardEnter registers a running execution; call the returned function when it is over.
func GuardEnter(desc string) func() {
	guard.mu.Lock()
	if guard.slots == nil {
		guard.slots = map[int64]*guardSlot{}
	}
	guard.next++
	id := guard.next
	guard.slots[id] = &guardSlot{desc: desc, start: guardClock.Load()}
	guard.mu.Unlock()
	return func() {
		guard.mu.Lock()
		delete(guard.slots, id)
		guard.mu.Unlock()
	}
}

func guardWatch() {
	t0 := time.Now()
	for {
		time.Sleep(time.Second)
		now := int64(time.Since(t0) / time.Second)
		guardClock.Store(now)
		// the same for memory: executions use kilobytes; code under test that allocates without end would take the
		// machine down (the sandbox has no memory limit) instead of producing a verdict
		if now%2 == 0 {
			var ms runtime.MemStats
			runtime.ReadMemStats(&ms)
			if ms.HeapAlloc > MemLimit {
				guard.mu.Lock()
				desc := "(no execution registered)"
				var oldest int64 = 1 << 62
				for _, s := range guard.slots {
					if s.start < oldest {
						oldest, desc = s.start, s.desc
					}
				}
				guard.mu.Unlock()
				dir := filepath.Join(Root, "evidence", "replays")
				os.MkdirAll(dir, 0o755)
				path := filepath.Join(dir, GuardProperty+"-execution-exhausts-memory-1.json")
				os.WriteFile(path, []byte(fmt.Sprintf("{\n \"property\": %q,\n \"sub\": \"hang\",\n \"finding\": {\"sig\": \"execution-exhausts-memory\", \"what\": %q}\n}\n", GuardProperty,
					fmt.Sprintf("the check's heap grew beyond %d MiB (normal: well under a tenth of that): code under test allocates without end; longest-running execution: %s", MemLimit>>20, desc))), 0o644)
				fmt.Printf("VIOLATION property=%s replay=%s\n  sig=execution-exhausts-memory\n  heap beyond %d MiB; longest-running execution: %s\n", GuardProperty, path, MemLimit>>20, desc)
				os.Exit(1)
			}
		}
		guard.mu.Lock()
		for _, s := range guard.slots {
			if time.Duration(now-s.start)*time.Second > HangLimit {
				dir := filepath.Join(Root, "evidence", "replays")
				os.MkdirAll(dir, 0o755)
				path := filepath.Join(dir, GuardProperty+"-execution-hangs-1.json")
				os.WriteFile(path, []byte(fmt.Sprintf("{\n \"property\": %q,\n \"sub\": \"hang\",\n \"finding\": {\"sig\": \"execution-hangs\", \"what\": %q}\n}\n", GuardProperty,
					fmt.Sprintf("an execution that normally takes microseconds is still running after %s (busy loop or livelock in the code under test): %s", HangLimit, s.desc))), 0o644)
				fmt.Printf("VIOLATION property=%s replay=%s\n  sig=execution-hangs\n  still running after %s: %s\n", GuardProperty, path, HangLimit, s.desc)
				os.Exit(1)
			}
		}
		guard.mu.Unlock()
	}
}
