package h

import (
	"crypto/ecdsa"
	"crypto/elliptic"
	"crypto/rand"
	"crypto/tls"
	"crypto/x509"
	"crypto/x509/pkix"
	"math/big"
	"sync"
	"time"
)

var (
	tlsOnce   sync.Once
	tlsCert   tls.Certificate
	tlsPool   *x509.CertPool
	otherCert tls.Certificate // self-signed, NOT in the pool (untrusted)
)

func mkCert(cn string) (tls.Certificate, *x509.Certificate) {
	key, err := ecdsa.GenerateKey(elliptic.P256(), rand.Reader)
	if err != nil {
		panic(err)
	}
	tmpl := &x509.Certificate{
		SerialNumber: big.NewInt(int64(len(cn)) + 42),
		Subject:      pkix.Name{CommonName: cn},
		DNSNames:     []string{cn, "localhost", "127.0.0.1"},
		// synctest bubbles start their fake clock at 2000-01-01
		NotBefore:             time.Date(1990, 1, 1, 0, 0, 0, 0, time.UTC),
		NotAfter:              time.Date(2090, 1, 1, 0, 0, 0, 0, time.UTC),
		KeyUsage:              x509.KeyUsageDigitalSignature | x509.KeyUsageCertSign,
		ExtKeyUsage:           []x509.ExtKeyUsage{x509.ExtKeyUsageServerAuth},
		BasicConstraintsValid: true,
		IsCA:                  true,
	}
	der, err := x509.CreateCertificate(rand.Reader, tmpl, tmpl, &key.PublicKey, key)
	if err != nil {
		panic(err)
	}
	leaf, _ := x509.ParseCertificate(der)
	return tls.Certificate{Certificate: [][]byte{der}, PrivateKey: key, Leaf: leaf}, leaf
}

func tlsInit() {
	tlsOnce.Do(func() {
		var leaf *x509.Certificate
		tlsCert, leaf = mkCert("srv.example")
		tlsPool = x509.NewCertPool()
		tlsPool.AddCert(leaf)
		otherCert, _ = mkCert("srv.example")
	})
}

// ServerTLSConfig is the harness server certificate (trusted by ClientTLSConfig).
func ServerTLSConfig() *tls.Config {
	tlsInit()
	// no session tickets: they would sit unread in the lock-step client's queue
	return &tls.Config{Certificates: []tls.Certificate{tlsCert}, SessionTicketsDisabled: true}
}

// UntrustedServerTLSConfig presents a certificate the client does not trust.
func UntrustedServerTLSConfig() *tls.Config {
	tlsInit()
	return &tls.Config{Certificates: []tls.Certificate{otherCert}, SessionTicketsDisabled: true}
}

// ClientTLSConfig trusts the harness certificate only.
func ClientTLSConfig() *tls.Config {
	tlsInit()
	return &tls.Config{RootCAs: tlsPool, ServerName: "srv.example"}
}
