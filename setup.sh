#!/bin/bash
# Builds the framework from files on disk only (offline) and warms the build caches:
#  bin/vtest      engines S/L/D (go1.26.8, -tags verif)
#  bin/vtest-x    the same with the vsync overlay (schedule explorer, C04/C13/C20)
#  bin/vtest-race the same with the race detector (engine R, C20)
cd "$(dirname "$0")" || exit 1
export GOFLAGS=-mod=mod GOPROXY=off GOSUMDB=off GOTOOLCHAIN=local
GO=/opt/veriftools/go1.26.8/bin/go
mkdir -p bin .work/parts evidence/replays
$GO test -c -vet=off -tags verif -o bin/vtest ./run || exit 1
tools/mkoverlay.sh || exit 1
$GO test -c -vet=off -overlay .work/overlay.json -tags verif,vsync -o bin/vtest-x ./run || exit 1
$GO test -c -race -vet=off -tags verif -o bin/vtest-race ./run || exit 1
echo setup ok
