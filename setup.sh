#!/bin/bash
# Builds the framework from files on disk only (offline) and warms the build caches.
cd "$(dirname "$0")" || exit 1
export GOFLAGS=-mod=mod GOPROXY=off GOSUMDB=off GOTOOLCHAIN=local
mkdir -p bin .work/parts evidence/replays
/opt/veriftools/go1.26.8/bin/go test -c -vet=off -tags verif -o bin/vtest ./run || exit 1
echo setup ok
